"""C05 templates, part 2: min/max/clip/relu fusions, hardswish, matmul/gemm family, expand-before-binary-op."""
from __future__ import annotations

import numpy as np
from onnx import numpy_helper

from .c05_templates import S, Skip, template


# ------------------------------------------------------------------------------------------ Min/Max -> Min/Max/Clip
@template("minmax")
def t_minmax(p):
    outer, inner = p["outer"], p["inner"]
    clip = outer != inner
    tag = f"{outer}({inner})"

    def mk(c_in, c_out, xshape=(3, 4), dtype="float32", kind="init", opset=18, tap=None, decl=None, alts_out=None,
           extra_var=False, clash=False, kinds=None):
        """c_in / c_out: lists of (value, shape) constants for the inner / outer node."""
        def fn(h):
            h.opset = opset
            h.exact = True
            vals = [v for v, _ in list(c_in) + list(c_out)]
            pool = [float(v) for v in vals] + [float(v) + 1 for v in vals] + [float(v) - 1 for v in vals]
            x = h.inp(dtype, decl if decl is not None else list(xshape), rt=list(xshape), pool=pool, name="mx")
            def cs(lst, alts=None):
                res = []
                for j, (v, shp) in enumerate(lst):
                    kd = (kinds[j] if kinds else kind)
                    res.append(h.operand(np.full(shp, v, dtype=dtype), kd,
                                         alts=[np.full(shp, a, dtype=dtype) for a in (alts or [])]))
                return res
            ins_in = [x] + cs(c_in)
            if extra_var:
                ins_in.append(h.inp(dtype, list(xshape), name="yv"))
            a = h.node(inner, ins_in)
            b = h.node(outer, [a] + cs(c_out, alts_out))
            h.out(b)
            if tap:
                h.tap(a, tap)
            if clash:
                suffix = "_min"
                h.inits.append(numpy_helper.from_array(np.array(100, dtype=dtype), x + suffix))
                other = h.inp(dtype, [2], name="ov")
                h.out(h.node("Add", [other, x + suffix]))
        return fn

    sc = ()
    lo, hi = 2.0, 8.0
    # for Max(Min(x, ub), lb) the inner constant is the upper bound; for Min(Max(x, lb), ub) the lower bound
    if clip:
        first, second = (hi, lo) if inner == "Min" else (lo, hi)
        inv_first, inv_second = (lo, hi) if inner == "Min" else (hi, lo)   # lb > ub
    else:
        first, second = lo, hi
        inv_first, inv_second = hi, lo
    out = [
        S("scalar", "scalars", mk([(first, sc)], [(second, sc)])),
        S("scalar_const_nodes_opset13", "scalars", mk([(first, sc)], [(second, sc)], kind="const", opset=13)),
        S("scalar_rank0_x", "scalars", mk([(first, sc)], [(second, sc)], xshape=())),
        S("scalar_rank4_sym_opset21", "scalars", mk([(first, sc)], [(second, sc)], xshape=(2, 1, 3, 2), decl=["N", 1, 3, 2], opset=21)),
        S("scalar_negative", "scalars;negative", mk([(-first, sc)], [(-second, sc)] if not clip else [(-second, sc)])),
        S("scalar_equal", "scalars;equal", mk([(3.0, sc)], [(3.0, sc)])),
        S("scalar_inverted", "scalars;lb>ub", mk([(inv_first, sc)], [(inv_second, sc)])),
        S("scalar_f64", "scalars", mk([(first, sc)], [(second, sc)], dtype="float64")),
        S("scalar_f16", "scalars", mk([(first, sc)], [(second, sc)], dtype="float16")),
        S("scalar_i32", "scalars", mk([(int(first), sc)], [(int(second), sc)], dtype="int32")),
        S("scalar_i64_negative", "scalars", mk([(-3 if inner == "Max" else 5, sc)], [(5 if inner == "Max" else -3, sc)], dtype="int64")),
        S("scalar_u8", "scalars", mk([(int(first), sc)], [(int(second), sc)], dtype="uint8")),
        S("multi_consts", "several scalars", mk([(first, sc), (first + 1, sc)], [(second, sc), (second - 0.5, sc)])),
        S("shape_1", "const shape [1];x rank>=1", mk([(first, (1,))], [(second, (1,))])),
        S("shape_1_rank0_x", "size-1 const of higher rank than x", mk([(first, (1,))], [(second, (1,))], xshape=())),
        S("shape_11_rank1_x", "size-1 const of higher rank than x", mk([(first, (1, 1))], [(second, (1, 1))], xshape=(4,))),
        S("shape_11_rank2_x", "const shape [1,1];x rank>=2", mk([(first, (1, 1))], [(second, (1, 1))])),
        S("mixed_ranks", "size-1 consts of different rank", mk([(first, sc), (first, (1,))], [(second, sc)])),
        S("vector_consts", "vector consts", mk([(first, (4,))], [(second, (4,))])),
        S("vector_broadcast_up", "vector consts enlarge rank", mk([(first, (2, 1, 4))], [(second, (4,))])),
        S("inner_no_const", "inner has no constant", mk([], [(second, sc)])),
        S("outer_no_const", "outer has no constant", mk([(first, sc)], [])),
        S("both_no_const", "no constants", mk([], [])),
        S("inner_extra_variable", "inner has a non-constant operand", mk([(first, sc)], [(second, sc)], extra_var=True)),
        S("init_input", "overridable-initializer", mk([(first, sc)], [(second, sc)], kinds=None, kind="init_input",
                                                        alts_out=[second - 5, second + 5])),
        S("graph_input", "consts=graph-input", mk([(first, sc)], [(second, sc)], kind="input")),
        S("mid_is_output", "intermediate-is-output", mk([(first, sc)], [(second, sc)], tap="output")),
        S("mid_has_consumer", "intermediate-has-consumer", mk([(first, sc)], [(second, sc)], tap="consumer")),
        S("initializer_name_clash", "new-initializer-name-exists", mk([(first, sc)], [(second, sc)], clash=True), forms=("inferred", "bare")),
    ]
    return out


# ------------------------------------------------------------------------------------------ Relu / Clip chains
@template("reluclip")
def t_reluclip(p):
    outer, inner = p["outer"], p["inner"]
    tag = f"{outer}({inner})"
    nclips = (outer == "Clip") + (inner == "Clip")

    def mk(b1=(None, None), b2=(None, None), dtype="float32", kind="init", opset=18, xshape=(3, 4), tap=None, decl=None,
           alts=None, clash=False, bshape=()):
        """b1: (min,max) of the inner Clip (or of the only Clip); b2: of the outer Clip when both are Clips."""
        def fn(h):
            h.opset = opset
            h.exact = True
            bounds = [v for v in list(b1) + list(b2) if v is not None]
            pool = [float(v) for v in bounds] + [float(v) + 1 for v in bounds] + [float(v) - 1 for v in bounds]
            x = h.inp(dtype, decl if decl is not None else list(xshape), rt=list(xshape), pool=pool, name="cx")
            def clip_ins(src, b, al=None):
                mn, mx = b
                ins = [src]
                if mn is not None or mx is not None:
                    ins.append(h.operand(np.full(bshape, mn, dtype=dtype), kind, alts=[np.full(bshape, a, dtype=dtype) for a in (al or [])])
                               if mn is not None else "")
                if mx is not None:
                    ins.append(h.operand(np.full(bshape, mx, dtype=dtype), kind))
                return ins
            if inner == "Relu":
                a = h.node("Relu", [x])
            else:
                a = h.node("Clip", clip_ins(x, b1, alts))
            if outer == "Relu":
                b = h.node("Relu", [a])
            else:
                b = h.node("Clip", clip_ins(a, b2 if inner == "Clip" else b1, alts if inner != "Clip" else None))
            h.out(b)
            if tap:
                h.tap(a, tap)
            if clash:
                h.inits.append(numpy_helper.from_array(np.array(100, dtype=dtype), x + "_min"))
                other = h.inp(dtype, [2], name="ov")
                h.out(h.node("Add", [other, x + "_min"]))
        return fn

    if nclips == 0:
        return [
            S("f32", "plain", mk()), S("f64_rank0", "plain", mk(dtype="float64", xshape=())), S("f16_opset13", "plain", mk(dtype="float16", opset=13)),
            S("i32_opset14", "plain", mk(dtype="int32", opset=14)), S("i8_rank4_sym_opset21", "plain", mk(dtype="int8", xshape=(2, 1, 2, 3), decl=["N", 1, 2, 3], opset=21)),
            S("mid_is_output", "intermediate-is-output", mk(tap="output")), S("mid_has_consumer", "intermediate-has-consumer", mk(tap="consumer")),
        ]
    if nclips == 1:
        bs = [
            ("min_max_pos", "0<=min<=max", (2.0, 8.0)), ("min_neg_max_pos", "min<0<max", (-5.0, 8.0)),
            ("both_neg", "max<0", (-5.0, -2.0)), ("only_min_pos", "only min;min>0", (2.0, None)), ("only_min_neg", "only min;min<0", (-5.0, None)),
            ("only_max_pos", "only max;max>0", (None, 8.0)), ("only_max_neg", "max<0", (None, -2.0)), ("no_bounds", "no bounds", (None, None)),
            ("inverted", "min>max>0", (8.0, 2.0)), ("equal", "min=max", (3.0, 3.0)), ("zero_zero", "min=max=0", (0.0, 0.0)),
        ]
        out = [S(sid, cond, mk(b1=b)) for sid, cond, b in bs]
        out += [
            S("f64_const_nodes", "0<=min<=max", mk(b1=(2.0, 8.0), dtype="float64", kind="const")),
            S("f16_opset13", "min<0<max", mk(b1=(-5.0, 8.0), dtype="float16", opset=13)),
            S("i32_opset14", "min<0<max", mk(b1=(-5, 8), dtype="int32", opset=14)),
            S("i32_both_neg_opset21", "max<0", mk(b1=(-5, -2), dtype="int32", opset=21)),
            S("rank0_sym", "0<=min<=max", mk(b1=(2.0, 8.0), xshape=(2, 3), decl=["N", 3])),
            S("init_input", "overridable-initializer", mk(b1=(2.0, 8.0), kind="init_input", alts=[-4.0, 5.0])),
            S("graph_input", "bounds=graph-input", mk(b1=(2.0, 8.0), kind="input", alts=[-4.0])),
            S("mid_is_output", "intermediate-is-output", mk(b1=(2.0, 8.0), tap="output")),
            S("mid_has_consumer", "intermediate-has-consumer", mk(b1=(2.0, 8.0), tap="consumer")),
            S("initializer_name_clash", "new-initializer-name-exists", mk(b1=(2.0, 8.0), clash=True), forms=("inferred", "bare")),
        ]
        return out
    bs = [
        ("nested", "second inside first", (0.0, 10.0), (2.0, 8.0)), ("nested_rev", "first inside second", (2.0, 8.0), (0.0, 10.0)),
        ("overlap", "overlapping", (0.0, 6.0), (3.0, 10.0)), ("disjoint_hi", "second.min>first.max", (0.0, 10.0), (20.0, 30.0)),
        ("disjoint_lo", "second.max<first.min", (20.0, 30.0), (0.0, 10.0)), ("equal", "identical", (1.0, 5.0), (1.0, 5.0)),
        ("only_mins", "only mins", (1.0, None), (3.0, None)), ("only_maxs", "only maxs", (None, 7.0), (None, 4.0)),
        ("min_then_max", "first only min;second only max", (2.0, None), (None, 6.0)),
        ("min_then_lower_max", "first only min;second only max below it", (5.0, None), (None, 2.0)),
        ("max_then_higher_min", "second.min>first.max", (None, 2.0), (5.0, None)),
        ("first_unbounded", "first has no bounds", (None, None), (2.0, 8.0)), ("second_unbounded", "second has no bounds", (2.0, 8.0), (None, None)),
        ("negative", "negative bounds", (-9.0, -1.0), (-6.0, -3.0)), ("first_inverted", "first min>max", (8.0, 2.0), (0.0, 10.0)),
    ]
    out = [S(sid, cond, mk(b1=a, b2=b)) for sid, cond, a, b in bs]
    out += [
        S("f64_const_nodes", "second inside first", mk(b1=(0.0, 10.0), b2=(2.0, 8.0), dtype="float64", kind="const")),
        S("f16_opset13", "overlapping", mk(b1=(0.0, 6.0), b2=(3.0, 10.0), dtype="float16", opset=13)),
        S("i32", "overlapping", mk(b1=(0, 6), b2=(3, 10), dtype="int32")),
        S("i64_disjoint_hi_opset21", "second.min>first.max", mk(b1=(0, 10), b2=(20, 30), dtype="int64", opset=21)),
        S("u8", "second inside first", mk(b1=(0, 10), b2=(2, 8), dtype="uint8")),
        S("rank0_x", "second inside first", mk(b1=(0.0, 10.0), b2=(2.0, 8.0), xshape=())),
        S("init_input", "overridable-initializer", mk(b1=(0.0, 10.0), b2=(2.0, 8.0), kind="init_input", alts=[5.0, -3.0])),
        S("graph_input", "bounds=graph-input", mk(b1=(0.0, 10.0), b2=(2.0, 8.0), kind="input", alts=[5.0])),
        S("mid_is_output", "intermediate-is-output", mk(b1=(0.0, 10.0), b2=(2.0, 8.0), tap="output")),
        S("mid_has_consumer", "intermediate-has-consumer", mk(b1=(0.0, 10.0), b2=(2.0, 8.0), tap="consumer")),
        S("initializer_name_clash", "new-initializer-name-exists", mk(b1=(0.0, 10.0), b2=(2.0, 8.0), clash=True), forms=("inferred", "bare")),
    ]
    return out


# ------------------------------------------------------------------------------------------ HardSwish / HardSigmoid
@template("hardswish")
def t_hardswish(p):
    which = p["which"]

    def mk(consts=(3.0, 0.0, 6.0, 6.0), dtype="float32", opset=18, add_x_first=True, mul_clip_first=True, cshape=(), kind="init",
           xshape=(3, 4), tight=False, alpha=1 / 6, beta=0.5, tap=None, alts=None, decl=None):
        """consts = (bias, clip_min, clip_max, divisor)"""
        def fn(h):
            h.opset = opset
            # HardSigmoid/HardSwish carry alpha as a float32 attribute: a double host cannot agree beyond ~1e-8
            h.rtol, h.atol = (2e-6, 2e-6) if (tight and dtype != "float16") else ((1e-6, 1e-7) if dtype == "float64" else (None, None))
            x = h.inp(dtype, decl if decl is not None else list(xshape), rt=list(xshape), mag="mod", pool=[-3.0, 3.0, -2.999, 2.999, 0.0, 6.0, -6.0, 1.0])
            if which == "from_sigmoid":
                hs = h.node("HardSigmoid", [x], alpha=alpha, beta=beta)
                y = h.node("Mul", [hs, x] if mul_clip_first else [x, hs])
                h.out(y)
                if tap:
                    h.tap(hs, tap)
                return
            bias, cmin, cmax, div = consts
            def c(v, al=None, shp=cshape):
                return h.operand(np.full(shp, v, dtype=dtype), kind, alts=[np.full(shp, a, dtype=dtype) for a in (al or [])])
            b = c(bias, alts)
            a = h.node("Add", [x, b] if add_x_first else [b, x])
            cl = h.node("Clip", [a, c(cmin, shp=()), c(cmax, shp=())])
            if which == "swish":
                m = h.node("Mul", [cl, x] if mul_clip_first else [x, cl])
                y = h.node("Div", [m, c(div)])
            else:
                y = h.node("Div", [cl, c(div)])
            h.out(y)
            if tap:
                h.tap(cl, tap)
        return fn

    if which == "from_sigmoid":
        a32 = float(np.float32(1 / 6))
        return [
            S("exact_clipfirst", "alpha=1/6;beta=0.5;opset>=14", mk()), S("exact_xfirst", "alpha=1/6;beta=0.5;opset>=14", mk(mul_clip_first=False)),
            S("exact_f32repr_opset14", "alpha=1/6;beta=0.5;opset>=14", mk(alpha=a32, opset=14)),
            S("exact_opset22_rank0", "alpha=1/6;beta=0.5;opset>=14", mk(opset=22, xshape=())),
            S("exact_sym_rank4", "alpha=1/6;beta=0.5;opset>=14", mk(xshape=(2, 1, 2, 3), decl=["N", 1, 2, 3])),
            S("exact_f64", "alpha=1/6;beta=0.5;opset>=14;double", mk(dtype="float64")),
            S("exact_f16", "alpha=1/6;beta=0.5;opset>=14;float16", mk(dtype="float16")),
            S("opset13", "opset<14", mk(opset=13)), S("opset13_xfirst", "opset<14", mk(opset=13, mul_clip_first=False)),
            S("alpha_close", "constants only approximately equal", mk(alpha=(1 / 6) * (1 + 8e-6), tight=True)),
            S("beta_close", "constants only approximately equal", mk(beta=0.5 * (1 + 8e-6), tight=True)),
            S("alpha_default_absent", "alpha absent", mk(alpha=None)), S("beta_absent", "beta absent", mk(beta=None)),
            S("alpha_0.2", "alpha=0.2", mk(alpha=0.2)), S("beta_0.4", "beta=0.4", mk(beta=0.4)),
            S("mid_is_output", "intermediate-is-output", mk(tap="output")), S("mid_has_consumer", "intermediate-has-consumer", mk(tap="consumer")),
        ]
    ok = "constants exact"
    out = []
    for xf in (True, False):
        for cf in ((True, False) if which == "swish" else (True,)):
            out.append(S(f"exact_add{'X' if xf else 'C'}_mul{'C' if cf else 'X'}", f"{ok};opset>=14",
                         mk(add_x_first=xf, mul_clip_first=cf)))
            out.append(S(f"opset13_add{'X' if xf else 'C'}_mul{'C' if cf else 'X'}", "opset<14" if which == "swish" else f"{ok};opset13",
                         mk(add_x_first=xf, mul_clip_first=cf, opset=13)))
    r = 5e-5
    out += [
        S("exact_const_nodes_opset14", f"{ok};opset>=14", mk(kind="const", opset=14)),
        S("exact_rank0_opset22", f"{ok};opset>=14", mk(xshape=(), opset=22)),
        S("exact_sym_rank4", f"{ok};opset>=14", mk(xshape=(2, 1, 2, 3), decl=["N", 1, 2, 3])),
        S("exact_f64", f"{ok};double", mk(dtype="float64")), S("exact_f16", f"{ok};float16", mk(dtype="float16")),
        S("bias_close", "constants only approximately equal", mk(consts=(3.0 * (1 + r), 0.0, 6.0, 6.0), tight=True)),
        S("max_close", "constants only approximately equal", mk(consts=(3.0, 0.0, 6.0 * (1 - r), 6.0), tight=True)),
        S("div_close", "constants only approximately equal", mk(consts=(3.0, 0.0, 6.0, 6.0 * (1 + r)), tight=True)),
        S("min_eps", "clip min ~0", mk(consts=(3.0, 1e-9, 6.0, 6.0), tight=True)),
        S("bias_off", "constant off by 1e-3", mk(consts=(3.003, 0.0, 6.0, 6.0))),
        S("div_off", "constant off", mk(consts=(3.0, 0.0, 6.0, 5.0))),
        S("bias_shape_1_rank0_x", "size-1 const of higher rank than x", mk(cshape=(1,), xshape=())),
        S("bias_shape_11_rank1_x", "size-1 const of higher rank than x", mk(cshape=(1, 1), xshape=(4,))),
        S("bias_shape_11_rank2_x", f"{ok};const shape [1,1]", mk(cshape=(1, 1))),
        S("init_input", "overridable-initializer", mk(kind="init_input", alts=[1.0, 2.0])),
        S("graph_input", "consts=graph-input", mk(kind="input", alts=[1.0])),
        S("mid_is_output", "intermediate-is-output", mk(tap="output")), S("mid_has_consumer", "intermediate-has-consumer", mk(tap="consumer")),
    ]
    return out


# ------------------------------------------------------------------------------------------ Reshape-MatMul-Reshape, Reshape-Gemm-Reshape
@template("reshape_matmul")
def t_reshape_matmul(p):
    which = p["which"]

    def mk(a, b, sa, sb, sc, dtype="float32", kind="init", opset=18, decl_a=None, decl_b=None, tap=None, gemm=None, cshape=None,
           alts_c=None, mm_dtype=None):
        """a, b: operand shapes; sa, sb: reshape targets (sb None = not reshaped); sc: final target."""
        def fn(h):
            h.opset = opset
            h.scale = 4.0
            xa = h.inp(dtype, decl_a if decl_a is not None else list(a), rt=list(a), mag="mod", name="A")
            xb = h.inp(dtype, decl_b if decl_b is not None else list(b), rt=list(b), mag="mod", name="B")
            ra = h.node("Reshape", [xa, h.operand(np.array(sa, np.int64), kind)])
            if which == "two":
                if sb is None:
                    raise Skip()
                rb = h.node("Reshape", [xb, h.operand(np.array(sb, np.int64), kind)])
            else:
                rb = xb
            if which == "gemm":
                g = dict(gemm or {})
                ins = [ra, rb]
                if cshape is not None:
                    ins.append(h.inp(dtype, list(cshape), mag="mod", name="C"))
                mm = h.node("Gemm", ins, alpha=g.get("alpha", 1.0), beta=g.get("beta", 1.0), transA=g.get("transA"), transB=g.get("transB"))
            else:
                mm = h.node("MatMul", [ra, rb])
            y = h.node("Reshape", [mm, h.operand(np.array(sc, np.int64), kind, alts=[np.array(v, np.int64) for v in (alts_c or [])])])
            h.out(y)
            if tap:
                h.tap(mm, tap)
        return fn

    if which == "gemm":
        base = dict(a=(2, 3, 4), b=(4, 5), sa=(6, 4), sb=None, sc=(2, 3, 5))
        return [
            S("canonical_c_vec", "flatten leading dims;C=[N]", mk(**base, cshape=(5,))),
            S("canonical_c_scalar_opset13", "flatten leading dims;C scalar", mk(**base, cshape=(), opset=13)),
            S("canonical_c_1N_opset21", "flatten leading dims;C=[1,N]", mk(**base, cshape=(1, 5), opset=21)),
            S("canonical_f64_const", "flatten leading dims;C=[N]", mk(**base, cshape=(5,), dtype="float64", kind="const")),
            S("c_full_MN", "C rank 2 with B*M rows", mk(**base, cshape=(6, 5))),
            S("c_M1", "C rank 2 with B*M rows", mk(**base, cshape=(6, 1))),
            S("no_c", "C absent", mk(**base)),
            S("rank4_a", "flatten leading dims;C=[N]", mk(a=(2, 1, 3, 4), b=(4, 5), sa=(6, 4), sb=None, sc=(2, 1, 3, 5), cshape=(5,))),
            S("noop_reshape", "reshapes are no-ops", mk(a=(3, 4), b=(4, 5), sa=(3, 4), sb=None, sc=(3, 5), cshape=(5,))),
            S("transB_square", "transA/transB=1", mk(a=(2, 3, 4), b=(4, 4), sa=(6, 4), sb=None, sc=(2, 3, 4), cshape=(4,), gemm={"transB": 1})),
            S("transA_square", "transA/transB=1", mk(a=(2, 2, 4), b=(4, 5), sa=(4, 4), sb=None, sc=(2, 2, 5), cshape=(5,), gemm={"transA": 1})),
            S("transB0_explicit", "transB=0 explicit", mk(**base, cshape=(5,), gemm={"transB": 0})),
            S("alpha_2", "alpha!=1", mk(**base, cshape=(5,), gemm={"alpha": 2.0})),
            S("beta_half", "beta!=1", mk(**base, cshape=(5,), gemm={"beta": 0.5})),
            S("alpha_close", "alpha~1", mk(**base, cshape=(5,), gemm={"alpha": 1.0 + 5e-6})),
            S("alpha_beta_absent", "alpha/beta absent", mk(**base, cshape=(5,), gemm={"alpha": None, "beta": None})),
            S("regroup_rows", "reshape regroups rows", mk(a=(2, 3, 4), b=(4, 5), sa=(3, 2, 4)[1:] and (6, 4), sb=None, sc=(3, 2, 5), cshape=(5,))),
            S("sym_a", "A symbolic", mk(**base, cshape=(5,), decl_a=["N", 3, 4])),
            S("shape_c_minus1", "shape_c has -1", mk(a=(2, 3, 4), b=(4, 5), sa=(6, 4), sb=None, sc=(2, -1, 5), cshape=(5,))),
            S("init_input_shape_c", "overridable-initializer", mk(**base, cshape=(5,), kind="init_input", alts_c=[[3, 2, 5], [6, 1, 5]])),
            S("graph_input_shapes", "shapes=graph-input", mk(**base, cshape=(5,), kind="input")),
            S("mid_is_output", "intermediate-is-output", mk(**base, cshape=(5,), tap="output")),
            S("mid_has_consumer", "intermediate-has-consumer", mk(**base, cshape=(5,), tap="consumer")),
        ]
    two = which == "two"
    out = [
        S("canonical_3d_2d", "flatten leading dims", mk((2, 3, 4), (4, 5), (6, 4), (4, 5), (2, 3, 5))),
        S("canonical_4d_2d_opset13", "flatten leading dims", mk((2, 1, 3, 4), (4, 5), (6, 4), (4, 5), (2, 1, 3, 5), opset=13)),
        S("canonical_f64_const_opset21", "flatten leading dims", mk((2, 3, 4), (4, 5), (6, 4), (4, 5), (2, 3, 5), dtype="float64", kind="const", opset=21)),
        S("canonical_i32", "flatten leading dims;int32", mk((2, 3, 4), (4, 5), (6, 4), (4, 5), (2, 3, 5), dtype="int32")),
        S("noop_reshapes", "reshapes are no-ops", mk((2, 3, 4), (2, 4, 5), (2, 3, 4), (2, 4, 5), (2, 3, 5))),
        S("batch_broadcast_b", "explicit batch broadcast", mk((2, 3, 4), (4, 5), (2, 3, 4), (1, 4, 5), (2, 3, 5))),
        S("batch_broadcast_a", "explicit batch broadcast", mk((3, 4), (2, 4, 5), (1, 3, 4), (2, 4, 5), (2, 3, 5))),
        S("a_1d", "A is 1-D", mk((4,), (2, 4, 5), (1, 4), (2, 4, 5), (2, 5))),
        S("b_1d", "B is 1-D", mk((2, 3, 4), (4,), (6, 4), (4, 1), (2, 3))),
        S("both_1d", "dot product", mk((4,), (4,), (1, 4), (4, 1), ())),
        S("regroup_rows", "reshape regroups rows", mk((2, 3, 4), (4, 5), (3, 2, 4), (4, 5), (2, 3, 5))),
        S("adversarial_batch_to_cols", "reshape moves batch of B into columns", mk((1, 4, 4), (4, 4, 1), (4, 4), (4, 4), (4, 4, 1))),
        S("adversarial_swap_batch", "reshape re-splits batch dims", mk((2, 2, 2, 3), (2, 2, 3, 2), (4, 2, 3), (4, 3, 2), (2, 2, 2, 2))),
        S("shape_c_other", "shape_c != matmul shape", mk((2, 3, 4), (4, 5), (6, 4), (4, 5), (6, 5))),
        S("shape_c_minus1", "shape_c has -1", mk((2, 3, 4), (4, 5), (6, 4), (4, 5), (2, -1, 5))),
        S("shape_c_zero", "shape_c has 0", mk((2, 3, 4), (4, 5), (6, 4), (4, 5), (2, 3, 0))),
        S("sym_a", "A symbolic", mk((2, 3, 4), (4, 5), (6, 4), (4, 5), (2, 3, 5), decl_a=["N", 3, 4])),
        S("sym_b", "B symbolic", mk((2, 3, 4), (4, 5), (6, 4), (4, 5), (2, 3, 5), decl_b=[4, "M"])),
        S("init_input_shape_c", "overridable-initializer", mk((2, 3, 4), (4, 5), (6, 4), (4, 5), (2, 3, 5), kind="init_input", alts_c=[[3, 2, 5], [6, 1, 5]])),
        S("graph_input_shapes", "shapes=graph-input", mk((2, 3, 4), (4, 5), (6, 4), (4, 5), (2, 3, 5), kind="input")),
        S("mid_is_output", "intermediate-is-output", mk((2, 3, 4), (4, 5), (6, 4), (4, 5), (2, 3, 5), tap="output")),
        S("mid_has_consumer", "intermediate-has-consumer", mk((2, 3, 4), (4, 5), (6, 4), (4, 5), (2, 3, 5), tap="consumer")),
    ]
    return out


# ------------------------------------------------------------------------------------------ MatMul + Add -> Gemm
@template("matmul_add")
def t_matmul_add(p):
    ta, tb = p["ta"], p["tb"]

    def mk(M=3, K=4, N=5, cshape=(5,), dtype="float32", opset=18, decl_a=None, decl_b=None, perm=(1, 0), tap=None, bias_first=False,
           ckind="input", a_rank=2, b_kind="input"):
        def fn(h):
            h.opset = opset
            h.scale = 4.0
            ash = [K, M] if ta else [M, K]
            bsh = [N, K] if tb else [K, N]
            if a_rank == 3:
                ash = [2] + ash
            a = h.inp(dtype, None if decl_a == "none" else (decl_a if decl_a is not None else ash), rt=ash, mag="mod", name="A")
            if b_kind == "input":
                b = h.inp(dtype, None if decl_b == "none" else (decl_b if decl_b is not None else bsh), rt=bsh, mag="mod", name="B")
            else:
                b = h.operand((h.rs.standard_normal(bsh) * 2).round(2).astype(dtype), b_kind, name="B")
            xa = h.node("Transpose", [a], perm=list(perm) if perm else None) if ta else a
            xb = h.node("Transpose", [b], perm=list(perm) if perm else None) if tb else b
            mm = h.node("MatMul", [xa, xb])
            if ckind == "input":
                c = h.inp(dtype, list(cshape), mag="mod", name="C")
            else:
                c = h.operand((h.rs.standard_normal(cshape) * 2).round(2).astype(dtype), ckind, name="C")
            y = h.node("Add", [c, mm] if bias_first else [mm, c])
            h.out(y)
            if tap:
                h.tap(mm, tap)
        return fn

    out = [
        S("bias_N", "bias=[N]", mk()), S("bias_MN_opset13", "bias=[M,N]", mk(cshape=(3, 5), opset=13)),
        S("bias_1N_opset21", "bias=[1,N]", mk(cshape=(1, 5), opset=21)), S("bias_M1", "bias=[M,1]", mk(cshape=(3, 1))),
        S("bias_scalar", "bias scalar", mk(cshape=())), S("bias_1", "bias=[1]", mk(cshape=(1,))),
        S("bias_init", "bias=[N]", mk(ckind="init")), S("weights_init", "bias=[N]", mk(ckind="init", b_kind="init")),
        S("bias_rank3_1MN", "bias rank 3", mk(cshape=(1, 3, 5))), S("bias_rank3_2MN", "bias rank 3", mk(cshape=(2, 3, 5))),
        S("bias_rank3_211", "bias rank 3", mk(cshape=(2, 1, 1))),
        S("f64", "bias=[N]", mk(dtype="float64")), S("f16", "bias=[N];float16", mk(dtype="float16")),
        S("i32", "bias=[N];int32", mk(dtype="int32")), S("i64", "bias=[N];int64", mk(dtype="int64")),
        S("sym_a", "A symbolic rank 2", mk(decl_a=["P", "Q"])), S("sym_b", "B symbolic rank 2", mk(decl_b=["P", "Q"])),
        S("unknown_rank_a", "A rank unknown", mk(decl_a="none")),
        S("M1_N1", "M=N=1", mk(M=1, N=1, cshape=(1,))),
        S("bias_first", "Add(bias, matmul)", mk(bias_first=True)),
        S("mid_is_output", "intermediate-is-output", mk(tap="output")), S("mid_has_consumer", "intermediate-has-consumer", mk(tap="consumer")),
    ]
    if not ta:
        out.append(S("a_rank3", "A rank 3", mk(a_rank=3)))
    if ta or tb:
        out.append(S("transpose_without_perm", "perm absent", mk(perm=None)))
    return out


# ------------------------------------------------------------------------------------------ BinaryOp(Expand(x), y)
_BIN = {
    # op: (dtype x, dtype y, attrs, unidirectional)
    "Add": ("float32", "float32", {}), "Sub": ("float32", "float32", {}), "Mul": ("int64", "int64", {}), "Div": ("float32", "float32", {}),
    "And": ("bool", "bool", {}), "Or": ("bool", "bool", {}), "Xor": ("bool", "bool", {}),
    "BitShift": ("uint8", "uint8", {"direction": "RIGHT"}),
    "BitwiseAnd": ("int32", "int32", {}), "BitwiseOr": ("uint8", "uint8", {}), "BitwiseXor": ("int64", "int64", {}),
    "Equal": ("int64", "int64", {}), "Greater": ("float32", "float32", {}), "GreaterOrEqual": ("float32", "float32", {}),
    "Less": ("int32", "int32", {}), "LessOrEqual": ("float32", "float32", {}),
    "Mod": ("int64", "int64", {}), "Pow": ("float32", "float32", {}), "PRelu": ("float32", "float32", {}),
}


@template("expand_binary")
def t_expand_binary(p):
    op = p["op"]
    if op not in _BIN:
        return []
    dx, dy, attrs = _BIN[op]

    def gen_for(dt, shape, rs, role):
        n = int(np.prod(shape)) if shape else 1
        def g(k):
            r = np.random.default_rng(int(rs.integers(0, 2**31 - 1)) if False else (k * 7919 + len(shape) * 31 + (1 if role == "y" else 0)))
            return np.asarray(g0(r), dtype=dt).reshape(shape)

        def g0(r):
            if dt == "bool":
                return r.random(shape) < 0.5
            if op == "BitShift":
                return (r.integers(0, 200, shape) if role == "x" else r.integers(0, 7, shape)).astype(dt)
            if op in ("Mod",) and role == "y":
                v = r.integers(1, 9, shape) * np.where(r.random(shape) < 0.4, -1, 1)
                return v.astype(dt)
            if op == "Div" and role == "y":
                v = np.round(r.uniform(0.5, 4.0, shape), 2) * np.where(r.random(shape) < 0.4, -1, 1)
                return v.astype(dt)
            if op == "Pow":
                v = np.round(r.uniform(0.5, 3.0, shape), 2) if role == "x" else r.integers(-2, 4, shape)
                return np.asarray(v).astype(dt)
            if np.dtype(dt).kind == "f":
                return np.round(r.standard_normal(shape) * 3, 2).astype(dt)
            lo = 0 if np.dtype(dt).kind == "u" else -20
            return r.integers(lo, 21, shape).astype(dt)
        return g

    def mk(xs, es, ys, side="first", kind="init", opset=18, decl_x=None, decl_y=None, shape_src="const", tap=None, alts=None,
           at=None, fdt=None):
        """xs: shape of the expanded operand, es: expand target, ys: other operand's shape."""
        def fn(h):
            h.opset = opset
            h.exact = op not in ("Pow", "Div", "PRelu") or True
            tdx, tdy = (fdt or dx), (fdt or dy)
            ex_dt, ot_dt = (tdx, tdy) if side == "first" else (tdy, tdx)
            ex_role, ot_role = ("x", "y") if side == "first" else ("y", "x")
            xe = h.inp(ex_dt, decl_x if decl_x is not None else list(xs), rt=list(xs), gen=gen_for(ex_dt, tuple(xs), h.rs, ex_role), name="E")
            yo = h.inp(ot_dt, decl_y if decl_y is not None else list(ys), rt=list(ys), gen=gen_for(ot_dt, tuple(ys), h.rs, ot_role), name="O")
            if shape_src == "const":
                sh = h.operand(np.array(es, np.int64), kind, alts=[np.array(a, np.int64) for a in (alts or [])])
            elif shape_src == "shape_of_other":
                sh = h.node("Shape", [yo])
            elif shape_src == "graph_input":
                sh = h.inp("int64", [len(es)], gen=lambda k: np.array(es, np.int64), name="S")
            ex = h.node("Expand", [xe, sh])
            a = dict(attrs)
            a.update(at or {})
            y = h.node(op, [ex, yo] if side == "first" else [yo, ex], **a)
            h.out(y)
            if tap:
                h.tap(ex, tap)
        return fn

    out = []
    for side in ("first", "second"):
        sfx = "_" + side
        uni_bad = (op == "PRelu" and side == "first")  # slope must broadcast *to* x
        out += [
            S("noop_expand" + sfx, "expand is a no-op", mk([3, 4], [3, 4], [3, 4], side)),
            S("other_supplies" + sfx, "other operand supplies the dims", mk([1, 4], [3, 4], [3, 4], side)),
            S("other_supplies_rank" + sfx, "other operand supplies the rank", mk([4], [2, 3, 4], [2, 3, 4], side, opset=21 if op not in ("BitwiseAnd", "BitwiseOr", "BitwiseXor") else 18)),
            S("scalar_expanded" + sfx, "other operand supplies the rank", mk([], [3], [3], side)),
            S("leading_ones" + sfx, "expand adds leading 1-dims beyond both operands", mk([4], [1, 1, 4], [4], side)),
            S("leading_ones_scalar_other" + sfx, "expand adds leading 1-dims beyond both operands", mk([3, 4], [1, 3, 4], [], side)),
            S("needed" + sfx, "expand is needed", mk([1, 4], [3, 4], [4], side)),
            S("needed_rank" + sfx, "expand is needed", mk([4], [2, 4], [1], side)),
            S("sym_shape_of_other" + sfx, "dynamic shape;symbolic", mk([1, 4], [3, 4], [3, 4], side, decl_y=["N", 4], shape_src="shape_of_other")),
            S("dyn_shape_graph_input" + sfx, "dynamic shape graph input", mk([1, 4], [3, 4], [3, 4], side, shape_src="graph_input")),
            S("sym_const_shape" + sfx, "const shape;symbolic operands", mk([3, 4], [3, 4], [3, 4], side, decl_x=["N", 4], decl_y=["N", 4])),
            S("init_input_shape" + sfx, "overridable-initializer", mk([1, 4], [3, 4], [3, 4], side, kind="init_input", alts=[[1, 3, 4] if False else [3, 4]])),
            S("expand_has_consumer" + sfx, "intermediate-has-consumer", mk([1, 4], [3, 4], [3, 4], side, tap="consumer")),
        ]
    if op == "PRelu":
        # PRelu broadcasts the slope *to* x only: once the Expand of x is gone, a larger slope is no longer legal
        for st in out:
            if st["sid"].endswith("_first") and st["sid"].split("_first")[0] in (
                    "other_supplies", "other_supplies_rank", "sym_shape_of_other", "dyn_shape_graph_input", "init_input_shape",
                    "expand_has_consumer", "scalar_expanded"):
                st["cond"] = "PRelu slope larger than x"
    if op == "BitShift":
        # `direction` is a required attribute: every firing loses it
        for st in out:
            st["cond"] = "attribute dropped"
    if op == "Mod":
        out.append(S("fmod_attr_first", "attribute dropped", mk([1, 4], [3, 4], [3, 4], "first", at={"fmod": 1})))
        out.append(S("fmod_float_second", "attribute dropped", mk([1, 4], [3, 4], [3, 4], "second", at={"fmod": 1}, fdt="float32")))
    if op == "BitShift":
        out.append(S("direction_left_first", "attribute dropped", mk([1, 4], [3, 4], [3, 4], "first", at={"direction": "LEFT"})))
    return out
