"""C20 helper: model specs -> ir.Model, snapshots, structural comparison.

A model spec is JSON: {"tensors": [T...], "verbose": bool, "path_style": str, "preexisting": bool}
with T = {"name", "dtype", "shape", "kind", "where"}:
  kind  mem     ir.Tensor over a numpy array
        ext     ir.ExternalTensor pointing at ANOTHER file (src/<file>, never the destination)
        lazy    ir.LazyTensor producing an ir.Tensor
        proto   tensor deserialised from a TensorProto with typed data fields (float_data/int32_data/...)
        packed  ir.PackedTensor (4-bit types)
        string  ir.StringTensor
        torch   torch exporter's TorchTensor
        uninit  initializer registered with const_value None
  where main | then | else | loop  (graph that owns the initializer)
"""
from __future__ import annotations

import hashlib
import os

import numpy as np

DT_NP = {
    "FLOAT": "float32", "DOUBLE": "float64", "FLOAT16": "float16", "INT8": "int8", "UINT8": "uint8", "INT16": "int16",
    "UINT16": "uint16", "INT32": "int32", "UINT32": "uint32", "INT64": "int64", "UINT64": "uint64", "BOOL": "bool",
    "COMPLEX64": "complex64", "COMPLEX128": "complex128",
}
ML_DT = {"BFLOAT16": "bfloat16", "FLOAT8E4M3FN": "float8_e4m3fn", "FLOAT8E5M2": "float8_e5m2"}
PACKED = ("INT4", "UINT4")


def _np_array(t, salt):
    """Deterministic payload for tensor spec t."""
    import ml_dtypes

    shape = tuple(t["shape"])
    n = int(np.prod(shape)) if shape else 1
    # payload_of: the tensor carries the payload of another tensor (tied weights: equal dtype, shape and bytes)
    seed = int(hashlib.sha256((t.get("payload_of", t["name"]) + "|" + str(salt)).encode()).hexdigest()[:8], 16)
    r = np.random.default_rng(seed)
    dt = t["dtype"]
    if dt in DT_NP:
        npdt = np.dtype(DT_NP[dt])
        if npdt.kind == "b":
            a = r.integers(0, 2, n).astype(bool)
        elif npdt.kind in "iu":
            info = np.iinfo(npdt)
            a = r.integers(max(info.min, -1000), min(info.max, 1000), n, endpoint=True).astype(npdt)
            if n >= 2:
                a[0], a[-1] = info.min, info.max
        elif npdt.kind == "c":
            a = (r.standard_normal(n) + 1j * r.standard_normal(n)).astype(npdt)
        else:
            a = (r.standard_normal(n) * 3).astype(npdt)
            if n >= 4:
                a[0], a[1], a[2] = np.nan, np.inf, -0.0
        return a.reshape(shape)
    if dt in ML_DT:
        mdt = np.dtype(getattr(ml_dtypes, ML_DT[dt]))
        return (r.standard_normal(n)).astype(np.float32).astype(mdt).reshape(shape)
    raise ValueError(dt)


def _ir_dtype(name):
    import onnx_ir as ir

    return getattr(ir.DataType, name)


def make_tensor(t, src_dir, salt, ext_state):
    """-> (const_value | None, ir dtype, expected bytes | None)"""
    import onnx_ir as ir

    kind = t["kind"]
    dt = _ir_dtype(t["dtype"])
    shape = list(t["shape"])
    name = t["name"]
    if kind == "uninit":
        return None, dt
    if kind == "string":
        n = int(np.prod(shape)) if shape else 1
        vals = [(f"s{i}-" + "x" * (i % 7)).encode() for i in range(n)]
        return ir.StringTensor(np.array(vals, dtype=object).reshape(shape), name=name), dt
    if kind == "packed":
        n = int(np.prod(shape)) if shape else 1
        r = np.random.default_rng(len(name) + n)
        packed = r.integers(0, 256, (n + 1) // 2, dtype=np.uint8)
        return ir.PackedTensor(packed, dt, shape=ir.Shape(shape), name=name), dt
    arr = _np_array(t, salt)
    if kind == "mem":
        return ir.Tensor(arr, dtype=dt, name=name), dt
    if kind == "lazy":
        return ir.LazyTensor(lambda a=arr, d=dt, nm=name: ir.Tensor(a, dtype=d, name=nm), dtype=dt, shape=ir.Shape(shape),
                             name=name), dt
    if kind == "proto":
        import onnx

        flat = arr.ravel()
        if arr.dtype == np.float32:
            tp = onnx.helper.make_tensor(name, onnx.TensorProto.FLOAT, shape, [float(x) for x in np.nan_to_num(flat)])
        elif arr.dtype == np.int64:
            tp = onnx.helper.make_tensor(name, onnx.TensorProto.INT64, shape, [int(x) for x in flat])
        elif arr.dtype == np.int32:
            tp = onnx.helper.make_tensor(name, onnx.TensorProto.INT32, shape, [int(x) for x in flat])
        elif arr.dtype == np.float64:
            tp = onnx.helper.make_tensor(name, onnx.TensorProto.DOUBLE, shape, [float(x) for x in np.nan_to_num(flat)])
        else:
            tp = onnx.numpy_helper.from_array(arr, name)
        return ir.serde.deserialize_tensor(tp), dt
    if kind == "torch":
        import torch
        from torch.onnx._internal.exporter import _core as tcore

        a = np.ascontiguousarray(arr).copy()
        if t["dtype"] == "BFLOAT16":
            tt = torch.from_numpy(a.view(np.uint16)).view(torch.bfloat16)
        else:
            tt = torch.from_numpy(a)
        return tcore.TorchTensor(tt, name=name), dt
    if kind == "ext":
        fname = t.get("file", "ext0.bin")
        path = os.path.join(src_dir, fname)
        os.makedirs(src_dir, exist_ok=True)
        off = ext_state.get(fname, 0)
        pad = t.get("pad", 16)
        raw = arr.tobytes()
        with open(path, "ab") as f:
            f.write(b"\xee" * pad)
            f.write(raw)
        ext_state[fname] = off + pad + len(raw)
        return ir.ExternalTensor(fname, off + pad, len(raw), dt, shape=ir.Shape(shape), name=name, base_dir=src_dir), dt
    raise ValueError(kind)


def build(spec, src_dir, salt=0):
    """Build the ir.Model described by spec.  External source files are written below src_dir."""
    import onnx_ir as ir

    ext_state: dict = {}
    by_where: dict[str, list] = {"main": [], "then": [], "else": [], "loop": []}
    for t in spec["tensors"]:
        cv, dt = make_tensor(t, src_dir, salt, ext_state)
        v = ir.Value(name=t["name"], shape=ir.Shape(list(t["shape"])), type=ir.TensorType(dt), const_value=cv)
        by_where[t.get("where", "main")].append(v)

    def ident(v, oname):
        n = ir.node("Identity", [v], outputs=[ir.Value(name=oname, shape=v.shape, type=v.type)])
        return n, n.outputs[0]

    x = ir.Value(name="x", shape=ir.Shape([3]), type=ir.TensorType(ir.DataType.FLOAT))
    nodes, outputs = [], []
    n0 = ir.node("Add", [x, x], outputs=[ir.Value(name="y", shape=ir.Shape([3]), type=ir.TensorType(ir.DataType.FLOAT))])
    nodes.append(n0)
    outputs.append(n0.outputs[0])
    use_of = {t["name"]: t.get("use", "node") for t in spec["tensors"]}
    for v in by_where["main"]:
        if v.const_value is None and not any(t["name"] == v.name and t["kind"] == "uninit" for t in spec["tensors"]):
            continue
        use = use_of.get(v.name, "node")
        if use == "dead":       # registered as an initializer, consumed by no node
            continue
        if use == "output":     # the initializer itself is a graph output, consumed by no node
            outputs.append(v)
            continue
        n, o = ident(v, "o_" + v.name)
        nodes.append(n)
        outputs.append(o)

    def subgraph(gname, values, extra_inputs=(), extra_outputs=()):
        gn, go = [], list(extra_outputs)
        for v in values:
            n, o = ident(v, f"{gname}_o_{v.name}")
            gn.append(n)
            go.append(o)
        return ir.Graph(list(extra_inputs), go, nodes=gn, initializers=values, name=gname), gn

    if by_where["then"] or by_where["else"]:
        # both branches must yield the same number of outputs: pair them up (pad with a shared scalar constant)
        th, el = by_where["then"], by_where["else"]
        k = max(len(th), len(el))

        def padded(vals, other, tag):
            vals = list(vals)
            while len(vals) < k:
                nm = f"pad_{tag}_{len(vals)}"
                o = other[len(vals)]
                shp = [1] * len(o.shape)
                dt = o.type.dtype
                arr = np.zeros(shp, dtype=dt.numpy())
                vals.append(ir.Value(name=nm, shape=ir.Shape(shp), type=ir.TensorType(dt),
                                     const_value=ir.Tensor(arr, dtype=dt, name=nm)))
            return vals

        gt, _ = subgraph("then_g", padded(th, el, "t"))
        ge, _ = subgraph("else_g", padded(el, th, "e"))
        cond = ir.Value(name="cond", shape=ir.Shape([]), type=ir.TensorType(ir.DataType.BOOL))
        ifn = ir.node("If", [cond], attributes={"then_branch": gt, "else_branch": ge}, num_outputs=k)
        for i, (o, src) in enumerate(zip(ifn.outputs, gt.outputs)):
            o.name = f"if_out_{i}"
            o.type = src.type
            o.shape = ir.Shape([f"if{i}_d{j}" for j in range(len(src.shape))])
        nodes.append(ifn)
        outputs.extend(ifn.outputs)
        extra_in = [cond]
    else:
        extra_in = []
    if by_where["loop"]:
        it = ir.Value(name="lp_iter", shape=ir.Shape([]), type=ir.TensorType(ir.DataType.INT64))
        cin = ir.Value(name="lp_cond_in", shape=ir.Shape([]), type=ir.TensorType(ir.DataType.BOOL))
        cn, cout = ident(cin, "lp_cond_out")
        gl, gln = subgraph("loop_g", by_where["loop"], extra_inputs=[it, cin], extra_outputs=[cout])
        gl.insert_before(gl[0], cn) if len(gl) else gl.append(cn)
        trip_nm = "lp_trip"
        trip = ir.Value(name=trip_nm, shape=ir.Shape([]), type=ir.TensorType(ir.DataType.INT64),
                        const_value=ir.Tensor(np.array(2, np.int64), name=trip_nm))
        by_where["main"].append(trip)
        lcond = ir.Value(name="lp_c", shape=ir.Shape([]), type=ir.TensorType(ir.DataType.BOOL),
                         const_value=ir.Tensor(np.array(True), name="lp_c"))
        by_where["main"].append(lcond)
        ln = ir.node("Loop", [trip, lcond], attributes={"body": gl}, num_outputs=len(by_where["loop"]))
        for i, (o, src) in enumerate(zip(ln.outputs, gl.outputs[1:])):
            o.name = f"loop_out_{i}"
            o.type = src.type
            o.shape = ir.Shape([2] + list(src.shape))
        nodes.append(ln)
        outputs.extend(ln.outputs)
    graph = ir.Graph([x] + extra_in, outputs, nodes=nodes, initializers=by_where["main"], opset_imports={"": 20},
                     name="c20_main", doc_string="C20 model")
    model = ir.Model(graph, ir_version=10, producer_name="vf-c20", producer_version="1", domain="vf",
                     model_version=3, doc_string="doc")
    model.metadata_props["k"] = "v"
    return model


# ----------------------------------------------------------------------------- independent traversal
def all_graphs(model):
    """Main graph and every nested subgraph (own walk; not Model.graphs())."""
    import onnx_ir as ir

    out, stack, seen = [], [model.graph], set()
    while stack:
        g = stack.pop(0)
        if id(g) in seen:
            continue
        seen.add(id(g))
        out.append(g)
        for n in g:
            for a in n.attributes.values():
                if a.is_ref():
                    continue
                if a.type == ir.AttributeType.GRAPH and a.value is not None:
                    stack.append(a.value)
                elif a.type == ir.AttributeType.GRAPHS and a.value is not None:
                    stack.extend(a.value)
    return out


def _file_region(t):
    with open(t.path, "rb") as f:
        f.seek(t.offset or 0)
        return f.read(t.length if t.length is not None else t.nbytes)


def _sha(b):
    return hashlib.sha256(b).hexdigest()


def tensor_bytes(t):
    import onnx_ir as ir

    if isinstance(t, ir.StringTensor):
        return b"\x00".join(t.string_data())
    if isinstance(t, ir.ExternalTensor) and t.size == 0:
        return b""  # onnx_ir's ExternalTensor.tobytes() asserts on zero-size tensors (nothing is mapped)
    return t.tobytes()


def snapshot(model, intrusive=True):
    """Identity + content snapshot of every initializer, and a structural digest of the model.

    intrusive=False (the *before* snapshot) reads an ExternalTensor's bytes straight from its file
    region, so that taking the snapshot does not itself load/alter the tensor object.
    """
    import onnx_ir as ir

    inits = {}
    for gi, g in enumerate(all_graphs(model)):
        for pos, (key, v) in enumerate(g.initializers.items()):
            cv = v.const_value
            rec = {"pos": pos, "key": key, "value_id": id(v), "value_name": v.name, "cv_id": id(cv), "cv_type": type(cv).__name__}
            if cv is not None:
                rec["dtype"] = str(cv.dtype)
                rec["shape"] = list(cv.shape)
                rec["name"] = cv.name
                if isinstance(cv, ir.ExternalTensor):
                    rec["ext"] = [cv.location, str(cv.base_dir), cv.offset, cv.length, bool(cv.valid())]
                    b = _file_region(cv) if not intrusive else tensor_bytes(cv)
                else:
                    b = tensor_bytes(cv)
                rec["nbytes"] = len(b)
                rec["sha"] = _sha(b)
            inits[f"g{gi}:{g.name}:{key}"] = rec
    return {"inits": inits, "struct": struct_digest(model)}


def struct_digest(model):
    """Digest of everything but initializer payloads (own walk over the IR objects)."""
    import onnx_ir as ir

    h = hashlib.sha256()

    def put(*xs):
        for x in xs:
            h.update(repr(x).encode())
            h.update(b"\x1f")

    def val(v):
        if v is None:
            return None
        return (v.name, str(v.type), str(v.shape), v.doc_string, sorted((v.metadata_props or {}).items()))

    def attr(a):
        if a.is_ref():
            return ("ref", a.name, str(a.type), a.ref_attr_name)
        if a.type == ir.AttributeType.GRAPH:
            return ("graph", a.name, graph(a.value))
        if a.type == ir.AttributeType.GRAPHS:
            return ("graphs", a.name, [graph(g) for g in a.value])
        if a.type == ir.AttributeType.TENSOR:
            return ("tensor", a.name, str(a.value.dtype), list(a.value.shape), _sha(tensor_bytes(a.value)))
        if a.type == ir.AttributeType.TENSORS:
            return ("tensors", a.name, [(_sha(tensor_bytes(t))) for t in a.value])
        return (str(a.type), a.name, repr(a.value))

    def graph(g):
        return (
            g.name, g.doc_string, sorted((g.metadata_props or {}).items()), sorted(g.opset_imports.items()),
            [val(v) for v in g.inputs], [val(v) for v in g.outputs],
            [(k, val(v), id(v)) for k, v in g.initializers.items()],
            [(n.name, n.domain, n.op_type, n.overload, n.version, n.doc_string, sorted((n.metadata_props or {}).items()),
              [val(i) for i in n.inputs], [val(o) for o in n.outputs], [attr(a) for a in n.attributes.values()], id(n))
             for n in g],
        )

    put(model.ir_version, model.producer_name, model.producer_version, model.domain, model.model_version, model.doc_string,
        sorted((model.metadata_props or {}).items()), sorted(model.opset_imports.items()))
    put(graph(model.graph))
    for key, f in model.functions.items():
        put(key, f.name, f.domain, f.overload, [val(v) for v in f.inputs], [val(v) for v in f.outputs],
            [(n.op_type, n.domain, [val(i) for i in n.inputs], [attr(a) for a in n.attributes.values()]) for n in f])
    return h.hexdigest()


def diff_snapshots(before, after):
    """-> list of (kind, description).  kind in identity|bytes|meta|struct|set."""
    out = []
    b, a = before["inits"], after["inits"]
    if list(b) != list(a):
        out.append(("set", f"initializer set/order changed: {sorted(set(b) ^ set(a))[:6]}"))
    for k in b:
        if k not in a:
            continue
        x, y = b[k], a[k]
        if x["value_id"] != y["value_id"]:
            out.append(("identity", f"{k}: the initializer Value object was replaced"))
        if x["cv_id"] != y["cv_id"] or x["cv_type"] != y["cv_type"]:
            out.append(("identity", f"{k}: const_value is now a different object ({x['cv_type']} -> {y['cv_type']})"))
        if x.get("sha") != y.get("sha") or x.get("nbytes") != y.get("nbytes"):
            out.append(("bytes", f"{k}: tensor bytes changed ({x.get('nbytes')} -> {y.get('nbytes')} bytes)"))
        for f in ("dtype", "shape", "name", "ext", "value_name", "pos"):
            if x.get(f) != y.get(f):
                out.append(("meta", f"{k}: {f} {x.get(f)!r} -> {y.get(f)!r}"))
    if before["struct"] != after["struct"]:
        out.append(("struct", "structural digest of the model changed"))
    return out


# ----------------------------------------------------------------------------- round trip comparison
def _strip_payload(tp):
    for f in ("raw_data", "float_data", "int32_data", "int64_data", "double_data", "uint64_data", "string_data", "external_data"):
        tp.ClearField(f)
    tp.ClearField("data_location")


def _walk_graph_protos(g, path="graph"):
    import onnx

    yield path, g
    for i, n in enumerate(g.node):
        for a in n.attribute:
            if a.type == onnx.AttributeProto.GRAPH:
                yield from _walk_graph_protos(a.g, f"{path}/{i}.{a.name}")
            elif a.type == onnx.AttributeProto.GRAPHS:
                for k, sg in enumerate(a.graphs):
                    yield from _walk_graph_protos(sg, f"{path}/{i}.{a.name}[{k}]")


def compare_loaded(model, loaded):
    """Original in-memory model vs ir.load(path): structure (payloads stripped) and per-initializer bytes."""
    import onnx_ir as ir

    out = []
    ga, gb = all_graphs(model), all_graphs(loaded)
    if len(ga) != len(gb):
        return [("struct", f"{len(ga)} graphs before, {len(gb)} after loading")]
    for x, y in zip(ga, gb):
        if list(x.initializers) != list(y.initializers):
            out.append(("struct", f"graph {x.name}: initializer names {list(x.initializers)[:8]} vs {list(y.initializers)[:8]}"))
            continue
        for k in x.initializers:
            tx, ty = x.initializers[k].const_value, y.initializers[k].const_value
            if tx is None or ty is None:
                if not (tx is None and ty is None):
                    out.append(("bytes", f"{x.name}:{k}: initialized-ness differs"))
                continue
            if tx.dtype != ty.dtype or list(tx.shape) != list(ty.shape):
                out.append(("meta", f"{x.name}:{k}: {tx.dtype}{list(tx.shape)} saved, {ty.dtype}{list(ty.shape)} loaded"))
                continue
            bx, by = tensor_bytes(tx), tensor_bytes(ty)
            if bx != by:
                out.append(("bytes", f"{x.name}:{k} ({tx.dtype}{list(tx.shape)}, {type(tx).__name__}): {len(bx)} bytes saved, "
                                     f"{len(by)} bytes loaded, equal={bx == by}"))
    pa = ir.serde.serialize_model(model)
    pb = ir.serde.serialize_model(loaded)
    for p in (pa, pb):
        for _, g in _walk_graph_protos(p.graph):
            for t in g.initializer:
                _strip_payload(t)
    sa = pa.SerializeToString(deterministic=True)
    sb = pb.SerializeToString(deterministic=True)
    if sa != sb:
        # locate the first differing top-level piece for the message
        where = "model fields"
        if pa.graph.SerializeToString(deterministic=True) != pb.graph.SerializeToString(deterministic=True):
            where = "graph"
            for (pth, g1), (_, g2) in zip(_walk_graph_protos(pa.graph), _walk_graph_protos(pb.graph)):
                for fld in ("input", "output", "value_info", "initializer"):
                    l1 = [m.SerializeToString(deterministic=True) for m in getattr(g1, fld)]
                    l2 = [m.SerializeToString(deterministic=True) for m in getattr(g2, fld)]
                    if l1 != l2:
                        where = f"{pth}.{fld}"
                        break
        out.append(("struct", f"loaded model differs structurally from the saved one in {where}"))
    return out
