"""C04 — optimize() is total on valid models; result valid with the same interface."""
from __future__ import annotations

from . import c03core

PID = "C04"
LEVEL = "exploration"
RULE = ("same executions as C03 (generated DAGs + lifted onnx corpus models x option tuples); observations: exception "
        "class + innermost onnxscript frame, onnx.checker + independent scope/topology walker on the result, dangling "
        "function references, graph input/output names/order/declared types before vs after, and for models with "
        "initializer-inputs ORT equivalence under 2 override values. non-trivial = >=1 mechanism fired; distinct = "
        "distinct set of fired mechanisms")
ASSUMPTIONS = [
    "totality is demanded only for models that pass onnx.checker and execute on ORT for every chosen input",
    "a declared output shape may be refined by the optimizer (unknown -> known) but not contradicted or dropped",
]
ANCHORS = [
    "onnxscript.optimizer._constant_folding:FoldConstantsPass.process_node",
    "onnxscript.optimizer._constant_folding:FoldConstantsPass.replace_node",
    "onnxscript.optimizer._constant_folding:_sym_value_can_replace_graph_output",
    "onnxscript.optimizer._constant_folding:_clear_unused_initializers",
    "onnxscript.rewriter._rewrite_rule:_update_opset_imports",
]
TIMEOUT = 300.0


def thresholds(tier):
    return {"optimized": 100, "override_runs": 10, "distinct_mechanisms": 25,
            "anchor:onnxscript.optimizer._constant_folding:FoldConstantsPass.process_node": 500}


def cases(tier, seed):
    if tier == "thorough":
        return c03core.gen_specs(PID, tier, seed, 6000, 1900, 4)
    return c03core.gen_specs(PID, tier, seed, 1500, 600, 3)


def run_case(spec):
    r = c03core.opt_case(spec, PID)
    return {"status": r["status"], "viol": r["c04"], "events": r["events"], "sig": r["sig"], "nontrivial": r["nontrivial"],
            "sample": r["sample"], "data": {"fired": r["fired"]}}


def finalize(ctx):
    c03core.merge_fired(ctx)
