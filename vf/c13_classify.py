"""C13: turn the 16 pipeline results of one model into violations with mechanism keys.

key = stage=<s>;kind=<k>;exc=<E>;where=<file.function>;cond=<mechanism predicate>;opt=<options it depends on>

* `opt` is computed relative to the option combinations that *reached* the failing stage (an earlier failure under
  rename=True must not make a later defect look as if it depended on rename=False).
* `cond` is the first matching *mechanism predicate* (written from triaged defects; each one checks the model, the
  options and the generated text, not just the message); for name/constant stress strata an ablation (same structure
  rebuilt without the stress pass) attributes the failure to the stress class; otherwise cond=unexplained:<stratum>.
"""
from __future__ import annotations

import ast
import itertools
import re

import onnx

from . import c13_gen as G
from . import c13_pipe as P
from . import common, runner


# ------------------------------------------------------------------ option predicate
def opt_predicate(fail_idx, reach_idx):
    fail_idx, reach_idx = set(fail_idx), set(reach_idx)
    if fail_idx == reach_idx:
        return "any"
    best = None
    for lits in itertools.product([None, True, False], repeat=4):
        sel = {i for i in reach_idx if all(v is None or P.ALL_OPTIONS[i][n] == v for n, v in zip(P.OPTION_NAMES, lits))}
        if sel == fail_idx:
            n = sum(v is not None for v in lits)
            if best is None or n < best[0]:
                best = (n, lits)
    if best is None:
        return "mixed"
    return "&".join(("" if v else "!") + n for n, v in zip(P.OPTION_NAMES, best[1]) if v is not None)


# ------------------------------------------------------------------ model features
def loops(proto):
    """-> list of dicts(form, depth, top) for every Loop node; form as the exporter decides it."""
    from onnxscript.backend import onnx_export as ox

    out = []

    def walk(nodes, depth):
        for n in nodes:
            if n.op_type == "Loop":
                body = n.attribute[0].g
                has_m = ox.has_input(n, 0)
                use_iter = has_m or ox._is_used_in_graph_body(body.input[0].name, body)
                cond_used = True if ox.has_input(n, 1) else ox._cond_is_used_in_loop_body(body)
                form = "for" if (use_iter and not cond_used) else ("while" if (not use_iter and cond_used) else
                                                                  ("for_break" if use_iter else "none"))
                out.append({"form": form, "depth": depth, "has_m": has_m, "cond_given": ox.has_input(n, 1)})
                walk(body.node, depth + 1)
            for at in n.attribute:
                if at.type == onnx.AttributeProto.GRAPH and n.op_type != "Loop":
                    walk(at.g.node, depth + 1)

    walk(proto.graph.node if isinstance(proto, onnx.ModelProto) else proto.node, 0)
    return out


def _text_facts(text):
    """params, assigned names, loaded names of the (first) script function in the generated text"""
    try:
        tree = ast.parse(text)
    except SyntaxError:
        return None
    fns = [n for n in ast.walk(tree) if isinstance(n, ast.FunctionDef) and any(
        (isinstance(d, ast.Call) and getattr(d.func, "id", "") == "script") or getattr(d, "id", "") == "script" for d in n.decorator_list)]
    if not fns:
        return None
    fn = fns[-1]
    params = [a.arg for a in fn.args.args]
    assigned, loaded = set(), set()
    for n in ast.walk(fn):
        if isinstance(n, ast.Name):
            (assigned if isinstance(n.ctx, ast.Store) else loaded).add(n.id)
    return {"params": params, "assigned": assigned, "loaded": loaded}


def _unbound(raw):
    m = re.search(r"Unbound name: ([^\s.]+(?:\.[^\s.]+)*)\.", raw or "")
    return m.group(1) if m else None


# ------------------------------------------------------------------ mechanism predicates
def _small_inlinable_initializers(proto):
    """initializers the exporter would inline under inline_const (FLOAT/INT64, rank 0 or rank 1 with < 5 elements),
    in the main graph or any If/Loop body (models and functions)"""
    out = []
    for g in _graphs(proto):
        for t in g.initializer:
            if t.data_type in (onnx.TensorProto.FLOAT, onnx.TensorProto.INT64) and (
                    len(t.dims) == 0 or (len(t.dims) == 1 and t.dims[0] < 5)):
                out.append(t.name)
    return out


def _graphs(proto):
    def rec(g):
        yield g
        for n in g.node:
            for at in n.attribute:
                if at.type == onnx.AttributeProto.GRAPH:
                    yield from rec(at.g)

    if isinstance(proto, onnx.ModelProto):
        yield from rec(proto.graph)
        for f in proto.functions:
            for n in f.node:
                for at in n.attribute:
                    if at.type == onnx.AttributeProto.GRAPH:
                        yield from rec(at.g)
    else:
        class _G:  # function body viewed as a graph
            node = proto.node
            initializer = ()
        yield _G
        for n in proto.node:
            for at in n.attribute:
                if at.type == onnx.AttributeProto.GRAPH:
                    yield from rec(at.g)


def _any_initializer(proto):
    return any(len(g.initializer) for g in _graphs(proto))


def _plain_reference(raw, name):
    """the failing source line uses the name in a position where the exporter never substitutes constants:
    `lhs = name`, `range(name)`, `return ..., name`"""
    lines = [ln.strip() for ln in raw.split("\n")[2:3]]
    if not lines:
        return False
    ln = lines[0].split("#")[0].strip()
    n = re.escape(name)
    return bool(re.fullmatch(rf"[\w, ]+ = {n}", ln) or re.search(rf"range\({n}\)", ln) or re.match(rf"return\b.*\b{n}\b", ln))


def _is_inlined_constant(proto, pyname, opts):
    """pyname is the Python name of a Constant node output (or small initializer) the exporter inlines"""
    from onnxscript.backend import onnx_export as ox

    if opts["rename"]:
        return bool(re.fullmatch(r"v\d+", pyname))  # names are opaque under rename; the caller checked it is never assigned
    for g in _graphs(proto):
        for n in g.node:
            if n.op_type == "Constant" and n.output and ox._cleanup_variable_name(n.output[0]) == pyname and \
                    ox._get_const_repr(n) is not None:
                return True
    return any(ox._cleanup_variable_name(n) == pyname for n in _small_inlinable_initializers(proto))


def mechanism(label, proto, opts, res):
    """-> (cond, canonical option predicate | None) for a triaged mechanism, else None.
    Every predicate looks at the model, the options and the generated text, not only at the message."""
    from onnxscript.backend import onnx_export as ox

    f = res["fail"]
    stage, exc, where, raw, text = f["stage"], f["exc"], f["where"] or "", f.get("raw") or "", res.get("text") or ""
    is_model = label == "model"
    if opts["skip_initializers"] and is_model and not P.skipped_initializers(proto):
        # the script is emitted one level indented although no make_model(...) wrapper follows
        if stage == "parse" and exc == "IndentationError":
            return "skip_initializers_without_large_initializer", "skip_initializers"
        if stage == "find" and f["kind"] == "function_missing" and len(proto.functions) and re.search(r"\n    @script\(\)\n", text):
            return "skip_initializers_without_large_initializer", "skip_initializers"
    if stage == "export" and where.endswith("generate_rand") and exc == "NotImplementedError" and opts["skip_initializers"]:
        if any(t.data_type not in (onnx.TensorProto.FLOAT, onnx.TensorProto.INT8) for t in P.skipped_initializers(proto)):
            return "skipped_initializer_dtype_not_float_or_int8", "skip_initializers"
    if stage == "load" and f["kind"] == "function_definition_lost":
        return "model_local_function_called_through_opset", "any"
    if stage == "export" and exc == "IndexError" and where.endswith("_translate_loop") and is_model:
        if any(lp["form"] == "for" for lp in loops(proto)):
            return "top_level_graph", "any"
    if stage in ("exec", "proto") and "Unbound name" in raw:   # (proto: make_model(...) decorates when it is called)
        name = _unbound(raw)
        facts = _text_facts(text)
        if facts and name:
            if opts["rename"] and is_model and facts["params"] and name not in facts["assigned"] and \
                    not (set(facts["params"]) & facts["loaded"]) and re.fullmatch(r"v\d+", name):
                return "graph_inputs_not_renamed_in_signature", "rename"
            if opts["inline_const"] and name not in facts["assigned"] and _is_inlined_constant(proto, name, opts) and \
                    _plain_reference(raw, name):
                # loop bound `range(c)`, loop-carried initial value `state = c`, branch result `out = c`, `return c`:
                # places where the exporter writes the variable name instead of substituting the constant
                return "inlined_constant_still_referenced_by_name", "inline_const"
            if opts["rename"] and _any_initializer(proto) and re.fullmatch(r"v\d+", name) and \
                    name not in facts["assigned"] and (not is_model or not facts["params"] or (set(facts["params"]) & facts["loaded"])):
                return "initializer_renamed_twice", "rename"
            if opts["inline_const"] and not opts["rename"] and name not in facts["assigned"] and any(
                    ox._cleanup_variable_name(n) == name and n != name for n in _small_inlinable_initializers(proto)):
                return "inlined_initializer_with_cleaned_up_name", "inline_const"
    if stage in ("exec", "proto") and exc == "RuntimeError" and where.endswith("default_opset") and opts["use_operators"]:
        # every node of some function was rendered with a Python operator: no opsetN.X call is left to infer the opset from
        return "use_operators_leaves_function_without_opset_reference", "use_operators"
    if stage == "exec" and exc == "TranslationError" and "Instruction break" in raw:
        if any(lp["form"] == "for_break" for lp in loops(proto)):
            return "for_break_emitted_as_if_not_cond", "any"
    if stage == "exec" and opts["inline_const"] and re.search(r"(?<![\w.])-?(nan|inf)(?![\w(])", text):
        if exc in ("ValueError", "TranslationError", "NameError"):
            return "inline_const_renders_nan_inf_as_bare_names", "inline_const"
    if stage == "exec" and opts["inline_const"] and "empty sequence" in raw and re.search(r"[(, ]\[\][,)]", text):
        return "inline_const_renders_empty_tensor_as_untyped_list", "inline_const"
    if stage == "exec" and "do not have any output variable" in raw and _has_dead_if(proto):
        return "if_whose_outputs_are_unused", "any"
    return None


def _has_dead_if(proto):
    def body(nodes, outputs):
        used = set(outputs)
        for n in nodes:
            used.update(n.input)
            for at in n.attribute:
                if at.type == onnx.AttributeProto.GRAPH:
                    used.update(_all_inputs(at.g))
        for n in nodes:
            if n.op_type == "If" and not any(o in used for o in n.output):
                return True
            for at in n.attribute:
                if at.type == onnx.AttributeProto.GRAPH and body(at.g.node, [o.name for o in at.g.output]):
                    return True
        return False

    if isinstance(proto, onnx.ModelProto):
        return body(proto.graph.node, [o.name for o in proto.graph.output])
    return body(proto.node, list(proto.output))


def _all_inputs(g):
    for n in g.node:
        yield from n.input
        for at in n.attribute:
            if at.type == onnx.AttributeProto.GRAPH:
                yield from _all_inputs(at.g)


# ------------------------------------------------------------------ ablation for stress strata
def _ablate(spec, label, opts, sig):
    """Rebuild the same structure without the stress pass; True if the failure signature disappears."""
    s = spec["stratum"]
    if spec["kind"] != "dag" or not (s.startswith("names_") or s.startswith("const_")):
        return None
    rnd = common.rng("C13", spec["kind"], s, *spec["seed"])
    try:
        m, meta = G.dag_model(s, rnd, plain_names=True, plain_consts=True)
        if runner.checker(m, full=True):
            return None
        feeds = P.gen_inputs(m, ["abl", s] + list(spec["seed"]))
        names = [v.name for v in m.graph.input]
        exp = []
        for fd in feeds:
            st, out = runner.ort_run(m, dict(zip(names, fd)))
            if st != "ok":
                return None
            exp.append(out)
        r = P.run_pipeline(m, opts, feeds, exp)
    except Exception:
        return None
    f = r["fail"]
    same = f is not None and (f["stage"], f["kind"], f["exc"], f["where"]) == sig
    return not same


def classify(spec, label, proto, meta, results, outside, hit):
    out = []
    groups = {}
    canon = {}
    for i, r in enumerate(results):
        f = r["fail"]
        if f is None:
            continue
        if f["kind"] == "not_implemented":
            hit("not_implemented_inconclusive")
            continue
        opts = P.ALL_OPTIONS[i]
        sig = (f["stage"], f["kind"], f["exc"], f["where"])
        if outside:
            if f["stage"] == "export" and f["kind"] == "raises":
                if (f.get("raw") or "").strip():
                    hit("outside_refused_with_message")
                    continue
                cond = "outside_class_error_without_message"
                sig = (f["stage"], "raises_without_message", f["exc"], f["where"])
            elif f["stage"] in ("exec", "find", "proto"):
                hit("outside_text_not_executable")
                continue
            else:
                mech = mechanism(label, proto, opts, r) if f["stage"] == "parse" else None
                cond = f"outside:{spec['stratum']}"
                if mech is not None:
                    cond, canon[(sig, mech[0])] = mech
        else:
            mech = mechanism(label, proto, opts, r)
            cond = None
            if mech is not None:
                cond, canon[(sig, mech[0])] = mech
        groups.setdefault((sig, cond), []).append(i)
    abl_cache = {}
    final = {}
    for (sig, cond), idxs in groups.items():
        if cond is None:
            i0 = idxs[0]
            ab = abl_cache.get(sig)
            if sig not in abl_cache:
                ab = abl_cache[sig] = _ablate(spec, label, P.ALL_OPTIONS[i0], sig)
            if ab:
                cond = f"stress:{spec['stratum']}"
            else:
                cond = f"unexplained:{spec['stratum']}" + ("" if label == "model" else ":function")
        final.setdefault((sig, cond), []).extend(idxs)
    for (sig, cond), idxs in sorted(final.items(), key=lambda kv: str(kv[0])):
        st = P.STAGES.index(sig[0])
        # reached = got past this stage, or failed here with this very signature (a different failure at the same or
        # an earlier stage masks the mechanism, it does not exonerate the option combination)
        reach = [i for i, r in enumerate(results) if r["stage"] is not None and (
            P.STAGES.index(r["stage"]) > st or r["ok"] or i in idxs or (r["fail"] is None and P.STAGES.index(r["stage"]) >= st))]
        opt = canon.get((sig, cond)) or opt_predicate(idxs, reach)
        key = f"stage={sig[0]};kind={sig[1]};exc={sig[2] or '-'};where={sig[3] or '-'};cond={cond};opt={opt}"
        r0 = results[idxs[0]]
        f0 = r0["fail"]
        what = (f"{spec['kind']}:{spec['stratum']} ({label}) under {P.ALL_OPTIONS[idxs[0]]}: {sig[0]} stage: "
                f"{f0['exc'] or f0['kind']}: {f0.get('raw', '')[:220]}")
        text = r0.get("text") or ""
        out.append((key, what, {"options_failing": [P.opt_tag(P.ALL_OPTIONS[i]) for i in idxs], "reached": len(reach),
                                "text_head": text[:1500], "program": (meta.get("program") or "")[:1500]}))
    # I/O names (non-blocking): with rename=False an identifier-named output/input changed its name
    nd = sorted({r["names_differ"].split(" ")[0] for r in results if r.get("names_differ")})
    if nd and not outside:
        ex = [r["names_differ"] for r in results if r.get("names_differ")][0]
        prod = _producer_kind(proto, ex)
        key = f"stage=signature;kind=io_name_changed;exc=-;where=-;cond={'+'.join(n.split('[')[0] for n in nd)}_of_{prod};opt=!rename"
        out.append((key, f"{spec['kind']}:{spec['stratum']} ({label}): graph {ex} after the round trip", {}))
    return out


def _producer_kind(proto, ex):
    m = re.search(r"(input|output)\[(\d+)\] '([^']*)'", ex)
    if not m or not isinstance(proto, onnx.ModelProto):
        return "value"
    if m.group(1) == "input":
        return "input"
    name = m.group(3)
    for n in proto.graph.node:
        if name in n.output:
            return n.op_type if n.op_type in ("Loop", "If", "Identity") else "node"
    return "value"
