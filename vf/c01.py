"""C01 — script functions mean the same eagerly, as a graph, as a function call, as plain Python."""
from __future__ import annotations

import importlib.util
import os
import sys

import numpy as np

from . import common, compare, refsem, runner, scriptgen

PID = "C01"
LEVEL = "exploration"
RULE = ("programs drawn from a typed grammar of the documented ONNX Script subset (vf/scriptgen.py: <=3 tensor params, <=2 "
        "attribute params with/without defaults, expressions with Python literals in operand positions, ~35 ops incl. multi-output "
        "Split/TopK, if/else on a one-element condition, for over range(literal|attribute|INT64 tensor) with optional trailing "
        "conditional break, while with reassigned condition, nesting <=2, variables defined in one or both branches, loop-carried and "
        "captured variables, calls to generated helper script functions, tuple returns, returned parameters / duplicates, inputs passed "
        "by keyword after an omitted optional input, shape-preserving Slice/Gather subscripts incl. empty slices (explicit stop 0, start >= stop, negative bounds) glued back with Concat, while bodies whose last statement "
        "conditionally updates a variable only the next iteration reads; 1 program in 16 is a comparison/Where/if program run on "
        "NaN, +-inf, +-0 and ties); each "
        "program is executed 4 ways per input: eager, ORT(to_model_proto) [attribute-free programs], ORT(model calling "
        "to_function_proto, attributes explicit and defaults omitted), numpy reading of the same source (vf/refsem.py). "
        "non-trivial = accepted program with control flow or a promoted literal; distinct = feature set of the program")
ASSUMPTIONS = [
    "the numpy reading (vf/refsem.py) implements the documented mapping of operators/ops and the documented literal-promotion rule "
    "(sibling sharing the ONNX type constraint, looked up in onnx.defs; else INT64/FLOAT/BOOL)",
    "an input on which the numpy reading raises (integer division by zero, out-of-range index, float->int of non-finite) is outside the "
    "program's domain and skipped",
    "a program refused at decoration is allowed; 3-vs-1 splits name the odd one out, 2-vs-2 splits are inconclusive",
]
ANCHORS = [
    "onnxscript._internal.converter:Converter._translate_if_stmt",
    "onnxscript._internal.converter:Converter._translate_loop_stmt",
    "onnxscript._internal.converter:Converter._translate_block",
    "onnxscript._internal.converter:Converter._emit_copy",
    "onnxscript._internal.converter:Converter._to_onnx_var",
    "onnxscript._internal.analysis:AstAnalyzer.do_liveness_analysis",
    "onnxscript._internal.analysis:AstAnalyzer.exposed_uses",
    "onnxscript._internal.autocast:static_cast_inputs",
    "onnxscript._internal.autocast:dynamic_cast_inputs",
    "onnxscript._internal.values:OnnxFunction._to_model_proto",
]
TIMEOUT = 600.0
BATCH = 6
PRIORITY = ["alias_assignment_in_branch", "mod", "int_div", "float_literal_next_to_int", "bool_literal_next_to_number", "while_loop", "for_with_break", "loop_bound_tensor",
            "loop_bound_attr", "loop_index_used", "for_loop", "if_var_in_one_branch", "nested_control_flow",
            "if_only", "if_else", "attr_as_operand", "subfunction_call", "tuple_assign_multi_output", "return_param_unchanged",
            "return_same_value_twice", "literal_in_op_call", "int_literal_next_to_float"]


def thresholds(tier):
    return {"accepted": 60, "compared_inputs": 150, "with_control_flow": 40,
            "anchor:onnxscript._internal.converter:Converter._translate_if_stmt": 20,
            "anchor:onnxscript._internal.converter:Converter._translate_loop_stmt": 20}


def cases(tier, seed):
    n = 6000 if tier == "thorough" else 480
    return [{"first": i, "n": BATCH, "seed": seed} for i in range(0, n, BATCH)]


_scratch = None


def load_program(src, tag):
    """Write the source to a scratch module and import it (inspect.getsource must work)."""
    global _scratch
    if _scratch is None:
        _scratch = common.scratch_dir("c01-")
    name = f"vfprog_{tag}"
    path = os.path.join(_scratch, name + ".py")
    with open(path, "w") as f:
        f.write(src)
    spec = importlib.util.spec_from_file_location(name, path)
    mod = importlib.util.module_from_spec(spec)
    sys.modules[name] = mod
    spec.loader.exec_module(mod)
    return mod


def call_model(fp, model_fns, params, attrs_explicit, n_out, opset_imports):
    """A one-node model that calls the FunctionProto."""
    import onnx
    from onnx import helper as oh

    ins = [oh.make_tensor_value_info(n, oh.np_dtype_to_tensor_dtype(np.asarray(v).dtype), None) for n, v in params]
    outs = [oh.make_empty_tensor_value_info(f"out{k}") for k in range(n_out)]
    node = oh.make_node(fp.name, [n for n, _ in params], [o.name for o in outs], domain=fp.domain, **attrs_explicit)
    g = oh.make_graph([node], "call", ins, outs)
    imports = {(o.domain): o.version for o in opset_imports}
    imports[fp.domain] = 1
    imports.setdefault("", 18)
    m = oh.make_model(g, opset_imports=[oh.make_opsetid(d, v) for d, v in imports.items()], ir_version=10,
                      functions=[fp] + [f for f in model_fns if (f.domain, f.name) != (fp.domain, fp.name)])
    return m


def one_program(seed, i):
    rng = common.rng(PID, "prog", seed, i)
    ev = {}

    def hit(k, n=1):
        ev[k] = ev.get(k, 0) + n

    special = i % 16 == 11      # stratum: comparison programs on NaN / inf / signed zeros (stable across seeds: 1 in 16)
    try:
        # strata stable across seeds: 1 program in 8 is built around a for loop, 1 in 8 around a while loop, each with the rare
        # structural forms (variable killed under an else-less if, late update of a carried-only variable, state rebound to an
        # outer value, ...) switched on
        focus = {3: "for", 6: "while"}.get(i % 8)
        p = scriptgen.generate_special(rng) if special else scriptgen.generate(rng, n_stmts=rng.choice([3, 5, 8]), focus=focus)
    except scriptgen.Bail:
        return {"status": "gen_bail", "events": {"gen_bail": 1}}
    if special:
        hit("special_value_programs")
    hit("generated")
    res = {"status": "ok", "viol": [], "events": ev, "features": sorted(p.features), "src": p.src}
    try:
        mod = load_program(p.src, f"{seed}_{i}")
        f = mod.main
    except SyntaxError as e:
        if "onnxscript" not in (e.filename or "") and e.filename and e.filename.endswith(".py") and "vfprog_" in e.filename and e.lineno and "script" not in str(e):
            pass
        hit("refused")
        res["status"] = "refused"
        res["refusal"] = f"{type(e).__name__}: {str(e)[:200]}"
        return res
    except Exception as e:
        hit("refused")
        res["status"] = "refused"
        res["refusal"] = f"{type(e).__name__}: {str(e)[:200]}"
        return res
    hit("accepted")
    cf = {"if_else", "if_only", "for_loop", "while_loop"} & p.features
    if cf:
        hit("with_control_flow")
    # protos
    try:
        fp = f.to_function_proto()
        if p.attrs:
            # "A function with required attributes cannot be exported as a model": the model form is only used for
            # attribute-free programs; callee protos come from the helper functions themselves
            mp_full = None
            callee_protos = [getattr(mod, h).to_function_proto() for h in p.helpers]
        else:
            mp_full = f.to_model_proto()
            callee_protos = list(mp_full.functions)
    except Exception as e:
        res["viol"].append({"key": "stage=to_proto;kind=raises", "what": f"accepted program: to_function_proto/to_model_proto raises {type(e).__name__}: {str(e)[:200]}",
                            "detail": {"src": p.src}})
        return res
    names = [q[0] for q in p.params]
    attr_all = {a[0]: a[3] for a in p.attrs}
    attr_omit_defaults = {a[0]: a[3] for a in p.attrs if a[2] is None}
    have_default_all = all(a[2] is not None for a in p.attrs)
    eager_budget = 2 if common.tier() == "thorough" else 1
    for k, style in enumerate(["mixed", "edge", "small"]):
        vals = []
        for (n, dtn, shape) in p.params:
            a = scriptgen.example(rng, dtn, shape, style)
            if dtn == "INT64" and shape == ():
                a = np.array(rng.choice([0, 1, 2, 3]), dtype=np.int64)
            vals.append(a)
        if special:
            vals = list(p.special_inputs[k])
        for variant, attrs in (("explicit", attr_all), ("defaults_omitted", attr_omit_defaults)):
            if variant == "defaults_omitted" and (not p.attrs or len(attr_omit_defaults) == len(attr_all)):
                continue
            # numpy reading with the attribute values the call denotes
            denote = dict(attr_all) if variant == "explicit" else {a[0]: (a[3] if a[2] is None else a[2]) for a in p.attrs}
            try:
                ref = scriptgen.run_reference(p.src, vals, denote)
            except Exception as e:
                hit("input_outside_domain")
                continue
            if not special and any(r.dtype.kind == "f" and not np.isfinite(r).all() for r in ref):
                hit("input_nonfinite_skipped")
                continue
            results = {"numpy": ("ok", ref)}
            res["_maxmag"] = refsem.MAXMAG[0]
            # eager (one ORT session per op call, ~0.1 s each: limited to `eager_budget` inputs per program)
            if eager_budget > 0:
                eager_budget -= 1
                hit("eager_runs")
                try:
                    out = f(*vals, **attrs)
                    out = out if isinstance(out, tuple) else (out,)
                    results["eager"] = ("ok", [runner.as_np(o) for o in out])
                except Exception as e:
                    results["eager"] = ("fail", f"{type(e).__name__}: {str(e)[:600]}")
            # function-call form
            try:
                cm = call_model(fp, callee_protos, list(zip(names, vals)), attrs, len(ref), fp.opset_import)
                st, o = runner.ort_run(cm, dict(zip(names, vals)))
                results["function"] = (st if st != "ok" else "ok", o)
            except Exception as e:
                results["function"] = ("fail", f"{type(e).__name__}: {str(e)[:600]}")
            # model form (attribute-free programs: a main graph has no attribute parameters)
            if not p.attrs:
                st, o = runner.ort_run(mp_full, dict(zip(names, vals)))
                results["model"] = (st if st != "ok" else "ok", o)
            hit("compared_inputs")
            res.setdefault("_ctx", {})[(variant, k)] = (vals, dict(attrs), dict(denote))
            if "eager" not in results and _any_differs(results):
                # arbitrate with an eager run before judging (a 1-vs-1 split names nobody)
                hit("eager_runs")
                hit("eager_arbitrations")
                try:
                    out = f(*vals, **attrs)
                    out = out if isinstance(out, tuple) else (out,)
                    results["eager"] = ("ok", [runner.as_np(o) for o in out])
                except Exception as e:
                    results["eager"] = ("fail", f"{type(e).__name__}: {str(e)[:600]}")
            _judge(results, p, res, hit, variant, k)
    # every execution form agrees with the others and only the numpy reading differs: with discontinuous float ops
    # (Floor, %, comparisons feeding if/Where) a last-bit rounding difference between numpy and ORT flips a branch on a
    # particular input.  A genuine difference in meaning shows on most inputs: demand it on >= 2 of the inputs tried.
    odd_np = [v for v in res["viol"] if v["key"].startswith("odd=numpy")]
    if odd_np and len({v["detail"].get("input") for v in odd_np}) < 2:
        res["viol"] = [v for v in res["viol"] if not v["key"].startswith("odd=numpy")]
        res["pending"] = [q for q in res.get("pending", []) if q[0] != "numpy"]
        hit("numpy_odd_on_single_input_dropped")
    _minimise(res, p, seed, i, hit)
    res.pop("_ctx", None)
    res.pop("pending", None)
    res.pop("_maxmag", None)
    return res


CF_FEATS = {"alias_in_block", "alias_of_param", "if", "else", "for", "while", "break", "nested", "helper_call", "mod", "bound_name", "tuple_assign",
            "return_dup", "return_param", "unminimised"}


def _minimise(res, p, seed, i, hit):
    """Shrink the witness of each distinct (odd form, kind) and key the violation by the minimal program's syntax."""
    done = {}
    for (w, kind, variant, k) in res.get("pending", []):
        if (w, kind) in done:
            continue
        vals, attrs, denote = res["_ctx"][(variant, k)]
        n = [0]

        def still(src, w=w, kind=kind, vals=vals, attrs=attrs, denote=denote):
            n[0] += 1
            return classify_source(src, p, vals, attrs, denote, w, kind, f"min_{seed}_{i}_{n[0]}")

        budget = 30 if w == "eager" else 140
        try:
            small = shrink(p.src, still, budget=budget)
            feats = syn_features(small)
        except Exception as e:
            small, feats = p.src, ["unminimised"]
        hit("witnesses_minimised")
        done[(w, kind)] = (small, feats)
    for v in res["viol"]:
        m = re.match(r"odd=([a-z]+);kind=([a-z]+)(?:;err=([A-Za-z_]+))?", v["key"])
        if not m:
            continue
        w, kind, err = m.group(1), m.group(2), m.group(3)
        kk = (w, kind if kind != "fails" else "fails:" + (err or ""))
        if kk in done:
            small, feats = done[kk]
            cf = [x for x in feats if x in CF_FEATS]
            v["key"] = (f"odd={w};kind=fails;err={err};min=" if err else f"odd={w};kind={kind};min=") + "+".join(cf)
            v["detail"]["minimal_source"] = small[small.index("def main("):] if "def main(" in small else small


import re


def cmp_outputs(ref, out):
    """dtype-aware comparison: float64 is held to 1e-6 (ORT kernels for double partly compute through float32 constants),
    float32 to 6.4e-3 (programs chain up to ~40 ops)."""
    if len(ref) != len(out):
        return f"output count {len(ref)} vs {len(out)}"
    for i, (a, b) in enumerate(zip(ref, out)):
        a = np.asarray(a)
        kw = {"rtol": 1e-6, "atol": 1e-9} if a.dtype == np.float64 else {}
        d = compare.compare_value(a, b, scale=64.0, **kw)
        if d:
            return f"out[{i}]: {d}"
    return None


_ERRS = [
    ("missing_opset_import", r"No opset registered for domain|No opset import for domain"),
    ("missing_input", r"Missing Input"),
    ("if_output_type_mismatch", r"op_type:If.*Mismatched type|Mismatched type"),
    ("null_input_type", r"expected to have type but instead is null"),
    ("fmod_required", r"fmod"),
    ("type_mismatch", r"Type Error|type mismatch|Type parameter .* bound to different types|Incompatible types"),
    ("shape_mismatch", r"ShapeInferenceError|Incompatible dimensions|broadcast"),
    ("not_a_graph_input", r"is not a graph input, initializer, or output of a previous node"),
    ("duplicate_name", r"Duplicate|duplicate|SSA"),
]


def errsig(msg):
    for name, pat in _ERRS:
        if re.search(pat, msg):
            return name
    m = re.sub(r"[0-9]+", "N", msg)
    m = re.sub(r"'[^']*'|\"[^\"]*\"", "Q", m)
    return re.sub(r"[^A-Za-z]+", "_", m)[:50]


def _any_differs(results):
    ref = results["numpy"][1]
    for w in ("function", "model"):
        if w in results:
            st, o = results[w]
            if st == "not_implemented":
                continue
            if st != "ok" or cmp_outputs(ref, o) is not None:
                return True
    return False


def _judge(results, p, res, hit, variant, k):
    ref = results["numpy"][1]
    agree, differ = ["numpy"], {}
    for w in ("eager", "function", "model"):
        if w not in results:
            continue
        st, o = results[w]
        if st == "not_implemented":
            hit("not_implemented")
            continue
        if st != "ok":
            differ[w] = ("fails", str(o)[:600])
            continue
        d = cmp_outputs(ref, o)
        if d is None:
            agree.append(w)
        else:
            kind = "value"
            for kw in ("dtype", "shape", "count"):
                if kw in d[:40]:
                    kind = kw
            differ[w] = (kind, d)
    if not differ:
        hit("all_agree")
        return
    feat = next((f for f in PRIORITY if f in p.features), "straight_line")
    others = [w for w in differ]
    if len(agree) + len(differ) < 3:
        hit("split_inconclusive")
        return
    if len(agree) >= 2 or len(differ) == 1:
        # numpy reading confirmed by at least one execution form (or a single odd one out)
        for w, (kind, d) in differ.items():
            res.setdefault("pending", []).append((w, kind if kind != "fails" else "fails:" + errsig(d), variant, k))
            res["viol"].append({"key": (f"odd={w};kind=fails;err={errsig(d)}" if kind == "fails" else f"odd={w};kind={kind};feat={feat}"),
                                "what": f"{w} form differs from the numpy reading (which {', '.join(agree)} agree on) [{variant} attrs, input {k}]: {d}",
                                "detail": {"src": p.src, "features": sorted(p.features), "agree": agree}})
        return
    # every execution form disagrees with the numpy reading
    forms = {w: results[w][1] for w in differ if differ[w][0] != "fails"}
    ws = list(forms)
    if len(ws) >= 2 and all(cmp_outputs(forms[ws[0]], forms[w]) is None for w in ws[1:]) and len(ws) == len(differ):
        # all forms agree with each other and differ from numpy: the numpy reading is the odd one out
        kind, d = differ[ws[0]]
        if kind == "value" and res.get("_maxmag", 0.0) > 1e4 and any(t in p.src for t in (" % ", "op.Floor(", "op.Mod(", "op.Round(", "op.Ceil(")):
            # every execution form agrees with the others; only the numpy reading differs, on a program that applies a
            # discontinuous operation after intermediate values beyond 1e4: a last-bit difference between numpy's float
            # arithmetic and the runtime's (relative 6e-8 -> absolute 6e-4 and more) moves a value across a Floor / % boundary.
            # Not evidence about the meaning of the program: inconclusive.
            hit("numpy_odd_discontinuous_large_magnitude_inconclusive")
            return
        res["viol"].append({"key": f"odd=numpy;kind={kind};feat={feat}",
                            "what": f"eager/graph agree with each other but not with the numpy reading [{variant} attrs, input {k}]: {d}",
                            "detail": {"src": p.src, "features": sorted(p.features), "input": k}})
        return
    hit("split_inconclusive")


# ------------------------------------------------------------------ witness minimisation (after a violation is established)
import ast


def syn_features(src):
    """Syntactic features of the `main` function of a (minimised) program."""
    tree = ast.parse(scriptgen.strip_imports(src))
    main = [n for n in tree.body if isinstance(n, ast.FunctionDef) and n.name == "main"][0]
    f = set()

    def walk(nodes, depth, in_cf):
        for n in nodes:
            if isinstance(n, ast.If):
                if any(isinstance(b, ast.Break) for b in n.body):
                    f.add("break")
                else:
                    f.add("if")
                    if n.orelse:
                        f.add("else")
                    if depth:
                        f.add("nested")
                    walk(n.body, depth + 1, True)
                    walk(n.orelse, depth + 1, True)
            elif isinstance(n, ast.For):
                f.add("for")
                if depth:
                    f.add("nested")
                it = n.iter.args[0] if isinstance(n.iter, ast.Call) and n.iter.args else None
                if isinstance(it, ast.Name):
                    f.add("bound_name")
                walk(n.body, depth + 1, True)
            elif isinstance(n, ast.While):
                f.add("while")
                if depth:
                    f.add("nested")
                walk(n.body, depth + 1, True)
            elif isinstance(n, ast.Assign):
                if isinstance(n.value, ast.Name) and in_cf:
                    f.add("alias_in_block")
                if isinstance(n.value, ast.Name) and not in_cf and n.value.id in {a.arg for a in main.args.args}:
                    f.add("alias_of_param")
                if isinstance(n.targets[0], ast.Tuple):
                    f.add("tuple_assign")
                for x in ast.walk(n.value):
                    _expr_feat(x, f)
            elif isinstance(n, ast.Return):
                vals = n.value.elts if isinstance(n.value, ast.Tuple) else [n.value]
                names = [v.id for v in vals if isinstance(v, ast.Name)]
                if len(names) != len(set(names)):
                    f.add("return_dup")
                params = {a.arg for a in main.args.args}
                if any(nm in params for nm in names):
                    f.add("return_param")
                for v in vals:
                    for x in ast.walk(v):
                        _expr_feat(x, f)

    def _expr_feat(x, f):
        if isinstance(x, ast.BinOp):
            if isinstance(x.op, ast.Mod):
                f.add("mod")
            if isinstance(x.op, ast.Pow):
                f.add("pow")
        if isinstance(x, ast.Call) and isinstance(x.func, ast.Name) and x.func.id.startswith("helper"):
            f.add("helper_call")
        if isinstance(x, ast.Call) and isinstance(x.func, ast.Attribute):
            if x.func.attr in ("Split", "TopK", "Cast", "Where", "Reshape", "Gather", "Concat", "Unsqueeze", "Clip", "Softmax", "Shape"):
                f.add("op_" + x.func.attr)

    walk(main.body, 0, False)
    return sorted(f)


def _split_main(src):
    lines = src.splitlines()
    k = max(i for i, l in enumerate(lines) if l.startswith("def main("))
    return lines[:k + 1], lines[k + 1:]


def _blocks(body):
    """Deletable units: (start, end) line ranges — single statements or a compound statement with its block."""
    units = []
    for i, l in enumerate(body):
        if not l.strip() or l.strip().startswith("return") and len(l) - len(l.lstrip()) == 4:
            continue
        ind = len(l) - len(l.lstrip())
        j = i + 1
        if l.rstrip().endswith(":"):
            while j < len(body) and (not body[j].strip() or len(body[j]) - len(body[j].lstrip()) > ind):
                j += 1
            # an `else:` belongs to its `if`
            if j < len(body) and body[j].strip() == "else:" and len(body[j]) - len(body[j].lstrip()) == ind:
                j += 1
                while j < len(body) and (not body[j].strip() or len(body[j]) - len(body[j].lstrip()) > ind):
                    j += 1
            if l.strip() == "else:":
                continue
        units.append((i, j))
    return units


def shrink(src, still_fails, budget=60):
    head, body = _split_main(src)
    changed = True
    while changed and budget > 0:
        changed = False
        units = sorted(_blocks(body), key=lambda u: -(u[1] - u[0]))
        for (a, b) in units:
            if budget <= 0:
                break
            cand = body[:a] + body[b:]
            new = "\n".join(head + cand) + "\n"
            try:
                ast.parse(new)
            except SyntaxError:
                continue
            budget -= 1
            if still_fails(new):
                body = cand
                changed = True
                break
        if not changed:
            # try narrowing the return tuple to one value
            ret = [i for i, l in enumerate(body) if l.startswith("    return ")]
            if ret and "," in body[ret[-1]]:
                vals = [v.strip() for v in body[ret[-1]][len("    return "):].split(",")]
                for v in vals:
                    if budget <= 0:
                        break
                    cand = list(body)
                    cand[ret[-1]] = f"    return {v}"
                    new = "\n".join(head + cand) + "\n"
                    # the return annotation must match: drop it
                    new = _drop_return_annotation(new)
                    budget -= 1
                    if still_fails(new):
                        body = cand
                        head = _drop_return_annotation("\n".join(head)).splitlines()
                        changed = True
                        break
    return "\n".join(head + body) + "\n"


def _drop_return_annotation(src):
    return re.sub(r"(def main\([^\n]*\)) -> [^\n]*:", r"\1:", src)


def classify_source(src, p, vals, attrs, denote, want_odd, want_kind, tag):
    """Re-evaluate a candidate source: does the same form still differ the same way?"""
    try:
        ref = scriptgen.run_reference(src, vals, denote)
    except Exception:
        return False
    try:
        mod = load_program(src, tag)
        f = mod.main
        fp = f.to_function_proto()
    except Exception:
        return False
    names = [q[0] for q in p.params]
    try:
        if want_odd == "eager":
            out = f(*vals, **attrs)
            out = out if isinstance(out, tuple) else (out,)
            st, o = "ok", [runner.as_np(x) for x in out]
        elif want_odd == "model":
            st, o = runner.ort_run(f.to_model_proto(), dict(zip(names, vals)))
        elif want_odd == "function":
            callee = [getattr(mod, h).to_function_proto() for h in p.helpers if hasattr(mod, h)]
            cm = call_model(fp, callee, list(zip(names, vals)), attrs, len(ref), fp.opset_import)
            st, o = runner.ort_run(cm, dict(zip(names, vals)))
        else:
            return False
    except Exception as e:
        st, o = "fail", str(e)
    if st != "ok":
        return want_kind.startswith("fails") and errsig(str(o)) == want_kind.split(":", 1)[-1]
    d = cmp_outputs(ref, o)
    if d is None:
        return False
    kind = "value"
    for kw in ("dtype", "shape", "count"):
        if kw in d[:40]:
            kind = kw
    return kind == want_kind


def run_case(spec):
    viol, ev, sigs, sample = [], {}, [], None
    for i in range(spec["first"], spec["first"] + spec["n"]):
        r = one_program(spec["seed"], i)
        for k, v in (r.get("events") or {}).items():
            ev[k] = ev.get(k, 0) + v
        for v in r.get("viol") or []:
            v = dict(v)
            v.setdefault("detail", {})["program"] = i
            viol.append(v)
        feats = r.get("features") or []
        if r.get("status") == "ok" and (set(feats) & {"if_else", "if_only", "for_loop", "while_loop", "float_literal_next_to_int",
                                                        "int_literal_next_to_float", "bool_literal_next_to_number", "literal_in_op_call"}):
            sigs.append("|".join(feats))
            if sample is None:
                sample = {"program": i, "features": feats, "source": r.get("src", "")[-900:]}
        if r.get("status") == "refused":
            ev.setdefault("refused", 0)
            if sample is None and False:
                pass
            ev["refusal:" + (r.get("refusal", "?").split(":")[0])] = ev.get("refusal:" + (r.get("refusal", "?").split(":")[0]), 0) + 1
    return {"status": "ok", "viol": viol, "events": ev, "nontrivial": bool(sigs), "sig": None, "sample": sample, "data": {"sigs": sigs}}


def finalize(ctx):
    for r in ctx.results:
        for s in ((r.get("data") or {}).get("sigs") or []):
            ctx.sigs.add(s)
    gen = ctx.events.get("generated", 0)
    ref = ctx.events.get("refused", 0)
    if gen and ref / gen > 0.30:
        ctx.inconclusive.append(f"refusal rate {ref}/{gen} above 30%: the grammar emits only documented forms")
