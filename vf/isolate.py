"""Worker-process pool on subprocess.Popen.

Each worker is `python -m vf.worker <module>`; the parent sends one JSON line per
case and reads one JSON line back.  A worker that dies yields a `crash` result for
the case in flight (never a hang), a worker that exceeds the per-case watchdog is
killed and yields `timeout`.  multiprocessing.Pool is deliberately not used (it
hangs forever when a child dies).
"""
from __future__ import annotations

import json
import os
import queue
import select
import subprocess
import sys
import tempfile
import threading
import time

from . import common


class _Worker:
    def __init__(self, module: str, env: dict | None, idx: int):
        self.module = module
        self.env = env
        self.idx = idx
        self.proc = None
        self.errf = None
        self.buf = b""
        self.spawn()

    def spawn(self):
        env = dict(os.environ)
        env.setdefault("PYTHONHASHSEED", "0")
        env["OMP_NUM_THREADS"] = "1"
        if self.env:
            env.update(self.env)
        self.errf = tempfile.TemporaryFile()
        self.buf = b""
        self.proc = subprocess.Popen(
            [sys.executable, "-X", "faulthandler", "-m", "vf.worker", self.module],
            stdin=subprocess.PIPE,
            stdout=subprocess.PIPE,
            stderr=self.errf,
            env=env,
            cwd=common.VERIF_DIR,
        )

    def stderr_tail(self, n=1500) -> str:
        try:
            self.errf.flush()
            self.errf.seek(0, 2)
            size = self.errf.tell()
            self.errf.seek(max(0, size - n))
            return self.errf.read().decode("utf-8", "replace")
        except Exception:  # pragma: no cover
            return ""

    def kill(self):
        try:
            self.proc.kill()
        except Exception:
            pass
        try:
            self.proc.wait(timeout=10)
        except Exception:
            pass
        try:
            self.errf.close()
        except Exception:
            pass

    def _readline(self, timeout: float):
        fd = self.proc.stdout.fileno()
        deadline = time.monotonic() + timeout
        while b"\n" not in self.buf:
            left = deadline - time.monotonic()
            if left <= 0:
                return "timeout", None
            r, _, _ = select.select([fd], [], [], min(left, 5.0))
            if not r:
                continue
            chunk = os.read(fd, 1 << 16)
            if not chunk:
                return "eof", None
            self.buf += chunk
        line, self.buf = self.buf.split(b"\n", 1)
        return "ok", line

    def run(self, spec, timeout: float):
        try:
            self.proc.stdin.write((json.dumps(spec) + "\n").encode())
            self.proc.stdin.flush()
        except (BrokenPipeError, OSError):
            st = "eof"
            line = None
        else:
            st, line = self._readline(timeout)
        if st == "ok":
            try:
                return json.loads(line)
            except Exception as e:
                return {"status": "harness_error", "error": f"bad worker line: {e}: {line[:200]!r}"}
        if st == "timeout":
            tail = self.stderr_tail()
            self.kill()
            self.spawn()
            return {"status": "timeout", "stderr": tail}
        # eof: worker died
        try:
            rc = self.proc.wait(timeout=10)
        except Exception:
            rc = None
        tail = self.stderr_tail()
        self.kill()
        self.spawn()
        return {"status": "crash", "returncode": rc, "stderr": tail}

    def close(self):
        try:
            self.proc.stdin.close()
        except Exception:
            pass
        try:
            self.proc.wait(timeout=5)
        except Exception:
            self.kill()
        try:
            self.errf.close()
        except Exception:
            pass


def pmap(module: str, specs: list, *, jobs: int | None = None, timeout: float = 120.0,
         env: dict | None = None, progress: bool = True):
    """Run module.run_case(spec) for every spec in worker processes.

    Returns a list of result dicts in the order of `specs`.
    """
    n = len(specs)
    if n == 0:
        return []
    jobs = max(1, min(jobs or common.ncpu(), n))
    results: list = [None] * n
    q: queue.Queue = queue.Queue()
    for i, s in enumerate(specs):
        q.put((i, s))
    done = [0]
    lock = threading.Lock()
    t0 = time.monotonic()

    def loop(widx: int):
        w = _Worker(module, env, widx)
        try:
            while True:
                try:
                    i, s = q.get_nowait()
                except queue.Empty:
                    return
                r = w.run(s, timeout)
                results[i] = r
                with lock:
                    done[0] += 1
                    if progress and done[0] % max(1, n // 10) == 0:
                        print(f"  [{module}] {done[0]}/{n} cases, {time.monotonic() - t0:.0f}s",
                              file=sys.stderr, flush=True)
        finally:
            w.close()

    threads = [threading.Thread(target=loop, args=(k,), daemon=True) for k in range(jobs)]
    for t in threads:
        t.start()
    for t in threads:
        t.join()
    return results
