"""C05 helper: small host-model builder (onnx.helper / numpy only, no onnxscript).

A template builds one *host* = a ModelProto embedding an instance (or a near-miss) of a rule's target
pattern + a recipe for >=3 input sets.  The same host is rendered in three forms:

  inferred   value_info from onnx.shape_inference (what optimize() sees)
  bare       no value_info, graph inputs/outputs typed (what rewrite() on a user's proto sees)
  bare+wrap  like bare, but every host input goes through an Identity first and every host output through an
             Identity last, so no value of the pattern carries a type or a shape

Operands can be a graph input, an initializer, an initializer that is also a graph input (overridable
default), or a Constant node.  Input sets: k=0 special values (0, +-1, negatives, bounds...), k=1 random,
k=2 tiny (1e-9, 1e-6) and large magnitudes; overridable operands keep their default at k=0 and are overridden
by the template's alternatives afterwards.
"""
from __future__ import annotations

import numpy as np
import onnx
from onnx import TensorProto, helper, numpy_helper

FORMS = ("inferred", "bare", "bare+wrap", "anon")

NP2ONNX = {
    "float32": TensorProto.FLOAT, "float64": TensorProto.DOUBLE, "float16": TensorProto.FLOAT16,
    "int8": TensorProto.INT8, "int16": TensorProto.INT16, "int32": TensorProto.INT32, "int64": TensorProto.INT64,
    "uint8": TensorProto.UINT8, "uint16": TensorProto.UINT16, "uint32": TensorProto.UINT32,
    "uint64": TensorProto.UINT64, "bool": TensorProto.BOOL, "str": TensorProto.STRING, "object": TensorProto.STRING,
}


def onnx_dtype(dt) -> int:
    if isinstance(dt, int):
        return dt
    s = str(np.dtype(dt)) if dt != "str" else "str"
    if s.startswith("<U") or s.startswith("|S"):
        s = "str"
    return NP2ONNX[s]


def ir_version_for(opset: int) -> int:
    if opset >= 23:
        return 11
    if opset >= 21:
        return 10
    if opset >= 19:
        return 9
    return 8


F_SPECIAL = [0.0, 1.0, -1.0, -2.5, 3.25, 7.0, -7.0, 0.5, 25.0, -25.0, 2.0, -3.0, 6.0, 11.0, -0.5, 100.0]
F_TINY_BIG = [1e-9, -1e-9, 1e-6, -1e-6, 0.0, 1e6, -1e6, 3e-7, 12345.0, -0.0, 1e-3, -65000.0]
I_SPECIAL = [0, 1, -1, 2, -3, 7, -7, 5, 25, -25, 3, 10, 20, 30, 100, -100]


def default_gen(dtype, rt_shape, rs: np.random.Generator, pool=None, mag="wide"):
    """-> f(k) producing the k-th value of an input."""
    dt = np.dtype(dtype) if dtype != "str" else None
    shape = tuple(int(d) for d in rt_shape)
    n = int(np.prod(shape)) if shape else 1
    seeds = [int(rs.integers(0, 2**31 - 1)) for _ in range(8)]

    def fill(vals, k):
        r = np.random.default_rng(seeds[k % 8])
        vals = list(vals)
        idx = r.permutation(len(vals))
        flat = [vals[idx[i % len(vals)]] for i in range(n)]
        return flat

    def gen(k):
        r = np.random.default_rng(seeds[k % 8] + 17)
        if dt is None:
            words = ["a", "", "1.5", "x y", "-3", "abc", "0", "Z"]
            return np.array(fill(words, k), dtype=object).reshape(shape)
        if dt.kind == "b":
            return (r.random(shape) < 0.5)
        if dt.kind == "f":
            if k == 0:
                vals = (list(pool) + F_SPECIAL) if pool else F_SPECIAL
                a = np.array(fill(vals, k), dtype=np.float64)
            elif k == 1 or mag == "mod":
                a = np.round(r.standard_normal(n) * 3.0, 3)
            else:
                vals = F_TINY_BIG + (list(pool) if pool else [])
                a = np.array(fill(vals, k), dtype=np.float64)
            if mag == "mod":
                a = np.clip(a, -30.0, 30.0)
            if dt == np.float16:
                a = np.clip(a, -60000.0, 60000.0)
            return a.reshape(shape).astype(dt)
        # integers
        info = np.iinfo(dt)
        if k == 0:
            vals = (list(pool) + I_SPECIAL) if pool else I_SPECIAL
            a = np.array(fill(vals, k), dtype=np.int64)
        elif k == 1:
            a = r.integers(-10, 11, n)
        else:
            a = r.integers(-1000, 1001, n)
        if info.min == 0:
            a = np.abs(a)
        a = np.clip(a, max(info.min, -(2**40)), min(info.max, 2**40))
        return a.reshape(shape).astype(dt)

    return gen


class Host:
    """Result of a template: model (without value_info) + feeds + oracle options."""

    def __init__(self):
        self.model = None
        self.declared_out = {}
        self.feeds = []          # list of dicts name -> array (only names to feed)
        self.exact = False
        self.rtol = None
        self.atol = None
        self.scale = 1.0
        self.note = ""


class H:
    def __init__(self, rng, opset=18, wrap=False, nfeeds=3):
        self.rng = rng
        self.rs = np.random.default_rng(rng.getrandbits(32))
        self.opset = opset
        self.wrap = wrap
        self.nfeeds = nfeeds
        self.nodes = []
        self.inputs = []
        self.inits = []
        self.outs = []
        self.gens = {}
        self._n = 0
        self.exact = False
        self.rtol = None
        self.atol = None
        self.scale = 1.0
        self.extra_opsets = []
        self.declared_out = {}

    # ------------------------------------------------------------------ names
    def fresh(self, base):
        self._n += 1
        return f"{base}_{self._n}"

    # ------------------------------------------------------------------ values
    def inp(self, dtype, shape, rt=None, name="x", pool=None, gen=None, mag="wide", nowrap=False):
        """Graph input.  shape: list of int|str|None, or None for 'no shape at all'."""
        nm = name if name not in self.gens else self.fresh(name)
        rt = list(rt if rt is not None else shape)
        if isinstance(shape, str) or shape is None:
            # "none": a value of unknown rank.  onnx.checker wants a shape on graph inputs, so the value is produced by a
            # Reshape whose target shape is a graph input of symbolic length.
            vi = helper.make_tensor_value_info(nm, onnx_dtype(dtype), list(rt))
            self.inputs.append(vi)
            self.gens[nm] = gen or default_gen(dtype, rt, self.rs, pool, mag)
            sn = self.fresh(nm + "_rshape")
            self.inputs.append(helper.make_tensor_value_info(sn, TensorProto.INT64, ["K_" + sn]))
            arr = np.array(rt, np.int64)
            self.gens[sn] = (lambda k, arr=arr: arr)
            o = self.fresh(nm + "_u")
            self.nodes.append(helper.make_node("Reshape", [nm, sn], [o], name=self.fresh("unk")))
            return o
        vi = helper.make_tensor_value_info(nm, onnx_dtype(dtype), shape)
        self.inputs.append(vi)
        self.gens[nm] = gen or default_gen(dtype, rt, self.rs, pool, mag)
        if self.wrap and not nowrap:
            o = self.fresh(nm + "_w")
            self.nodes.append(helper.make_node("Identity", [nm], [o], name=self.fresh("head")))
            return o
        return nm

    def operand(self, arr, kind="init", name="c", alts=None, dtype=None):
        """A would-be-constant operand.  kind: init | init_input | const | input."""
        if dtype == "str" or (isinstance(arr, np.ndarray) and arr.dtype.kind in "OUS"):
            arr = np.asarray(arr, dtype=object)
        else:
            arr = np.asarray(arr, dtype=dtype) if dtype is not None else np.asarray(arr)
        nm = self.fresh(name)
        if kind == "init":
            self.inits.append(numpy_helper.from_array(arr, nm))
        elif kind == "init_input":
            self.inits.append(numpy_helper.from_array(arr, nm))
            self.inputs.append(helper.make_tensor_value_info(nm, onnx_dtype(arr.dtype), list(arr.shape)))
            a = list(alts or [])
            self.gens[nm] = (lambda k, a=a: None if (k == 0 or not a) else a[(k - 1) % len(a)])
        elif kind == "const":
            self.nodes.append(helper.make_node("Constant", [], [nm], value=numpy_helper.from_array(arr, nm + "_v"),
                                               name=self.fresh("cst")))
        elif kind == "input":
            self.inputs.append(helper.make_tensor_value_info(nm, onnx_dtype(arr.dtype), list(arr.shape)))
            a = list(alts or [])
            self.gens[nm] = (lambda k, a=a, arr=arr: arr if (k == 0 or not a) else a[(k - 1) % len(a)])
        else:
            raise ValueError(kind)
        return nm

    def node(self, op, ins, nout=1, outs=None, domain="", **attrs):
        outs = list(outs) if outs is not None else [self.fresh(op.lower()) for _ in range(nout)]
        attrs = {k: v for k, v in attrs.items() if v is not None}
        self.nodes.append(helper.make_node(op, list(ins), outs, name=self.fresh("n_" + op), domain=domain, **attrs))
        return outs[0] if len(outs) == 1 else tuple(outs)

    def out(self, *names, nowrap=False, shape=None):
        """Graph output(s).  `shape`: a user-declared output shape (used when inference leaves it open)."""
        for nm in names:
            if shape is not None:
                self.declared_out[len(self.outs)] = list(shape)
            if self.wrap and not nowrap:
                o = self.fresh("out")
                self.nodes.append(helper.make_node("Identity", [nm], [o], name=self.fresh("tail")))
                self.outs.append(o)
            else:
                self.outs.append(nm)

    def tap(self, name, how="output"):
        """Give an intermediate value a second life: as a graph output or through an extra consumer."""
        if how == "output":
            self.outs.append(name)
        else:
            o = self.fresh("tap")
            self.nodes.append(helper.make_node("Identity", [name], [o], name=self.fresh("tapn")))
            self.outs.append(o)

    # ------------------------------------------------------------------ result
    def finish(self) -> Host:
        g = helper.make_graph(self.nodes, "host", self.inputs,
                              [helper.make_empty_tensor_value_info(o) for o in self.outs], initializer=self.inits)
        m = helper.make_model(g, opset_imports=[helper.make_opsetid("", self.opset)] + list(self.extra_opsets),
                              ir_version=ir_version_for(self.opset), producer_name="vf.c05")
        host = Host()
        host.model = m
        for k in range(self.nfeeds):
            fd = {}
            for nm, gfn in self.gens.items():
                v = gfn(k)
                if v is not None:
                    fd[nm] = v
            host.feeds.append(fd)
        host.exact, host.rtol, host.atol, host.scale = self.exact, self.rtol, self.atol, self.scale
        host.declared_out = dict(self.declared_out)
        return host


def anonymize(inf: onnx.ModelProto):
    """The inferred model with the dim names onnx.shape_inference invented (`unk__k`) removed again: dims without value and
    without name are what exporters emit; two of them are NOT known to be equal.  None if there is nothing to anonymize."""
    m = onnx.ModelProto()
    m.CopyFrom(inf)
    n = 0

    def walk(g):
        nonlocal n
        for vi in list(g.input) + list(g.output) + list(g.value_info):
            tt = vi.type.tensor_type
            if vi.type.HasField("tensor_type") and tt.HasField("shape"):
                for d in tt.shape.dim:
                    if d.HasField("dim_param") and d.dim_param.startswith("unk__"):
                        d.ClearField("dim_param")
                        n += 1
                    elif not d.HasField("dim_param") and not d.HasField("dim_value"):
                        n += 1
        for nd in g.node:
            for a in nd.attribute:
                if a.HasField("g"):
                    walk(a.g)
                for sg in a.graphs:
                    walk(sg)

    walk(m.graph)
    return m if n else None


def render(model: onnx.ModelProto, feeds=None, declared=None):
    """-> (inferred_model | None, bare_model | None, note).  Graph outputs get their types from shape inference."""
    try:
        inf = onnx.shape_inference.infer_shapes(model, strict_mode=False, data_prop=True)
    except Exception as e:  # generator produced something inference cannot digest
        return None, None, f"infer_shapes: {type(e).__name__}: {e}"[:300]
    missing = []
    for i, shp in (declared or {}).items():
        o = inf.graph.output[i]
        tt = o.type.tensor_type
        static = tt.HasField("shape") and all(d.HasField("dim_value") for d in tt.shape.dim)
        if not static:
            tt.ClearField("shape")
            tt.shape.SetInParent()
            for d in shp:
                nd = tt.shape.dim.add()
                if isinstance(d, int):
                    nd.dim_value = d
                else:
                    nd.dim_param = d
    for o in inf.graph.output:
        if not o.type.HasField("tensor_type") or o.type.tensor_type.elem_type == 0:
            return None, None, f"output {o.name} untyped after inference"
        if not o.type.tensor_type.HasField("shape"):
            missing.append(o)
    if missing:
        # rank unknown to inference: declare the observed rank with fresh symbolic dims (onnx.checker wants a shape field)
        from . import runner

        if not feeds:
            return None, None, f"output {missing[0].name} has no shape after inference"
        try:
            sess = runner.ort_session(inf)
            names = {i.name for i in sess.get_inputs()} | {i.name for i in sess.get_overridable_initializers()}
            res = sess.run(None, {k: v for k, v in feeds[0].items() if k in names})
        except Exception as e:
            return None, None, f"unrunnable while probing output ranks: {type(e).__name__}: {e}"[:300]
        for o, r in zip(inf.graph.output, res):
            if not o.type.tensor_type.HasField("shape"):
                o.type.tensor_type.shape.SetInParent()
                for i in range(np.ndim(r)):
                    o.type.tensor_type.shape.dim.add().dim_param = f"{o.name}_d{i}"
    io = {v.name for v in inf.graph.output} | {v.name for v in inf.graph.input}
    keep = [v for v in inf.graph.value_info if v.name not in io]
    del inf.graph.value_info[:]
    inf.graph.value_info.extend(keep)
    bare = onnx.ModelProto()
    bare.CopyFrom(inf)
    del bare.graph.value_info[:]
    return inf, bare, ""
