"""python -m vf.kf_shas [old=new ...]: rewrite commit ids in kf/*.json (after /repo history was re-cut) and verify that
every `commit` of a fixed entry is a commit of /repo whose subject starts with "fix:"."""
import glob, json, subprocess, sys


def main():
    sub = dict(a.split("=") for a in sys.argv[1:])
    for p in sorted(glob.glob("/verif/kf/*.json")):
        s = open(p).read()
        s2 = s
        for a, b in sub.items():
            s2 = s2.replace(a, b)
        if s2 != s:
            open(p, "w").write(s2)
    log = dict(l.split(" ", 1) for l in subprocess.check_output(["git", "-C", "/repo", "log", "--format=%h %s"], text=True).splitlines())
    bad = 0
    for p in sorted(glob.glob("/verif/kf/*.json")):
        for e in json.load(open(p))["findings"]:
            if e.get("status") == "fixed":
                c = e.get("commit")
                if c not in log or not log[c].startswith("fix:"):
                    print("BAD", p, e["key"], c)
                    bad += 1
    print("fixed entries verified" if not bad else f"{bad} bad")
    return 1 if bad else 0


sys.exit(main())
