"""Typed generator of ONNX Script programs (source text) — generation by execution.

Statements are generated one at a time; each candidate statement is exec'd immediately under
the numpy reading (vf.refsem) on example inputs, so the generator always knows the dtype and
shape of every variable and only emits well-typed programs of the documented subset.  Both
branches of an `if` and the body of every loop are exec'd for typing regardless of the
example's control flow.
"""
from __future__ import annotations

import numpy as np

from . import refsem
from .refsem import RT

DT = {"FLOAT": np.float32, "INT64": np.int64, "BOOL": np.bool_, "DOUBLE": np.float64, "INT32": np.int32}
TPN = {"FLOAT": 1, "INT64": 7, "BOOL": 9, "DOUBLE": 11, "INT32": 6}
NAME_OF = {np.dtype(v): k for k, v in DT.items()}

HEADER = """from typing import Tuple
from onnxscript import script
from onnxscript.onnx_opset import opset18 as op
from onnxscript.onnx_types import FLOAT, INT64, BOOL, DOUBLE, INT32

"""


class Bail(Exception):
    pass


class _Ty:
    def __class_getitem__(cls, item):
        return cls


def ref_globals():
    g = {"op": refsem.OP, "FLOAT": _Ty, "INT64": _Ty, "BOOL": _Ty, "DOUBLE": _Ty, "INT32": _Ty, "Tuple": _Ty,
         "script": lambda *a, **k: (lambda f: f)}
    return g


def strip_imports(src):
    return "\n".join(l for l in src.splitlines() if not l.startswith("from ") and not l.startswith("import "))


def tyname(a):
    return NAME_OF[np.asarray(a).dtype]


def example(rng, dt, shape, style="mixed"):
    n = int(np.prod(shape)) if len(shape) else 1
    d = np.dtype(DT[dt])
    if d.kind == "b":
        a = np.array([rng.random() < 0.5 for _ in range(n)], dtype=bool)
    elif d.kind == "i":
        pool = {"mixed": [0, 1, -1, 2, -3, 5, 7, -8], "small": [0, 1, 2, 3], "edge": [0, -1, 1, 9, -9, 2]}[style]
        a = np.array([rng.choice(pool) for _ in range(n)], dtype=d)
    else:
        if style == "edge":
            a = np.array([rng.choice([0.0, -0.0, 1.0, -1.0, 0.5, -2.5, 8.0, -8.0, 1e-3]) for _ in range(n)], dtype=d)
        elif style == "small":
            a = np.array([rng.uniform(-1, 1) for _ in range(n)], dtype=d)
        else:
            a = np.array([rng.choice([rng.uniform(-3, 3), rng.uniform(-9, 9), 0.0, 1.0]) for _ in range(n)], dtype=d)
    return a.reshape(shape)


class Prog:
    def __init__(self):
        self.src = ""
        self.main = "main"
        self.params = []     # (name, dtype name, shape)
        self.attrs = []      # (name, pytype name, default or None, test value)
        self.features = set()
        self.n_returns = 0


class G:
    def __init__(self, rng, name="main", helpers=(), depth_limit=2):
        self.rng = rng
        self.name = name
        self.env = dict(ref_globals())
        self.lines = []
        self.feat = set()
        self.counter = 0
        self.helpers = list(helpers)    # (name, in dtypes, attr spec, python callable)
        for h in self.helpers:
            self.env[h["name"]] = h["fn"]
        self.depth_limit = depth_limit
        self.attr_names = []
        self.params = []
        self.readonly = set()
        self.suffix_names = False
        self.taken = set()
        self.loopvars = set()
        self.must_use = []

    # ---------------------------------------------------------------- helpers
    def fresh(self, p="t"):
        self.counter += 1
        if self.suffix_names:
            # name stress: user names that look like the converter's own generated names (<stem>_<k>)
            for _ in range(6):
                stem = self.rng.choice(["tmp", "const", "cond", "x", "x_0", p, "int64", "return_val"])
                cand = f"{stem}_{self.rng.randrange(0, 14)}"
                if cand not in self.env and cand not in self.taken:
                    self.taken.add(cand)
                    return cand
        return f"{p}{self.counter}"

    def tensors(self, env=None):
        env = self.env if env is None else env
        return {k: v for k, v in env.items() if isinstance(v, RT)}

    def pick(self, env, pred=None, writable=False):
        c = [(k, v) for k, v in self.tensors(env).items() if (pred is None or pred(v.a)) and not (writable and k in self.readonly)
             and k not in self.loopvars]
        if not c:
            raise Bail("no var")
        c.sort()
        return self.rng.choice(c)

    def ev(self, expr, env):
        try:
            v = eval(expr, env)  # noqa: S307  (generator-authored expression text)
        except Exception as e:
            raise Bail(f"expr {expr}: {e}")
        return v

    def lit(self, dtname, nonzero=False):
        r = self.rng
        if dtname in ("FLOAT", "DOUBLE"):
            v = r.choice([1.0, 2.0, 0.5, -1.5, 3.0, 0.25] + ([] if nonzero else [0.0]) + [1, 2, -1, True])
        elif dtname in ("INT64", "INT32"):
            v = r.choice([1, 2, 3, -1, -2] + ([] if nonzero else [0]) + [2.5] * (0 if nonzero else 1))
        else:
            v = r.choice([True, False])
        if isinstance(v, float) and dtname in ("INT64", "INT32"):
            self.feat.add("float_literal_next_to_int")
        if isinstance(v, bool) and dtname != "BOOL":
            self.feat.add("bool_literal_next_to_number")
        if isinstance(v, int) and not isinstance(v, bool) and dtname in ("FLOAT", "DOUBLE"):
            self.feat.add("int_literal_next_to_float")
        return repr(v)

    # ---------------------------------------------------------------- expressions
    def expr_like(self, env, name, steps=None):
        """An expression with the same dtype and shape as variable `name`."""
        v = env[name]
        dtn = tyname(v.a)
        r = self.rng
        e = name
        steps = r.choice([1, 1, 2, 3]) if steps is None else steps
        for _ in range(steps):
            kinds = ["addlit", "mullit", "id", "other"]
            if dtn in ("FLOAT", "DOUBLE"):
                kinds += ["neg", "abs", "relu", "sublit", "divlit", "opadd", "clip", "floor", "sigmoid", "modlit", "where", "max", "attr",
                          "helper", "leaky", "rsub", "pow"]
                if dtn == "FLOAT":
                    kinds += ["lit_only_op"]
            elif dtn in ("INT64", "INT32"):
                kinds += ["neg", "abs", "sublit", "divlit", "opadd", "modlit", "where", "max", "attr", "rsub", "intdiv_neg"]
            else:
                kinds = ["not", "and", "or", "id"]
            if dtn != "BOOL" and v.a.ndim >= 1 and v.a.shape[0] >= 2:
                kinds += ["subscript"]
            k = r.choice(kinds)
            if k == "subscript":
                # shape-preserving uses of Slice / Gather subscripts on the variable itself (broadcast back over the
                # sliced axis), so that subscripts occur inside blocks and again in the enclosing graph
                forms = [f"({e} - {name}[0:1])", f"({e} + {name}[1:2])", f"op.Concat({name}[:1], {name}[1:], axis=0)",
                         f"({e} * {name}[0])"]
                # empty and end-relative slices (explicit stop 0, start == stop, start > stop, negative bounds), glued back so
                # that the shape is preserved: an empty slice contributes nothing to a Concat
                forms += [f"op.Concat({name}[:0], {e}, axis=0)", f"op.Concat({e}, {name}[1:1], axis=0)",
                          f"op.Concat({name}[2:0], {e}, axis=0)", f"op.Concat({name}[:-1], {name}[-1:], axis=0)",
                          f"op.Concat({name}[0:0], {name}[:1], {name}[1:], axis=0)"]
                if v.a.ndim >= 2 and v.a.shape[1] >= 1:
                    forms += [f"({e} + {name}[:, 0:1])", f"({e} - {name}[0, 0:1])", f"({e} + {name}[0:1, 0:1])",
                              f"op.Concat({e}, {name}[:, :0], axis=1)"]
                e = r.choice(forms)
                self.feat.add("subscript")
            elif k == "addlit":
                e = f"({e} + {self.lit(dtn)})" if dtn != "BOOL" else e
            elif k == "mullit":
                e = f"({self.lit(dtn)} * {e})" if dtn != "BOOL" else e
            elif k == "sublit":
                e = f"({e} - {self.lit(dtn)})"
            elif k == "rsub":
                e = f"({self.lit(dtn)} - {e})"
            elif k == "divlit":
                e = f"({e} / {self.lit(dtn, nonzero=True).replace('True', '2')})"
                if dtn.startswith("INT"):
                    self.feat.add("int_div")
            elif k == "intdiv_neg":
                e = f"({e} / -2)"
                self.feat.add("int_div")
            elif k == "modlit":
                if dtn.startswith("INT"):
                    e = f"({e} % {r.choice([2, 3, -3])})"
                else:
                    e = f"({e} % {r.choice([2.0, 1.5, -2.0])})"
                self.feat.add("mod")
            elif k == "pow":
                e = f"({e} ** 2)"
            elif k == "lit_only_op":
                # an op call whose only operand is a Python literal: nothing to borrow a type from, so FLOAT by Python type
                e = r.choice([f"({e} * op.Sqrt(2.0))", f"op.Add({e}, op.Exp(1.0))", f"({e} - op.CastLike(0.5, {e}))",
                              f"op.Sub({e}, op.Sqrt(4.0))"])
                self.feat.add("literal_only_op_call")
            elif k == "neg":
                e = f"(-{e})"
            elif k == "abs":
                e = f"op.Abs({e})"
            elif k == "relu":
                e = f"op.Relu({e})"
            elif k == "floor":
                e = f"op.Floor({e})"
            elif k == "sigmoid":
                e = f"op.Sigmoid({e})"
            elif k == "leaky":
                e = f"op.LeakyRelu({e}, alpha={r.choice([0.1, 0.5])})"
            elif k == "id":
                e = f"op.Identity({e})"
            elif k == "opadd":
                e = f"op.{r.choice(['Add', 'Mul', 'Sub'])}({e}, {self.lit(dtn)})"
                self.feat.add("literal_in_op_call")
            elif k == "clip":
                lo, hi = r.choice([(0, 6), (-1.0, 1.0), (-2, 2.5)])
                form = r.choice(["pos", "pos", "kw_max", "kw_min", "kw_both", "none_max"])
                if form == "pos":
                    e = f"op.Clip({e}, {lo!r}, {hi!r})"
                elif form == "kw_max":
                    # an input passed by keyword after an omitted optional input must keep its slot
                    e = f"op.Clip({e}, max={hi!r})"
                    self.feat.add("keyword_input_after_omitted_optional")
                elif form == "kw_min":
                    e = f"op.Clip({e}, min={lo!r})"
                elif form == "kw_both":
                    e = f"op.Clip({e}, max={hi!r}, min={lo!r})"
                else:
                    e = f"op.Clip({e}, None, {hi!r})"
                self.feat.add("literal_in_op_call")
            elif k in ("other", "max", "where"):
                try:
                    o, ov = self.pick(env, lambda a: a.dtype == v.a.dtype and a.shape == v.a.shape)
                except Bail:
                    continue
                if k == "other":
                    opx = r.choice(["+", "-", "*"]) if dtn != "BOOL" else "&"
                    e = f"({e} {opx} {o})"
                elif k == "max":
                    e = f"op.{r.choice(['Max', 'Min'])}({e}, {o})"
                else:
                    try:
                        c, _ = self.pick(env, lambda a: a.dtype == np.bool_ and (a.shape == v.a.shape or a.shape == ()))
                    except Bail:
                        continue
                    e = f"op.Where({c}, {e}, {o})"
            elif k == "attr":
                # a bool attribute is a polymorphic literal too: next to a FLOAT / INT64 tensor it is cast like the tensor
                cand = [a for a in self.attr_names if (a[1] == "float" and dtn == "FLOAT") or (a[1] == "int" and dtn == "INT64") or
                        (a[1] == "bool" and dtn in ("FLOAT", "INT64", "DOUBLE", "INT32"))]
                if cand:
                    a = r.choice(cand)
                    e = f"({e} {r.choice(['+', '*'])} {a[0]})"
                    self.feat.add("attr_as_operand")
            elif k == "helper":
                hs = [h for h in self.helpers if h["in"] == [dtn]]
                if hs:
                    h = r.choice(hs)
                    kw = f", {h['attr'][0]}={h['attr'][2]!r}" if h["attr"] and (h["needs_attr"] or r.random() < 0.5) else ""
                    e = f"{h['name']}({e}{kw})"
                    self.feat.add("subfunction_call")
            elif k == "not":
                e = f"op.Not({e})"
            elif k in ("and", "or"):
                try:
                    o, _ = self.pick(env, lambda a: a.dtype == np.bool_ and a.shape == v.a.shape)
                except Bail:
                    continue
                e = f"({e} {'&' if k == 'and' else '|'} {o})"
        val = self.ev(e, env)
        if not isinstance(val, RT) or val.a.dtype != v.a.dtype or val.a.shape != v.a.shape:
            raise Bail("type drift")
        if val.a.dtype.kind == "f" and not np.isfinite(val.a).all():
            raise Bail("non-finite")
        if val.a.dtype.kind in "if" and val.a.size and np.abs(val.a.astype(np.float64)).max() > 1e6:
            raise Bail("too large")
        return e

    def scalar_cond(self, env, rank0=False):
        """A BOOL expression with exactly one element (rank 0 when rank0: the Loop spec wants a scalar condition)."""
        r = self.rng
        n, v = self.pick(env, lambda a: a.dtype.kind in "fi" and a.size > 0)
        dtn = tyname(v.a)
        form = r.choice(["sum_gt", "max_ge", "scalar"] if rank0 else ["sum_gt", "sum_lt", "max_ge", "scalar"])
        thr = self.lit(dtn)
        if form == "scalar":
            try:
                n2, v2 = self.pick(env, lambda a: a.dtype.kind in "fi" and a.shape == ())
                return f"({n2} {r.choice(['<', '>', '<=', '>=', '=='])} {self.lit(tyname(v2.a))})"
            except Bail:
                form = "sum_gt"
        if form == "sum_gt":
            return f"(op.ReduceSum({n}, keepdims=0) > {thr})"
        if form == "sum_lt":
            return f"(op.ReduceSum({n}) < {thr})"
        return f"(op.ReduceMax({n}, keepdims=0) >= {thr})"

    # ---------------------------------------------------------------- statements
    def emit(self, line, env, indent):
        try:
            exec(line, env)  # noqa: S102  (generator-authored statement text, numpy reading)
        except Exception as e:
            raise Bail(f"stmt {line}: {e}")
        return ["    " * indent + line]

    def st_assign_like(self, env, indent, target=None):
        n, _ = self.pick(env) if (target is None or target not in env) else (target, None)
        e = self.expr_like(env, n)
        tgt = target or (n if (self.rng.random() < 0.4 and n not in self.readonly) else self.fresh())
        return self.emit(f"{tgt} = {e}", env, indent)

    def st_new_type(self, env, indent):
        r = self.rng
        n, v = self.pick(env)
        a = v.a
        dtn = tyname(a)
        t = self.fresh()
        forms = ["cmp", "shape"]
        if a.dtype.kind in "fi":
            # no reduction of an empty tensor: ORT 1.30 returns a size-0 result where the spec (and numpy) say size 1
            forms += ["reduce", "cast", "reduce_axes"] if a.size > 0 else ["cast"]
        if a.ndim >= 2:
            forms += ["transpose", "matmul"] if a.dtype.kind == "f" else ["transpose"]
        if a.ndim >= 1 and a.size > 0:
            forms += ["reshape", "unsqueeze", "concat", "gather", "split", "reshape"]
        if a.ndim >= 1 and a.dtype.kind == "f" and a.shape[-1] >= 2:
            forms += ["topk", "softmax"]
        f = r.choice(forms)
        self.feat.add("newtype:" + f)
        if f == "cmp":
            if dtn == "BOOL":
                return self.emit(f"{t} = op.Not({n})", env, indent)
            return self.emit(f"{t} = {n} {r.choice(['<', '>', '<=', '>=', '==', '!='])} {self.lit(dtn)}", env, indent)
        if f == "shape":
            return self.emit(f"{t} = op.Shape({n})", env, indent)
        if f == "reduce":
            return self.emit(f"{t} = op.{r.choice(['ReduceSum', 'ReduceMax', 'ReduceMin'] if a.size else ['ReduceSum'])}({n}, keepdims={r.choice([0, 1])})", env, indent)
        if f == "reduce_axes":
            if a.ndim == 0:
                raise Bail("rank0")
            ax = r.randrange(-a.ndim, a.ndim)
            self.feat.add("list_literal_axes")
            return self.emit(f"{t} = op.ReduceSum({n}, [{ax}], keepdims={r.choice([0, 1])})", env, indent)
        if f == "cast":
            to = r.choice([k for k in ("FLOAT", "INT64", "DOUBLE", "INT32", "BOOL") if k != dtn])
            src = n
            if a.dtype.kind == "f" and to in ("INT64", "INT32"):
                src = f"op.Clip({n}, -100.0, 100.0)"
            return self.emit(f"{t} = op.Cast({src}, to={TPN[to]})", env, indent)
        if f == "transpose":
            perm = list(range(a.ndim))
            r.shuffle(perm)
            return self.emit(f"{t} = op.Transpose({n}, perm={perm})", env, indent)
        if f == "matmul":
            return self.emit(f"{t} = {n} @ op.Transpose({n}, perm={list(range(a.ndim - 2)) + [a.ndim - 1, a.ndim - 2]})", env, indent)
        if f == "reshape":
            self.feat.add("list_literal_shape")
            return self.emit(f"{t} = op.Reshape({n}, {r.choice([[-1], [1, -1], [-1, 1], [0, -1]])})", env, indent)
        if f == "unsqueeze":
            return self.emit(f"{t} = op.Unsqueeze({n}, [{r.randrange(0, a.ndim + 1)}])", env, indent)
        if f == "concat":
            ax = r.randrange(a.ndim)
            return self.emit(f"{t} = op.Concat({n}, {self.expr_like(env, n, 1)}, axis={ax})", env, indent)
        if f == "gather":
            ax = r.randrange(a.ndim)
            if a.shape[ax] == 0:
                raise Bail("empty")
            self.feat.add("int_literal_index")
            return self.emit(f"{t} = op.Gather({n}, {r.randrange(a.shape[ax])}, axis={ax})", env, indent)
        if f == "split":
            ax = r.randrange(a.ndim)
            if a.shape[ax] < 2:
                raise Bail("small")
            t2 = self.fresh()
            self.feat.add("tuple_assign_multi_output")
            if r.random() < 0.5:
                return self.emit(f"{t}, {t2} = op.Split({n}, num_outputs=2, axis={ax})", env, indent)
            k = r.randrange(1, a.shape[ax])
            return self.emit(f"{t}, {t2} = op.Split({n}, [{k}, {a.shape[ax] - k}], axis={ax})", env, indent)
        if f == "topk":
            t2 = self.fresh()
            self.feat.add("tuple_assign_multi_output")
            # ties make the index output implementation-defined: only distinct values
            if len(set(a.reshape(-1).tolist())) != a.size:
                raise Bail("ties")
            return self.emit(f"{t}, {t2} = op.TopK({n}, [1])", env, indent)
        if f == "softmax":
            return self.emit(f"{t} = op.Softmax({n}, axis=-1)", env, indent)
        raise Bail("form")

    def st_if(self, env, indent, depth):
        r = self.rng
        cond = self.scalar_cond(env)
        c = self.fresh("c")
        out = self.emit(f"{c} = {cond}", env, indent)
        use_expr_cond = r.random() < 0.3
        # targets: variables (re)assigned by the branches
        names = sorted(n for n in self.tensors(env) if n not in self.readonly)
        k = r.choice([1, 1, 2, 3, 4])
        existing = [r.choice(names) for _ in range(min(k, len(names)))]
        new_both = [self.fresh("w")] if r.random() < 0.4 else []
        envs = []
        bodies = []
        has_else = r.random() < 0.75 or bool(new_both)
        one_branch_only = []
        if has_else and existing and r.random() < 0.4:
            one_branch_only = [existing[0]]     # assigned in the then-branch only (defined before)
            self.feat.add("if_var_in_one_branch")
        for bi in range(2 if has_else else 1):
            e2 = dict(env)
            body = []
            if depth < self.depth_limit and r.random() < 0.25:
                body += self.block(e2, indent + 1, depth + 1, r.choice([1, 2]))
            for w in existing:
                if bi == 1 and w in one_branch_only:
                    continue
                body += self.st_assign_like(e2, indent + 1, target=w)
            for w in new_both:
                src = r.choice(existing) if existing else r.choice(names)
                if bi == 0:
                    body += self.emit(f"{w} = {self.expr_like(e2, src)}", e2, indent + 1)
                    first_type = (e2[w].a.dtype, e2[w].a.shape, src)
                else:
                    body += self.emit(f"{w} = {self.expr_like(e2, first_type[2])}", e2, indent + 1)
            if r.random() < 0.07 and bi == 0:
                # a branch that returns another value unchanged (Identity-copy site)
                tgt = r.choice(existing) if existing else None
                try:
                    o, _ = self.pick(env, lambda a: tgt is not None and a.dtype == env[tgt].a.dtype and a.shape == env[tgt].a.shape)
                    body += self.emit(f"{tgt} = {o}", e2, indent + 1)
                    self.feat.add("alias_assignment_in_branch")
                except Bail:
                    pass
            if not body:
                raise Bail("empty branch")
            envs.append(e2)
            bodies.append(body)
        head = f"if {cond}:" if use_expr_cond else f"if {c}:"
        out.append("    " * indent + head)
        out += bodies[0]
        if has_else:
            out.append("    " * indent + "else:")
            out += bodies[1]
        # after the if: take the then-branch env for typing (types agree by construction)
        for w in set(existing) | set(new_both):
            env[w] = envs[0][w]
        self.feat.add("if_else" if has_else else "if_only")
        self.must_use.append((list(existing) + list(new_both))[-1])
        if depth > 0:
            self.feat.add("nested_control_flow")
        return out

    def st_for(self, env, indent, depth):
        r = self.rng
        names = sorted(n for n in self.tensors(env) if n not in self.readonly)
        carried = [r.choice(names) for _ in range(r.choice([1, 2, 3, 3, 4, 5]))]
        carried = list(dict.fromkeys(carried))
        i = self.fresh("i")
        bform = r.choice(["lit", "lit", "attr", "tensor"])
        bound = str(r.choice([0, 1, 2, 3]))
        if bform == "attr":
            cand = [a for a in self.attr_names if a[1] == "int" and 0 <= a[2] <= 4]
            if cand:
                bound = r.choice(cand)[0]
                self.feat.add("loop_bound_attr")
        elif bform == "tensor":
            try:
                b, bv = self.pick(env, lambda a: a.dtype == np.int64 and a.shape == () and 0 <= int(a) <= 4 and False)
            except Bail:
                b = None
            cand = [p for p in self.params if p[1] == "INT64" and p[2] == () and p[0] in env and 0 <= int(env[p[0]].a) <= 4]
            if cand:
                bound = r.choice(cand)[0]
                self.feat.add("loop_bound_tensor")
        pre, kill_var = [], None
        if self.rare(0.3):
            # `if c: v = <no read of v>` then a read of v in the same iteration, with v defined just before the loop and dead
            # after it: v must be carried by the loop (its value survives from the iteration in which the branch was taken)
            try:
                u, uv = self.pick(env, lambda a: a.dtype.kind in "fi" and a.size > 0)
                kill_var = self.fresh("kv")
                pre = self.emit(f"{kill_var} = {self.expr_like(env, u, 1)}", env, indent)
                # an accumulator of the same type, so that the body always has something to fold the killed variable into
                kill_acc = self.fresh("ka")
                pre += self.emit(f"{kill_acc} = {self.expr_like(env, u, 1)}", env, indent)
                self._kill_names = (u, kill_acc)
                bound = "3"
            except Bail:
                pre, kill_var = [], None
        e2 = dict(env)
        e2[i] = RT(np.array(1, dtype=np.int64))
        self.readonly.add(i)
        self.loopvars.add(i)   # the index is only used through op.Cast(i, to=...): Python int vs INT64 tensor readings differ otherwise
        body = []
        kill_live = kill_var is not None and r.random() < 0.5
        if kill_var is not None:
            try:
                if kill_live:
                    # variant: kv is assigned in both branches without being read, is not read in the body, and IS live
                    # after the loop: the last iteration's value must come out of the loop
                    body += self._if_kill_both(e2, indent + 1, i, kill_var)
                else:
                    body += self._if_kill_then_read(e2, indent + 1, i, kill_var)
                self.readonly.add(kill_var)
            except Bail:
                kill_live = False
        use_i = r.random() < 0.5
        for w in carried:
            if use_i and e2[w].a.dtype.kind in "fi":
                dtn = tyname(e2[w].a)
                body += self.emit(f"{w} = {w} + op.Cast({i}, to={TPN[dtn]})", e2, indent + 1)
                self.feat.add("loop_index_used")
                use_i = False
            else:
                body += self.st_assign_like(e2, indent + 1, target=w)
        if r.random() < 0.3:
            # a captured outer variable that is not carried
            try:
                body += self.st_assign_like(e2, indent + 1, target=self.fresh("q"))
            except Bail:
                pass
        if self.rare(0.3):
            body += self._rebind_carried_to_outer(env, e2, carried, indent + 1)
        if depth < self.depth_limit and r.random() < 0.5:
            body += self.block(e2, indent + 1, depth + 1, 1, allow_loops=False)
            self.feat.add("nested_control_flow")
        if r.random() < 0.35:
            cb = self.fresh("brk")
            body += self.emit(f"{cb} = {self.scalar_cond(e2, rank0=True)}", e2, indent + 1)
            body.append("    " * (indent + 1) + f"if {cb}:")
            body.append("    " * (indent + 2) + "break")
            self.feat.add("for_with_break")
        out = pre + ["    " * indent + f"for {i} in range({bound}):"] + body
        if kill_var is not None and kill_live and int(bound) > 0:
            env[kill_var] = e2[kill_var]
            self.must_use.append(kill_var)
        elif kill_var is not None:
            env.pop(kill_var, None)      # dead after the loop
        self.feat.add("for_loop")
        self.must_use.append(carried[-1])
        return out

    def _if_kill_then_read(self, e2, indent, i, v):
        r = self.rng
        vv = e2[v]
        u, w = getattr(self, "_kill_names", (None, None))
        if u is None or u not in e2 or w not in e2 or e2[u].a.dtype != vv.a.dtype or e2[u].a.shape != vv.a.shape or e2[w].a.shape != vv.a.shape:
            u, _ = self.pick(e2, lambda a: a.dtype == vv.a.dtype and a.shape == vv.a.shape)
            w, _ = self.pick(e2, lambda a: a.dtype == vv.a.dtype and a.shape == vv.a.shape, writable=True)
        if len({u, v, w}) < 3:
            raise Bail("need three distinct variables")
        for _ in range(5):
            rhs = self.expr_like(e2, u, 1)
            if v not in rhs.replace(u, ""):
                break
        else:
            raise Bail("rhs reads v")
        c = self.fresh("ck")
        out = self.emit(f"{c} = (op.Cast({i}, to=7) == {r.choice([0, 1, 1, 2])})", e2, indent)
        e3 = dict(e2)
        inner = self.emit(f"{v} = {rhs}", e3, indent + 1)
        out.append("    " * indent + f"if {c}:")
        out += inner
        out += self.emit(f"{w} = ({w} + {v})", e2, indent)
        self.feat.add("loop_if_kills_then_read")
        self.must_use.append(w)
        return out

    def _if_kill_both(self, e2, indent, i, v):
        r = self.rng
        vv = e2[v]
        u, _ = self.pick(e2, lambda a: a.dtype == vv.a.dtype and a.shape == vv.a.shape)
        if u == v:
            raise Bail("need another variable")
        rhs = []
        for _ in range(8):
            x = self.expr_like(e2, u, 1)
            if v not in x.replace(u, "") and x not in rhs:
                rhs.append(x)
            if len(rhs) == 2:
                break
        if len(rhs) < 2:
            raise Bail("rhs")
        c = self.fresh("ck")
        out = self.emit(f"{c} = (op.Cast({i}, to=7) == {r.choice([0, 1, 1, 2])})", e2, indent)
        e3, e4 = dict(e2), dict(e2)
        a = self.emit(f"{v} = {rhs[0]}", e3, indent + 1)
        b = self.emit(f"{v} = {rhs[1]}", e4, indent + 1)
        # a second variable updated (and read) in both branches keeps the If from being refused for lack of outputs
        try:
            w, _ = self.pick(e2, lambda q: q.dtype.kind in "fi", writable=True)
            if w != v:
                a += self.emit(f"{w} = {self.expr_like(e3, w, 1)}", e3, indent + 1)
                b += self.emit(f"{w} = {self.expr_like(e4, w, 1)}", e4, indent + 1)
                e2[w] = e4[w]
                self.must_use.append(w)
        except Bail:
            pass
        out += ["    " * indent + f"if {c}:"] + a + ["    " * indent + "else:"] + b
        e2[v] = e4[v]
        self.feat.add("loop_if_kills_live_out")
        return out

    def _rebind_carried_to_outer(self, env, e2, carried, indent):
        """`v = w` inside a loop body where v is loop state and w was computed BEFORE the loop (and is not itself loop state):
        the iteration ends with v bound to a value of the enclosing scope, which the body must hand out as a copy."""
        r = self.rng
        for v in carried:
            outer = [n for n in self.tensors(env) if n not in carried and n != v and n in e2 and e2[n] is env[n]
                     and env[n].a.dtype == e2[v].a.dtype and env[n].a.shape == e2[v].a.shape]
            if outer:
                w = r.choice(sorted(outer))
                self.feat.add("loop_state_rebound_to_outer_value")
                return self.emit(f"{v} = {w}", e2, indent)
        return []

    def st_while(self, env, indent, depth):
        r = self.rng
        names = sorted(n for n in self.tensors(env) if n not in self.readonly)
        carried = list(dict.fromkeys(r.choice(names) for _ in range(r.choice([1, 2, 3, 4]))))
        cnt, cond = self.fresh("cnt"), self.fresh("go")
        limit = r.choice([0, 1, 2, 3])
        self.readonly.update([cnt, cond])
        out = self.emit(f"{cnt} = op.Constant(value_int=0)", env, indent)
        extra = ""
        if r.random() < 0.5:
            extra = f" & {self.scalar_cond(env, rank0=True)}"
        out += self.emit(f"{cond} = ({cnt} < {limit}){extra}", env, indent)
        if env[cond].a.size != 1:
            raise Bail("cond shape")
        e2 = dict(env)
        body = []
        late = None
        if limit >= 2 and not extra and self.rare(0.6):
            # a variable that is only loop-carried: read at the top of the body, updated by an `if` (or an inner `for`) at the
            # END of the body, never read again in that iteration and dead after the loop — only the back edge keeps it live
            fl = [w for w in carried if env[w].a.dtype.kind == "f"]
            if fl:
                acc = fl[0]
                sv = self.fresh("s")
                out += self.emit(f"{sv} = op.Identity({acc})", env, indent)
                e2 = dict(env)
                body += self.emit(f"{acc} = ({acc} + {sv})", e2, indent + 1)
                late = (acc, sv, r.choice(["if", "if", "for"]))
        for w in carried:
            body += self.st_assign_like(e2, indent + 1, target=w)
        if late is None and self.rare(0.3):
            body += self._rebind_carried_to_outer(env, e2, carried, indent + 1)
        if late is not None:
            acc, sv, how = late
            if how == "if":
                ck = self.fresh("ck")
                body += self.emit(f"{ck} = ({cnt} == {r.choice([0, 0, 1])})", e2, indent + 1)
                e3 = dict(e2)
                inner = self.emit(f"{sv} = ({sv} * {r.choice(['2.0', '0.5', '-1.0'])})", e3, indent + 2)
                inner += self.emit(f"{acc} = ({acc} + 1.0)", e3, indent + 2)
                body += ["    " * (indent + 1) + f"if {ck}:"] + inner
            else:
                j = self.fresh("j")
                e3 = dict(e2)
                inner = self.emit(f"{sv} = ({acc} * 0.5)", e3, indent + 2)
                inner += self.emit(f"{acc} = ({acc} + 1.0)", e3, indent + 2)
                body += ["    " * (indent + 1) + f"for {j} in range(2):"] + inner
            self.feat.add("while_late_update_of_carried_only_variable")
            self.must_use.append(acc)
        body += self.emit(f"{cnt} = {cnt} + 1", e2, indent + 1)
        extra2 = f" & {self.scalar_cond(e2, rank0=True)}" if extra else ""
        body += self.emit(f"{cond} = ({cnt} < {limit}){extra2}", e2, indent + 1)
        if e2[cond].a.shape != env[cond].a.shape:
            raise Bail("cond shape drift")
        out += ["    " * indent + f"while {cond}:"] + body
        if late is not None:
            env.pop(late[1], None)      # dead after the loop
        self.feat.add("while_loop")
        self.must_use.append(carried[-1])
        return out

    def rare(self, p):
        """a rare structural form: taken with probability p, or almost always in a program generated with a focus (the
        focused programs are a fixed share of every run, so that these forms occur at every seed)"""
        x = self.rng.random()
        return x < (0.9 if getattr(self, "focus", None) else p)

    def block(self, env, indent, depth, n, allow_loops=True):
        out = []
        r = self.rng
        tries = 0
        made = 0
        while made < n and tries < n * 8:
            tries += 1
            kinds = ["assign"] * 5 + ["newtype"] * 3
            if depth <= self.depth_limit - 1:
                kinds += ["if"] * 3
                if allow_loops:
                    kinds += ["for"] * 2 + ["while"]
            k = r.choice(kinds)
            fk = getattr(self, "focus", None)
            if fk in ("for", "while") and depth == 0 and allow_loops and made >= 1 and not getattr(self, "_focus_done", False) and tries <= n * 4:
                k = fk              # the focused statement kind, once, after at least one ordinary statement
            snap = dict(env)
            feat = set(self.feat)
            try:
                if k == "assign":
                    out += self.st_assign_like(env, indent)
                elif k == "newtype":
                    out += self.st_new_type(env, indent)
                elif k == "if":
                    out += self.st_if(env, indent, depth)
                elif k == "for":
                    out += self.st_for(env, indent, depth)
                else:
                    out += self.st_while(env, indent, depth)
                made += 1
                if k == getattr(self, "focus", None) and depth == 0:
                    self._focus_done = True
            except Bail:
                env.clear()
                env.update(snap)
                self.feat = feat
        return out


def gen_helper(rng, idx):
    """A small straight-line script function FLOAT/INT64 -> same type, with an optional attribute."""
    dtn = rng.choice(["FLOAT", "FLOAT", "INT64"])
    an = "s"
    pyt = "float" if dtn == "FLOAT" else "int"
    default = rng.choice([2.0, 0.5]) if pyt == "float" else rng.choice([2, 3])
    with_default = rng.random() < 0.6
    name = f"helper{idx}"
    body = rng.choice([f"return a * {an} + 1", f"t = op.Abs(a)\n    return t + {an}", f"return op.Add(a, {an}) - a * 2"])
    sig = f"def {name}(a: {dtn}[...], {an}: {pyt}{' = ' + repr(default) if with_default else ''}) -> {dtn}[...]:"
    src = f"@script(default_opset=op)\n{sig}\n    {body}\n"
    g = ref_globals()
    exec(strip_imports(src), g)  # noqa: S102
    fn = g[name]
    if not with_default:
        return {"name": name, "in": [dtn], "attr": (an, pyt, default), "fn": (lambda a, s=default, _f=fn: _f(a, s)),
                "src": src, "needs_attr": True}
    return {"name": name, "in": [dtn], "attr": (an, pyt, default), "fn": fn, "src": src, "needs_attr": False}


def generate(rng, n_stmts=6, focus=None):
    helpers = [gen_helper(rng, i) for i in range(rng.choice([0, 0, 1, 2]))]
    helpers = [h for h in helpers if not h["needs_attr"]] + [h for h in helpers if h["needs_attr"]]
    g = G(rng, helpers=helpers)
    g.focus = focus
    g.suffix_names = rng.random() < 0.2
    if g.suffix_names:
        g.feat.add("suffix_like_names")
    p = Prog()
    # parameters
    nparams = rng.choice([1, 2, 2, 3])
    base_shape = tuple(rng.choice([1, 2, 3]) for _ in range(rng.choice([0, 1, 2, 2, 3])))
    sig = []
    for k in range(nparams):
        dtn = rng.choice(["FLOAT", "FLOAT", "FLOAT", "INT64", "DOUBLE", "INT32", "BOOL"]) if k else rng.choice(["FLOAT", "FLOAT", "INT64", "DOUBLE"])
        shape = base_shape if rng.random() < 0.7 else tuple(rng.choice([1, 2, 3]) for _ in range(rng.choice([0, 1, 2])))
        name = f"x{k}" if not g.suffix_names else ["x", "x_0", "x_1"][k]
        if dtn == "INT64" and rng.random() < 0.3:
            shape = ()
        p.params.append((name, dtn, shape))
        a = example(rng, dtn, shape)
        if dtn == "INT64" and shape == ():
            a = np.array(rng.choice([0, 1, 2, 3]), dtype=np.int64)
        g.env[name] = RT(a)
        ann = dtn if shape == () else f"{dtn}[{', '.join(['None'] * len(shape))}]"
        sig.append(f"{name}: {ann}")
    g.params = p.params
    nattr = rng.choice([0, 0, 1, 2])
    defaults_flags = sorted([rng.random() < 0.5 for _ in range(nattr)])
    for k in range(nattr):
        pyt = rng.choice(["float", "int", "int", "bool"])
        name = f"a{k}"
        default = rng.choice([0.5, 2.0, -1.0]) if pyt == "float" else (rng.choice([0, 1, 2, 3]) if pyt == "int" else rng.choice([True, False]))
        has_default = defaults_flags[k]
        value = default if rng.random() < 0.5 else (rng.choice([1.5, -0.5]) if pyt == "float" else (rng.choice([1, 2, 4]) if pyt == "int" else
                                                                                                   rng.choice([True, False])))
        p.attrs.append((name, pyt, default if has_default else None, value))
        g.env[name] = value
        g.attr_names.append((name, pyt, value))
        sig.append(f"{name}: {pyt}" + (f" = {default!r}" if has_default else ""))
        g.feat.add("attr_with_default" if has_default else "attr_without_default")
    body = g.block(g.env, 1, 0, n_stmts)
    if not body:
        raise Bail("empty program")
    # returns
    tens = sorted(g.tensors())
    computed = [t for t in tens if t not in [q[0] for q in p.params]]
    if not computed:
        raise Bail("nothing computed")
    nret = rng.choice([1, 1, 2, 3])
    must = [m for m in dict.fromkeys(reversed(g.must_use)) if m in g.env][:3]
    rets = list(must) + [rng.choice(computed) for _ in range(max(0, nret - len(must)))]
    if not rets:
        rets = [rng.choice(computed)]
    r = rng.random()
    if r < 0.12:
        rets.append(rng.choice([q[0] for q in p.params]))
        g.feat.add("return_param_unchanged")
    elif r < 0.22 and rets:
        rets.append(rets[0])
        g.feat.add("return_same_value_twice")
    elif r < 0.35:
        rets[-1] = g.expr_like(g.env, rets[-1], 1)
        g.feat.add("return_expression")
    def _ann(x):
        a = eval(x, g.env).a  # noqa: S307
        return tyname(a) if a.ndim == 0 else f"{tyname(a)}[{', '.join(['None'] * a.ndim)}]"

    ann = [_ann(x) for x in rets]
    rann = ann[0] if len(ann) == 1 else f"Tuple[{', '.join(ann)}]"
    src = HEADER + "".join(h["src"] + "\n" for h in helpers)
    src += "@script(default_opset=op)\n" + f"def main({', '.join(sig)}) -> {rann}:\n" + "\n".join(body) + f"\n    return {', '.join(rets)}\n"
    p.src = src
    p.features = set(g.feat)
    p.n_returns = len(rets)
    p.helpers = [h["name"] for h in helpers]
    return p


def generate_special(rng):
    """Comparison-centric programs run on special float values (NaN, +-inf, +-0, ties): everything in them is defined by
    IEEE-754 in the same way for numpy, ONNX operators, and Python operators on tensors (comparisons with NaN are False,
    != is True), so the four readings must agree exactly.  No arithmetic whose NaN handling runtimes may choose freely
    (Max/Min/Relu/Clip/reductions/Cast to int) is used."""
    p = Prog()
    dtn = rng.choice(["FLOAT", "FLOAT", "DOUBLE"])
    n = rng.choice([6, 8])
    p.params = [("x0", dtn, (n,)), ("x1", dtn, (n,)), ("x2", dtn, ())]
    ops = ["({a} <= {b})", "({a} >= {b})", "({a} < {b})", "({a} > {b})", "({a} == {b})",
           "op.LessOrEqual({a}, {b})", "op.GreaterOrEqual({a}, {b})", "op.Less({a}, {b})", "op.Greater({a}, {b})", "op.Equal({a}, {b})"]
    two = rng.sample(ops[:5], 2)          # operator forms always present (they are what Tensor.__le__ etc. implement)
    c0 = two[0].format(a="x0", b="x1")
    c1 = two[1].format(a="x1", b="x0")
    c2 = rng.choice(ops).format(a="x0", b=rng.choice(["0.0", "1.0", "x2"]))
    scal = rng.choice(["(x2 <= 1.0)", "(x2 >= 0.0)", "(x2 < 0.5)", "(x2 > -1.0)", "(x2 == x2)"])
    comb = rng.choice(["(c0 & c1)", "(c0 | c2)", "op.Not(c1)", "(op.Not(c0) & c2)"])
    body = [f"    c0 = {c0}", f"    c1 = {c1}", f"    c2 = {c2}", f"    m = {comb}",
            "    w = op.Where(c0, x0, x1)",
            f"    if {scal}:", "        r = op.Where(c1, x0 + 1.0, x1)", "        k = op.Not(m)",
            "    else:", "        r = op.Where(c2, x1, x0 - 1.0)", "        k = (m & c2)",
            "    v = op.Where(k, w, r)"]
    rann = f"Tuple[BOOL[None], BOOL[None], {dtn}[None], {dtn}[None]]"
    p.src = HEADER + "@script(default_opset=op)\n" + f"def main(x0: {dtn}[None], x1: {dtn}[None], x2: {dtn}) -> {rann}:\n" + "\n".join(body) + "\n    return m, k, w, v\n"
    p.features = {"special_values", "if_else", "comparison_operators"}
    p.n_returns = 4
    p.helpers = []
    d = np.dtype(DT[dtn])
    pool = [np.nan, np.inf, -np.inf, 0.0, -0.0, 1.0, -1.0, 0.5, 1.0, 2.0]
    sets = []
    for k in range(3):
        a = np.array([rng.choice(pool) for _ in range(n)], dtype=d)
        b = np.array([rng.choice(pool) for _ in range(n)], dtype=d)
        a[0], b[0] = np.nan, 1.0          # NaN against a number, a number against NaN, NaN against NaN, a tie, +-0
        a[1], b[1] = 1.0, np.nan
        a[2], b[2] = np.nan, np.nan
        a[3], b[3] = 1.0, 1.0
        a[4], b[4] = 0.0, -0.0
        c = np.array([np.nan, 0.75, np.inf][k], dtype=d)
        sets.append([a, b, c])
    p.special_inputs = sets
    return p


def run_reference(src, params_values, attr_values, main="main"):
    """Execute the numpy reading. Returns list of np arrays. Raises on undefined inputs."""
    g = ref_globals()
    refsem.STEPS[0] = 0
    refsem.MAXMAG[0] = 0.0
    exec(strip_imports(src), g)  # noqa: S102
    args = [RT(v) for v in params_values]
    out = g[main](*args, **attr_values)
    out = out if isinstance(out, tuple) else (out,)
    return [refsem.unwrap(o) for o in out]
