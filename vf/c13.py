"""C13 — ONNX -> Python (proto2python / export2python) -> ONNX round-trips to an equivalent model.

Per model M (from a generated script function, or a generated ONNX DAG) and each of the 16 option combinations:
export2python -> ast.parse -> import of the text as a scratch module -> the script function (or make_model(...) when
skip_initializers emitted it, called with the original initializer values) -> to_model_proto -> same graph I/O
(count, order, element types, shapes; names where Python can spell them and rename is off) -> same outputs on ORT for 3 inputs.
"""
from __future__ import annotations

import importlib.util
import linecache
import os
import sys

import numpy as np

from . import c13_classify as K
from . import c13_gen as G
from . import c13_pipe as P
from . import common, runner

PID = "C13"
LEVEL = "exploration"
RULE = ("models: (i) to_model_proto() and to_function_proto() of generated script functions, one per structural stratum "
        f"({len(G.SCRIPT_STRATA)} strata: straight-line, literals, multi-output ops, if/else (nested, two outputs), for with "
        "tensor/literal bound and carried state, use of the loop index, while with recomputed condition, for+break, nesting depth 2, "
        "two loops, call of another script function, attribute parameters); (ii) typed ONNX DAGs built with onnx.helper "
        f"({len(G.DAG_STRATA)} strata: initializers small / >4 elements (float, int8, int64), If (nested, with initializer), Loop in "
        "for / while / for+cond form, nesting, omitted optional inputs, attribute kinds, constants nan/inf/negative/0-d/1-d/empty/"
        "size>4/int8/double/bool/uint8/float16/string, value_* constants, name stress: dotted, leading digit, keywords, names that "
        "collide after clean-up, names shadowing the generated imports, names equal to attribute names, v<N> names, dotted graph "
        f"I/O, multi-output ops, no graph inputs, literal FLOAT attributes without a short decimal spelling (tiny / subnormal / huge / 1/3-like) observed bit-exactly, graph inputs and outputs with a zero-sized dimension); (iii) {len(G.OUTSIDE_STRATA)} models outside the class (sequence values / "
        "sequence outputs, Scan, sparse initializer, graph attribute on another op). Every model passes onnx.checker (full) and runs "
        "on ORT on 3 inputs before use; every DAG with graph inputs is additionally exported as a FunctionProto (main graph as "
        "function body, initializers as Constant nodes) so that rename=True is exercised past the signature. All 16 (rename, "
        "use_operators, inline_const, skip_initializers) combinations per model; quick = 2 rounds over all strata, thorough = 42. "
        "non-trivial = model for which at least one option combination reached the value comparison; distinct = (stratum, "
        "digest of the serialized model)")
ASSUMPTIONS = [
    "ONNX Runtime (optimisations off) on the original model defines the expected outputs; onnx.reference may only dispute",
    "export2python's documented signature: (model_onnx, function_name=None, *, rename, use_operators, inline_const, skip_initializers)",
    "skip_initializers: the generated make_model(...) is called with the original values of the initializers with more than "
    "4 elements, in the exporter's traversal order",
    "graph input/output *names* are demanded only with rename=False and only for names that are Python identifiers unchanged by "
    "clean-up; value names inside the graph are free",
    "outside the class any exception with a non-empty message is acceptable; text that is returned must parse, and if it executes "
    "must be equivalent",
]
ANCHORS = [
    "onnxscript.backend.onnx_export:export2python",
    "onnxscript.backend.onnx_export:_Exporter._translate_graph",
    "onnxscript.backend.onnx_export:_Exporter._translate_function",
    "onnxscript.backend.onnx_export:_Exporter._translate_graph_body",
    "onnxscript.backend.onnx_export:_Exporter._translate_node",
    "onnxscript.backend.onnx_export:_Exporter._translate_if",
    "onnxscript.backend.onnx_export:_Exporter._translate_loop",
    "onnxscript.backend.onnx_export:_Exporter._translate_attributes",
    "onnxscript.backend.onnx_export:_Exporter._translate_onnx_var",
    "onnxscript.backend.onnx_export:_Exporter._substitute_initializers",
    "onnxscript.backend.onnx_export:_cleanup_variable_name",
    "onnxscript.backend.onnx_export:_get_const_repr",
    "onnxscript.backend.onnx_export:_attribute_value",
]
TIMEOUT = 600.0


def thresholds(tier):
    m = 2 if tier == "quick" else 25
    return {"models_used": 20 * m, "pipelines": 350 * m, "reached_value": 150 * m, "roundtrip_equivalent": 150 * m,
            "export:if": 150 * m, "export:loop_while": 100 * m, "export:loop_for": 40 * m, "export:inline_const": 700 * m,
            "export:operator_form": 1000 * m, "export:make_model": 6 * m, "export:function": 150 * m, "function_protos": 10 * m,
            "opt0000:roundtrip_equivalent": 15 * m, "opt0110:roundtrip_equivalent": 15 * m, "opt1000:roundtrip_equivalent": 8 * m,
            "opt0001:roundtrip_equivalent": 8 * m, "opt1111:roundtrip_equivalent": 8 * m,
            "anchor:onnxscript.backend.onnx_export:_Exporter._translate_node": 8000 * m,
            "anchor:onnxscript.backend.onnx_export:_Exporter._translate_if": 170 * m,
            "anchor:onnxscript.backend.onnx_export:_Exporter._translate_loop": 200 * m,
            "distinct_nontrivial": 19 * m}


def cases(tier, seed):
    out = []
    rounds = 2 if tier == "quick" else 42
    for rd in range(rounds):
        for s in G.SCRIPT_STRATA:
            out.append({"kind": "script", "stratum": s, "seed": [seed, rd]})
        for s in G.DAG_STRATA:
            out.append({"kind": "dag", "stratum": s, "seed": [seed, rd]})
        if rd % 8 == 0:
            for s in G.OUTSIDE_STRATA:
                out.append({"kind": "outside", "stratum": s, "seed": [seed, rd]})
    return out


# ------------------------------------------------------------------ monitors
_mon = {"tag": None, "events": None}


def _hit(name, n=1):
    ev = _mon["events"]
    if ev is not None:
        ev[name] = ev.get(name, 0) + n
        if _mon["tag"]:
            k = f"opt{_mon['tag']}:{name}"
            ev[k] = ev.get(k, 0) + n


def worker_init():
    from onnxscript.backend import onnx_export

    from . import probes

    E = onnx_export._Exporter
    probes.wrap_method(E, "_translate_if", after=lambda tok, r, *a, **k: _hit("export:if"))

    def loop_after(tok, r, *a, **k):
        text = r if isinstance(r, str) else ""
        head = [ln.strip() for ln in text.split("\n") if ln.strip().startswith(("for ", "while "))][:1]
        if head and head[0].startswith("while "):
            _hit("export:loop_while")
        elif "if not " in text and "break" in text:
            _hit("export:loop_for_break")
        else:
            _hit("export:loop_for")

    probes.wrap_method(E, "_translate_loop", after=loop_after,
                       on_exc=lambda tok, e, *a, **k: _hit("export:loop_raises"))

    def node_after(tok, r, self, onnx_node, *a, **k):
        node = onnx_node["onnx_node"] if isinstance(onnx_node, dict) else onnx_node
        if node.op_type == "Constant" and r == "" and self.inline_const:
            _hit("export:inline_const")
        elif self.use_operators and isinstance(r, str) and "opset" not in r.split("=", 1)[-1] and node.op_type in (
                "Add", "Sub", "Mul", "MatMul", "Div", "Pow", "And", "Or", "Greater", "Equal", "GreaterOrEqual", "LessOrEqual"):
            _hit("export:operator_form")
        elif node.op_type == "Identity" and r == "":
            _hit("export:identity_suppressed")

    probes.wrap_method(E, "_translate_node", after=node_after)
    probes.wrap_method(E, "_substitute_initializers", after=lambda tok, r, *a, **k: _hit("export:make_model"))
    probes.wrap_method(E, "_translate_function", after=lambda tok, r, *a, **k: _hit("export:function"))


# ------------------------------------------------------------------ building the originals
def _import_script(src):
    d = P._state["dir"] or common.scratch_dir("vf-c13-")
    P._state["dir"] = d
    P._state["n"] += 1
    name = f"vf_c13_src{os.getpid()}_{P._state['n']}"
    path = os.path.join(d, name + ".py")
    with open(path, "w") as f:
        f.write(src)
    spec = importlib.util.spec_from_file_location(name, path)
    mod = importlib.util.module_from_spec(spec)
    sys.modules[name] = mod
    try:
        spec.loader.exec_module(mod)
    finally:
        sys.modules.pop(name, None)
        linecache.cache.pop(path, None)
        try:
            os.unlink(path)
        except OSError:
            pass
    return mod


def _originals(spec):
    """-> list of (label, proto, like_model|None, meta) or raises Discard"""
    from onnx import helper

    rnd = common.rng(PID, spec["kind"], spec["stratum"], *spec["seed"])
    if spec["kind"] == "script":
        prog = G.script_program(spec["stratum"], rnd)
        mod = _import_script(prog["source"])          # generator bug if this fails -> harness error on purpose
        fn = getattr(mod, prog["name"])
        meta = {"stratum": spec["stratum"], "source": "script", "program": prog["source"]}
        out = []
        if prog["function_only"]:
            # typed stand-in for the I/O of the function (attribute parameters have no model form without defaults)
            fp = fn.to_function_proto()
            like = helper.make_model(helper.make_graph(
                [], "like", [helper.make_tensor_value_info(p, 1, [3]) for p, _ in prog["inputs"]],
                [helper.make_tensor_value_info("o", 1, [3])]), opset_imports=[helper.make_opsetid("", 18)], ir_version=8)
            out.append(("function", fp, like, dict(meta, attrs=prog["attrs"])))
            return out
        m = fn.to_model_proto()
        out.append(("model", m, None, meta))
        if not len(m.functions):
            out.append(("function", fn.to_function_proto(), m, meta))
        return out
    if spec["kind"] == "dag":
        m, meta = G.dag_model(spec["stratum"], rnd)
        out = [("model", m, None, meta)]
        if len(m.graph.input):
            out.append(("function", G.model_to_function(m), m, meta))
        return out
    m, meta = G.outside_model(spec["stratum"], rnd)
    return [("model", m, None, meta)]


def _expected(label, proto, like, meta, seed_parts):
    """precondition filter: checker + ORT on 3 inputs -> (ref_model, feeds_list, expected) or (None, reason, None)"""
    import onnx

    if label == "function":
        ref = P.wrap_function(proto, like, attrs=meta.get("attrs"))
    else:
        ref = proto
    msg = runner.checker(ref, full=True)
    if msg:
        return None, "discarded_invalid: " + msg[:200], None
    feeds_list = P.gen_inputs(ref, ["in"] + list(seed_parts))
    names = [v.name for v in ref.graph.input if v.name not in {i.name for i in ref.graph.initializer}]
    exp = []
    try:
        sess = runner.ort_session(ref)
    except Exception as e:
        return None, f"discarded_unrunnable: load: {type(e).__name__}: {e}"[:300], None
    for feeds in feeds_list:
        try:
            out = P.guarded_run(sess, dict(zip(names, feeds)), limit=10.0)
        except P.NonTermination:
            return None, "discarded_unrunnable: original does not terminate (generator bug)", None
        except Exception as e:
            return None, f"discarded_unrunnable: run: {type(e).__name__}: {e}"[:300], None
        exp.append(out)
    return ref, feeds_list, exp


def run_case(spec):
    events, viol = {}, []
    _mon["events"] = events

    def hit(k, n=1):
        events[k] = events.get(k, 0) + n

    try:
        originals = _originals(spec)
    except Exception as e:
        if spec["kind"] == "script":
            # the *original* program is refused by the converter: not this property's subject
            hit("discarded_script_refused")
            return {"status": "discarded_invalid", "events": events, "data": {"why": f"{type(e).__name__}: {e}"[:300]}}
        raise
    sigs, sample, status, discards = [], None, "ok", []
    for label, proto, like, meta in originals:
        outside = meta.get("source") == "outside"
        ref, feeds_list, exp = _expected(label, proto, like, meta, [spec["stratum"], label] + list(spec["seed"]))
        if ref is None:
            hit(feeds_list.split(":")[0])
            status = feeds_list.split(":")[0]
            discards.append(f"{label}: {feeds_list}")
            continue
        hit("models_used")
        if label == "function":
            hit("function_protos")
        results = []
        for o in P.ALL_OPTIONS:
            _mon["tag"] = P.opt_tag(o)
            hit("pipelines")
            try:
                r = P.run_pipeline(proto, o, feeds_list, exp, like_model=like, call_attrs=meta.get("attrs"))
            finally:
                _mon["tag"] = None
            results.append(r)
            hit("stage_reached:" + str(r["stage"]))
            if r["stage"] == "value":
                hit("reached_value")
            if r["ok"]:
                hit("roundtrip_equivalent")
                hit("opt" + P.opt_tag(o) + ":roundtrip_equivalent")
            if r.get("disputed"):
                hit("value_disputed_by_reference")
            if r.get("names_differ"):
                hit("io_names_differ")
        found = K.classify(spec, label, proto, meta, results, outside, hit)
        for key, what, detail in found:
            viol.append({"key": key, "what": what, "detail": detail})
        if any(r["stage"] == "value" for r in results):
            sigs.append(f"{spec['stratum']}:{label}:{common.digest(proto.SerializeToString(), 10)}")
        if sample is None:
            sample = {"kind": spec["kind"], "stratum": spec["stratum"], "proto": label,
                      "nodes": len(proto.graph.node) if label == "model" else len(proto.node),
                      "stages": {P.opt_tag(o): r["stage"] + ("" if r["ok"] else "!") for o, r in zip(P.ALL_OPTIONS, results)}}
    _mon["events"] = None
    return {"status": status, "viol": viol, "events": events, "nontrivial": bool(sigs), "sig": None, "sample": sample,
            "data": {"sigs": sigs, "discards": discards}}


def finalize(ctx):
    for r in ctx.results:
        for s in ((r or {}).get("data") or {}).get("sigs") or []:
            ctx.sigs.add(s)
