"""C20 — saving with external data round-trips and never disturbs the in-memory model.

System under test: onnxscript._framework_apis.torch_2_5.save_model_with_external_data.

Per model (one case): one clean save under the recorder of vf.c20_rec (patched open/file methods/os.* +
sys.addaudithook as ground truth) gives the ordered call list c1..cm.  Then the save is repeated on a
freshly built copy of the model, in a fresh directory, once per k in 1..m with call k raising
OSError(ENOSPC) — for a `write` additionally as a short write (half the data, then the error).  A third
family limits RLIMIT_FSIZE so that the *kernel* fails the write (this reaches numpy's C-level fwrite in
`ndarray.tofile`, which no Python-level patch can fail).  Before/after snapshots are compared whether the
save returned or raised.
"""
from __future__ import annotations

import os

from . import common

PID = "C20"
LEVEL = "fault_enumeration"
RULE = ("per model: clean save under a recorder (patched open/file.write/flush/close/os.replace/rename/makedirs/remove/fsync/dup + "
        "audit hook cross-check) -> call list c1..cm; re-run with call k failing with OSError(ENOSPC) for EVERY k in 1..m, short "
        "write for every write, plus kernel-level failures (RLIMIT_FSIZE at every tensor boundary/mid-point); each run on a freshly "
        "built model in a fresh directory; snapshot (id + sha256 of every initializer const_value incl. subgraphs, structural digest) "
        "compared after; success => ir.load(path) equal; uninitialized initializer => ValueError and zero fs events. Models "
        "stratified: inline-only / threshold 256 B / >1 MB (+padding) / two >1 MB / already-external (other file) / subgraph "
        "initializers / same initializer name in sibling scopes with different payloads / initializers only in If branches (main graph owns none) / "
        "verbose / exotic dtypes+tensor classes / uninitialized main, verbose, subgraph / torch tensors / tied payloads / re-save of a loaded export. "
        "non-trivial = model with >=1 enumerated fault point or a checked refusal; distinct = stratum x tensor classes x path style")
ASSUMPTIONS = [
    "file-system effects of the save go through Python-level open()/file methods/os.* (cross-checked against sys.addaudithook "
    "events for the scratch directory; an audit event no patch saw makes the run inconclusive) or through write(2) on those files "
    "(covered by the RLIMIT_FSIZE family)",
    "after a FAILED save the files on disk are unspecified and are not judged",
    "already-external tensors point at a file other than the destination data file (onnx_ir documents that saving over the "
    "file a tensor is backed by invalidates it)",
    "tensor identity = identity of the initializer's const_value object",
]
ANCHORS = ["onnxscript._framework_apis.torch_2_5:save_model_with_external_data"]
TIMEOUT = 600.0

NQUICK, NTHOROUGH = 12, 150


def EXHAUSTIVE(tier):
    return True


def thresholds(tier):
    # <= 1/5 of what the unchanged tree gives (quick: 12 models / 118 fault points / 267 saves; thorough: 150 / 1408 / 3092)
    q = tier != "thorough"
    return {
        "models": 2 if q else 30,
        "fault_points": 20 if q else 280,
        "faults_fired": 24 if q else 320,
        "snapshots_compared": 50 if q else 600,
        "roundtrips_checked": 3 if q else 40,
        "refusals_checked": 1 if q else 7,
        "rlimit_fired": 20 if q else 230,
        "audit_events": 4 if q else 60,
        "anchor:onnxscript._framework_apis.torch_2_5:save_model_with_external_data": 50 if q else 600,
        "distinct_nontrivial": 2 if q else 30,
    }


# ----------------------------------------------------------------------------- generation
_NUM = ["FLOAT", "DOUBLE", "FLOAT16", "INT8", "UINT8", "INT16", "UINT16", "INT32", "UINT32", "INT64", "UINT64", "BOOL"]
_ISIZE = {"FLOAT": 4, "DOUBLE": 8, "FLOAT16": 2, "INT8": 1, "UINT8": 1, "INT16": 2, "UINT16": 2, "INT32": 4, "UINT32": 4,
          "INT64": 8, "UINT64": 8, "BOOL": 1, "COMPLEX64": 8, "COMPLEX128": 16, "BFLOAT16": 2, "FLOAT8E4M3FN": 1, "FLOAT8E5M2": 1}
PATH_STYLES = ["abs_str", "pathlib", "relative", "nested"]


def _shape_for(r, nelem):
    """A shape with exactly nelem elements (rank 0..3)."""
    if nelem == 1 and r.random() < 0.5:
        return []
    if nelem == 0:
        return r.choice([[0], [0, 3], [2, 0, 4]])
    fs = [d for d in (2, 3, 4, 5, 8) if nelem % d == 0]
    if fs and r.random() < 0.5:
        d = r.choice(fs)
        return [d, nelem // d]
    return [nelem]


def _t(r, name, sizeclass, dtype=None, kind="mem", where="main"):
    dtype = dtype or r.choice(_NUM)
    isz = _ISIZE[dtype]
    if sizeclass == "scalar":
        n = 1
    elif sizeclass == "zero":
        n = 0
    elif sizeclass == "small":          # well below 256 bytes
        n = r.randint(2, max(2, 200 // isz))
    elif sizeclass == "eq256":          # exactly the threshold: stays inline
        n = 256 // isz
    elif sizeclass == "just_above":     # first size that is externalised
        n = 256 // isz + 1
    elif sizeclass == "medium":
        n = r.randint(300, 6000) // isz + 257
    elif sizeclass == "big":            # > 1 MiB: aligned to 64 KiB in the data file
        n = (1048576 + r.randint(1, 70000)) // isz + 1
    else:
        raise ValueError(sizeclass)
    return {"name": name, "dtype": dtype, "shape": _shape_for(r, n), "kind": kind, "where": where, "sizeclass": sizeclass}


def _stratum(name, r):
    """-> model spec of the named stratum; r only picks values inside the stratum."""
    T = []
    verbose = False
    reload = None
    if name == "inline_only":
        for i, sc in enumerate(["scalar", "zero", "small", "eq256", "small", "scalar"]):
            T.append(_t(r, f"w{i}", sc))
    elif name == "threshold":
        for i, sc in enumerate(["eq256", "just_above", "just_above", "small", "medium", "zero", "scalar"]):
            T.append(_t(r, f"w{i}", sc, dtype=("UINT8" if i == 1 else None)))
    elif name == "big_one":
        T = [_t(r, "w0", "small"), _t(r, "w1", "medium"), _t(r, "w2", "big", dtype=r.choice(["FLOAT", "INT8", "DOUBLE"])),
             _t(r, "w3", "just_above"), _t(r, "w4", "zero")]
    elif name == "big_two":
        T = [_t(r, "w0", "big", dtype="FLOAT"), _t(r, "w1", "medium"), _t(r, "w2", "big", dtype=r.choice(["FLOAT16", "INT64"])),
             _t(r, "w3", "medium"), _t(r, "w4", "scalar")]
    elif name == "external_other_file":
        T = [_t(r, "e0", "medium", kind="ext"), _t(r, "e1", "small", kind="ext"), _t(r, "w2", "medium"),
             _t(r, "e3", r.choice(["zero", "scalar"]), kind="ext"), _t(r, "e4", "just_above", kind="ext"), _t(r, "w5", "small")]
        T[4]["file"] = "ext1.bin"
        if r.random() < 0.5:
            T.append(_t(r, "e6", "big", dtype="FLOAT", kind="ext"))
    elif name == "subgraph":
        d1, d2 = r.choice(_NUM[:10]), r.choice(_NUM[:10])
        T = [_t(r, "w0", "medium"), _t(r, "t0", "medium", dtype=d1, where="then"), _t(r, "f0", "small", dtype=d1, where="else"),
             _t(r, "t1", "small", dtype=d2, where="then"), _t(r, "l0", "just_above", where="loop"), _t(r, "l1", "scalar", where="loop"),
             _t(r, "f1", "medium", dtype=d2, where="else", kind=r.choice(["mem", "ext"]))]
    elif name == "verbose":
        verbose = True
        T = [_t(r, "w0", "medium"), _t(r, "w1", "small"), _t(r, "e2", "medium", kind="ext"), _t(r, "w3", "just_above"),
             _t(r, "t0", "medium", dtype="FLOAT", where="then"), _t(r, "w4", r.choice(["big", "medium"]), dtype="FLOAT")]
    elif name == "exotic":
        T = [_t(r, "bf", "medium", dtype="BFLOAT16"), _t(r, "f8", "medium", dtype=r.choice(["FLOAT8E4M3FN", "FLOAT8E5M2"])),
             _t(r, "cx", r.choice(["small", "medium"]), dtype=r.choice(["COMPLEX64", "COMPLEX128"])),
             _t(r, "lz", "medium", dtype="FLOAT", kind="lazy"), _t(r, "pr", "medium", dtype=r.choice(["FLOAT", "INT64", "INT32", "DOUBLE"]), kind="proto"),
             {"name": "pk", "dtype": r.choice(["INT4", "UINT4"]), "shape": [r.choice([700, 701, 1025])], "kind": "packed", "where": "main",
              "sizeclass": "medium"},
             {"name": "pks", "dtype": "UINT4", "shape": [7], "kind": "packed", "where": "main", "sizeclass": "small"},
             {"name": "st", "dtype": "STRING", "shape": [3], "kind": "string", "where": "main", "sizeclass": "small"},
             _t(r, "bo", "medium", dtype="BOOL")]
    elif name == "string_large":
        T = [_t(r, "w0", "medium"),
             {"name": "st", "dtype": "STRING", "shape": [r.randint(120, 300)], "kind": "string", "where": "main", "sizeclass": "medium"}]
    elif name == "tied":
        # initializers with identical dtype, shape and bytes (tied weights, equal scalars): saving must neither merge them
        # in the caller's model nor in the file
        a, c = _t(r, "w0", "medium", dtype="FLOAT"), _t(r, "w2", "scalar", dtype="INT64")
        b = dict(a, name="w1", payload_of="w0")
        d = dict(c, name="w3", payload_of="w2")
        e = _t(r, "w4", r.choice(["small", "just_above"]), dtype="FLOAT")
        f = dict(e, name="w5", payload_of="w4")
        T = [a, _t(r, "w6", "small"), b, c, d, e, f]
    elif name == "scoped_same_names":
        # sibling scopes may reuse a name: the then- and else-branch (and the loop body) each own an initializer called "c"
        # (and "d") with DIFFERENT contents; a save must neither mix them up in the caller's model nor in the files
        d1 = r.choice(_NUM[:10])
        T = [_t(r, "w0", r.choice(["medium", "small"])),
             dict(_t(r, "c", "medium", dtype=d1, where="then"), payload_of="c@then"),
             dict(_t(r, "c", r.choice(["medium", "just_above", "small"]), dtype=d1, where="else"), payload_of="c@else"),
             dict(_t(r, "d", "small", dtype="FLOAT", where="then"), payload_of="d@then"),
             dict(_t(r, "d", "medium", dtype="FLOAT", where="else", kind=r.choice(["mem", "ext"])), payload_of="d@else"),
             dict(_t(r, "c", "just_above", where="loop"), payload_of="c@loop")]
        if r.random() < 0.5:
            T.append(dict(_t(r, "c", "medium"), payload_of="c@main"))     # ... and the main graph as well
    elif name == "subgraph_only":
        # every initializer lives in an If branch; the main graph owns none (in-memory and already-external ones)
        d1 = r.choice(_NUM[:10])
        T = [_t(r, "t0", "medium", dtype=d1, where="then"), _t(r, "f0", r.choice(["medium", "small"]), dtype=d1, where="else"),
             _t(r, "t1", r.choice(["medium", "just_above"]), dtype="FLOAT", where="then", kind="ext"),
             _t(r, "f1", "medium", dtype="FLOAT", where="else", kind=r.choice(["mem", "ext"]))]
    elif name == "uninit_main":
        T = [_t(r, "w0", "medium"), _t(r, "u0", "medium", kind="uninit"), _t(r, "w1", r.choice(["big", "medium"]), dtype="FLOAT"),
             _t(r, "w2", "small")]
        r.shuffle(T)
    elif name == "uninit_main_verbose":
        verbose = True
        T = [_t(r, "u0", "small", kind="uninit"), _t(r, "e0", "medium", kind="ext"), _t(r, "w1", "medium"),
             _t(r, "t0", "medium", dtype="FLOAT", where="then"), _t(r, "u1", "big", dtype="FLOAT", kind="uninit")]
    elif name == "uninit_unconsumed":
        # an uninitialized initializer that no node consumes: only a graph output, or entirely unused
        u = _t(r, "u0", "medium", dtype="FLOAT", kind="uninit")
        u["use"] = r.choice(["dead", "output"])
        T = [_t(r, "w0", "medium"), u, _t(r, "w1", "small")]
    elif name == "uninit_subgraph":
        wh = r.choice(["then", "else", "loop"])
        T = [_t(r, "w0", "medium"), _t(r, "u0", "medium", dtype="FLOAT", kind="uninit", where=wh), _t(r, "w1", "small")]
    elif name in ("reload_same_name", "reload_other_name", "reload_same_dir"):
        # re-save of a model that was loaded from an earlier export: every large initializer is already external; with
        # small_mem the in-memory ones all stay below the externalisation threshold, otherwise one large in-memory tensor is added
        T = [_t(r, "w0", "medium"), _t(r, "w1", "small"), _t(r, "w2", r.choice(["big", "medium"]), dtype="FLOAT"),
             _t(r, "w3", "just_above"), _t(r, "w4", "scalar"), _t(r, "t0", "medium", dtype="FLOAT", where="then")]
        reload = name[len("reload_"):]
    elif name == "torch":
        T = [_t(r, "p0", "medium", dtype="FLOAT", kind="torch"), _t(r, "p1", "small", dtype="INT64", kind="torch"),
             _t(r, "p2", "just_above", dtype=r.choice(["FLOAT16", "BFLOAT16", "DOUBLE"]), kind="torch"),
             _t(r, "p3", r.choice(["big", "medium"]), dtype="FLOAT", kind="torch"), _t(r, "p4", "scalar", dtype="BOOL", kind="torch")]
    else:
        raise ValueError(name)
    return {"stratum": name, "tensors": T, "verbose": verbose, "path_style": r.choice(PATH_STYLES),
            "preexisting": r.random() < 0.35 and reload != "same_dir", **({"reload": reload} if reload else {}),
            # the destination's extension selects the serialization format (ir.save / ir.load infer it from the path)
            "ext": r.choice([".onnx", ".onnx", ".onnx", ".textproto", ".json"])}


STRATA = ["inline_only", "threshold", "big_one", "big_two", "external_other_file", "subgraph", "verbose", "exotic",
          "uninit_main", "uninit_main_verbose", "uninit_subgraph", "uninit_unconsumed", "torch", "tied",
          "reload_same_name", "reload_other_name", "scoped_same_names", "subgraph_only"]
# "reload_same_dir" (saving over the very data file that backs the model's own external tensors) is deliberately NOT generated:
# onnx_ir invalidates tensors whose backing file is overwritten, and the property sentence does not say what "still backed by
# their original data" means when the destination IS the original data (see ASSUMPTIONS)
EXTRA_STRATA = ["string_large"]


def _free(r, i):
    """Thorough tier: free mixture of features."""
    n = r.randint(1, 9)
    T = []
    for j in range(n):
        sc = r.choice(["scalar", "zero", "small", "eq256", "just_above", "medium", "medium", "big" if r.random() < 0.3 else "medium"])
        kind = r.choice(["mem", "mem", "mem", "ext", "lazy", "proto"])
        where = r.choice(["main", "main", "main", "then", "else", "loop"])
        dt = r.choice(_NUM + ["BFLOAT16", "COMPLEX64"])
        if kind == "proto":
            dt = r.choice(["FLOAT", "INT64", "INT32", "DOUBLE", "UINT8", "FLOAT16"])
        T.append(_t(r, f"w{j}", sc, dtype=dt, kind=kind, where=where))
    # then/else pairs must agree in dtype position-wise (If typing); keep it simple: one dtype for all branch tensors
    bd = r.choice(_NUM[:10])
    for t in T:
        if t["where"] in ("then", "else"):
            nel = 1
            for d in t["shape"]:
                nel *= d
            t.update(_t(r, t["name"], t["sizeclass"], dtype=bd, kind=("mem" if t["kind"] == "proto" else t["kind"]), where=t["where"]))
    if r.random() < 0.15:
        T.insert(r.randint(0, len(T)), _t(r, "u0", r.choice(["small", "medium"]), kind="uninit"))
    return {"stratum": "free", "tensors": T, "verbose": r.random() < 0.25, "path_style": r.choice(PATH_STYLES),
            "preexisting": r.random() < 0.3}


def cases(tier, seed):
    out = []
    names = STRATA if tier != "thorough" else None
    if tier != "thorough":
        for i, nm in enumerate(STRATA):
            out.append({"id": f"{nm}#0", "model": _stratum(nm, common.rng(PID, seed, nm, 0))})
        return out
    i = 0
    reps = 8
    for rep in range(reps):
        for nm in STRATA + (EXTRA_STRATA if rep < 2 else []):
            if nm == "torch" and rep >= 4:
                continue
            out.append({"id": f"{nm}#{rep}", "model": _stratum(nm, common.rng(PID, seed, nm, rep))})
    while len(out) < NTHOROUGH:
        out.append({"id": f"free#{i}", "model": _free(common.rng(PID, seed, "free", i), i)})
        i += 1
    return out


# ----------------------------------------------------------------------------- execution
def _sig(ms):
    cls = sorted({f"{t['kind']}:{t['dtype']}:{t.get('sizeclass')}:{t.get('where', 'main')}" for t in ms["tensors"]})
    return f"{ms['stratum']}|v{int(ms['verbose'])}|{ms['path_style']}|pre{int(ms['preexisting'])}|" + common.digest(cls, 10)


class _Run:
    """One save of a freshly built model in a fresh directory."""

    def __init__(self, ms, root, tag):
        from . import c20_models as M

        self.M = M
        self.ms = ms
        self.dir = os.path.join(root, tag)
        os.makedirs(self.dir)
        self.src = os.path.join(self.dir, "src")
        self.model = M.build(ms, self.src)
        style = ms["path_style"]
        self.cwd = None
        if style == "nested":
            out = os.path.join(self.dir, "out", "a", "b")
        else:
            out = os.path.join(self.dir, "out")
        self.fname = "model" + ms.get("ext", ".onnx")
        if ms.get("reload"):
            # the model under test is one that was LOADED from an earlier export (written with onnx_ir directly, not with the
            # function under test): its large initializers are ExternalTensors located in '<name>.data' next to that export
            import onnx_ir as ir

            first = os.path.join(self.dir, "first")
            os.makedirs(first)
            name1 = self.fname if ms["reload"] in ("same_name", "same_dir") else "earlier" + ms.get("ext", ".onnx")
            ir.save(self.model, os.path.join(first, name1), external_data=name1 + ".data")
            self.model = ir.load(os.path.join(first, name1))
            if ms["reload"] == "same_dir":
                out = first
        os.makedirs(out, exist_ok=True)
        self.abs_path = os.path.join(out, self.fname)
        if style == "pathlib":
            import pathlib

            self.arg = pathlib.Path(self.abs_path)
        elif style == "relative":
            self.cwd = out
            self.arg = self.fname
        else:
            self.arg = self.abs_path
        if ms.get("preexisting"):
            with open(self.abs_path, "wb") as f:
                f.write(b"stale model file")
            with open(self.abs_path + ".data", "wb") as f:
                f.write(b"stale data " * 50)
        self.out_dir = out
        self.listing = self._listing()
        self.before = M.snapshot(self.model, intrusive=False)

    def _listing(self):
        import hashlib

        d = {}
        for nm in os.listdir(self.out_dir):
            p = os.path.join(self.out_dir, nm)
            if os.path.isfile(p):
                with open(p, "rb") as f:
                    d[nm] = hashlib.sha256(f.read()).hexdigest()
        return d

    def save(self, recorder=None, fsize=None):
        """-> (exception or None)."""
        import io
        import resource
        import sys

        from onnxscript._framework_apis import torch_2_5

        old_cwd = os.getcwd()
        old_err, old_out = sys.stderr, sys.stdout
        buf = io.StringIO()
        exc = None
        old_lim = None
        try:
            if self.cwd:
                os.chdir(self.cwd)
            sys.stderr = sys.stdout = buf        # tqdm writes its bar here; keeps the protocol/stderr files out of the experiment
            if fsize is not None:
                old_lim = resource.getrlimit(resource.RLIMIT_FSIZE)
                resource.setrlimit(resource.RLIMIT_FSIZE, (fsize, old_lim[1]))
            try:
                if recorder is not None:
                    with recorder:
                        torch_2_5.save_model_with_external_data(self.model, self.arg, verbose=self.ms["verbose"])
                else:
                    torch_2_5.save_model_with_external_data(self.model, self.arg, verbose=self.ms["verbose"])
            except BaseException as e:  # noqa: BLE001 - classified by the caller
                if isinstance(e, (KeyboardInterrupt, SystemExit)):
                    raise
                exc = e
        finally:
            if old_lim is not None:
                resource.setrlimit(resource.RLIMIT_FSIZE, old_lim)
            sys.stderr, sys.stdout = old_err, old_out
            os.chdir(old_cwd)
        return exc

    def diff(self):
        try:
            after = self.M.snapshot(self.model, intrusive=True)
        except Exception as e:  # a tensor that can no longer produce its bytes is itself a difference
            return [("bytes", f"snapshot after the save fails: {type(e).__name__}: {str(e)[:200]}")]
        return self.M.diff_snapshots(self.before, after)

    def roundtrip(self):
        import onnx_ir as ir

        if not os.path.isfile(self.abs_path):
            return [("missing_model_file", f"{os.path.basename(self.abs_path)} was not written")]
        out = []
        now = self._listing()
        sib = [nm for nm, h in now.items() if nm != os.path.basename(self.abs_path) and self.listing.get(nm) != h]
        if not sib:
            out.append(("missing_data_file", f"no sibling data file was written next to the model (directory: {sorted(now)})"))
        try:
            loaded = ir.load(self.abs_path)
            out.extend(self.M.compare_loaded(self.model, loaded))
        except Exception as e:
            out.append(("load_error", f"ir.load of the saved model fails: {type(e).__name__}: {str(e)[:300]}"))
        return out

    def cleanup(self):
        import shutil

        self.model = None
        shutil.rmtree(self.dir, ignore_errors=True)


def _tensor_classes(ms):
    return "+".join(sorted({t["kind"] for t in ms["tensors"]}))


def run_case(spec):
    from . import c20_rec

    ms = spec["model"]
    root = common.scratch_dir("vf-c20-")
    viol, events = [], {}

    def hit(k, n=1):
        events[k] = events.get(k, 0) + n

    def v(key, what, **detail):
        if not any(x["key"] == key for x in viol):
            viol.append({"key": key, "what": what, "detail": detail})

    uninit = [t for t in ms["tensors"] if t["kind"] == "uninit"]
    uninit_where = "none" if not uninit else ("main" if any(t.get("where", "main") == "main" for t in uninit) else "subgraph")
    hit("models")
    desc = f"stratum={ms['stratum']} tensors={[(t['name'], t['kind'], t['dtype'], t['shape'], t.get('where', 'main')) for t in ms['tensors']]}"

    # ---- clean run
    run = _Run(ms, root, "clean")
    rec = c20_rec.Recorder(run.dir)
    exc = run.save(rec)
    hit("clean_runs")
    calls = rec.calls
    hit("audit_events", len(rec.audit))
    unmatched = rec.audit_unmatched()
    if unmatched:
        hit("audit_unmatched", len(unmatched))
    un2 = rec.patched_unaudited()
    if un2:
        hit("patched_unaudited", len(un2))
    d = run.diff()
    hit("snapshots_compared")
    for kind, what in d:
        v(f"kind=model_changed;aspect={kind};after=clean_save;tensors={_tensor_classes(ms)}",
          f"in-memory model differs after a clean save ({'raised ' + type(exc).__name__ if exc else 'returned'}): {what}; {desc}")
    sample = {"id": spec["id"], "stratum": ms["stratum"], "verbose": ms["verbose"], "path_style": ms["path_style"],
              "calls": [f"{c['op']}({c['path']}{',' + str(c['nbytes']) if c.get('nbytes') is not None else ''})" for c in calls][:60],
              "m": len(calls)}
    if uninit:
        hit("refusals_checked")
        if exc is None:
            v(f"kind=uninit_not_refused;where={uninit_where}",
              f"model with an uninitialized initializer ({uninit[0]['name']} in the {uninit[0].get('where', 'main')} graph) is saved "
              f"without error ({len(calls)} file-system calls: {sample['calls'][:4]}...); {desc}")
        elif not isinstance(exc, ValueError):
            v(f"kind=uninit_wrong_exception;where={uninit_where};exc={type(exc).__name__}",
              f"uninitialized initializer refused with {type(exc).__name__}: {str(exc)[:200]} instead of ValueError; {desc}")
        if exc is not None and (calls or rec.audit):
            v(f"kind=uninit_wrote_before_refusing;where={uninit_where}",
              f"{len(calls)} file-system call(s) / {len(rec.audit)} audit event(s) happened before the refusal: {sample['calls'][:5]}; {desc}")
        if exc is not None and not calls:
            hit("refusals_clean")
        sample["refused"] = type(exc).__name__ if exc else None
        if exc is not None or not calls:
            run.cleanup()
            return {"status": "ok", "viol": viol, "events": events, "sig": _sig(ms), "nontrivial": True, "sample": sample,
                    "data": {"unmatched": unmatched}}
        # not refused: fall through and enumerate the faults of the save that does happen
    clean_ok = exc is None
    if exc is not None and not uninit:
        v(f"kind=clean_save_raised;exc={type(exc).__name__};tensors={_tensor_classes(ms)}",
          f"save without any injected fault raises {type(exc).__name__}: {str(exc)[:200]}; {desc}")
    if clean_ok and not uninit:
        hit("roundtrips_checked")
        for kind, what in run.roundtrip():
            v(f"kind=roundtrip;aspect={kind};tensors={_tensor_classes(ms)}", f"after a successful save: {what}; {desc}")
    # sizes for the kernel-level family
    data_size = os.path.getsize(run.abs_path + ".data") if os.path.isfile(run.abs_path + ".data") else 0
    model_size = os.path.getsize(run.abs_path) if os.path.isfile(run.abs_path) else 0
    regions = []
    if clean_ok:
        try:
            import onnx_ir as ir

            for g in run.M.all_graphs(ir.load(run.abs_path)):
                for val in g.initializers.values():
                    t = val.const_value
                    if isinstance(t, ir.ExternalTensor) and t.length:
                        regions.append((t.offset or 0, t.length))
        except Exception:
            pass
    run.cleanup()

    # ---- fault enumeration over the recorded call sequence (exhaustive)
    m = len(calls)
    hit("fault_points", m)
    plan = []
    for c in calls:
        plan.append((c["i"], "enospc"))
        if c["op"] == "write":
            plan.append((c["i"], "short"))
    ops_seen = {}
    for k, mode in plan:
        ref = calls[k - 1]
        r2 = _Run(ms, root, f"k{k}{mode}")
        rec2 = c20_rec.Recorder(r2.dir, fault_at=k, mode=mode)
        e2 = r2.save(rec2)
        hit("faulted_runs")
        prefix = [(c["op"], c["path"]) for c in rec2.calls[:k]]
        want = [(c["op"], c["path"]) for c in calls[:k]]
        if rec2.fired is None or prefix != want:
            hit("fault_not_reached_or_sequence_diverged")
            r2.cleanup()
            continue
        hit("faults_fired")
        hit(f"fault_at:{ref['op']}")
        ops_seen[ref["op"]] = ops_seen.get(ref["op"], 0) + 1
        if e2 is None:
            hit("faulted_but_returned")
        else:
            hit("faulted_raised")
            if not isinstance(e2, OSError):
                hit(f"faulted_raised_as:{type(e2).__name__}")
        dd = r2.diff()
        hit("snapshots_compared")
        for kind, what in dd:
            v(f"kind=model_changed;aspect={kind};after=fault_at_{ref['op']};tensors={_tensor_classes(ms)}",
              f"in-memory model differs after the save {'returned' if e2 is None else 'raised ' + type(e2).__name__} with "
              f"{mode} injected at call {k}/{m} {ref['op']}({ref['path']}): {what}; {desc}", k=k, mode=mode)
        if e2 is None and not uninit:
            # the save reported success despite the fault: then the files must be good
            hit("roundtrips_checked")
            for kind, what in r2.roundtrip():
                v(f"kind=fault_swallowed;at={ref['op']};aspect={kind}",
                  f"save returned normally although {ref['op']}({ref['path']}) failed with ENOSPC ({mode}), and the result does not "
                  f"round-trip: {what}; {desc}", k=k, mode=mode)
        r2.cleanup()

    # ---- kernel-level write failures (RLIMIT_FSIZE)
    limits = set()
    if clean_ok and (data_size or model_size):
        limits.update([0, 1])
        for off, ln in regions:
            limits.update([off, off + max(1, ln // 2), off + ln - 1])
        if data_size:
            limits.add(data_size - 1)
        big = max(data_size, model_size)
        small = min(data_size, model_size)
        if big - small > 1:
            limits.add(small + (big - small) // 2)
        limits = {x for x in limits if 0 <= x < big}
        if len(limits) > 24:
            rr = common.rng(PID, "limits", spec["id"])
            keep = {0, 1, data_size - 1} & limits
            rest = sorted(limits - keep)
            rr.shuffle(rest)
            limits = keep | set(rest[: 24 - len(keep)])
    for lim in sorted(limits):
        r3 = _Run(ms, root, f"lim{lim}")
        rec3 = c20_rec.Recorder(r3.dir)   # observe only
        e3 = r3.save(rec3, fsize=lim)
        hit("rlimit_runs")
        if e3 is not None:
            hit("rlimit_fired")
            hit("faulted_raised")
        dd = r3.diff()
        hit("snapshots_compared")
        for kind, what in dd:
            v(f"kind=model_changed;aspect={kind};after=kernel_write_failure;tensors={_tensor_classes(ms)}",
              f"in-memory model differs after the save {'returned' if e3 is None else 'raised ' + type(e3).__name__} with writes "
              f"failing beyond file offset {lim} (RLIMIT_FSIZE): {what}; {desc}", limit=lim)
        if e3 is None and not uninit:
            hit("roundtrips_checked")
            for kind, what in r3.roundtrip():
                v(f"kind=fault_swallowed;at=kernel_write;aspect={kind}",
                  f"save returned normally although write(2) failed beyond offset {lim}, and the result does not round-trip: "
                  f"{what}; {desc}", limit=lim)
        r3.cleanup()
    sample["fault_ops"] = ops_seen
    sample["rlimit_points"] = len(limits)
    return {"status": "ok", "viol": viol, "events": events, "sig": _sig(ms), "nontrivial": m > 0, "sample": sample,
            "data": {"unmatched": unmatched, "m": m}}


def finalize(ctx):
    ms = []
    for spec, r in zip(ctx.specs, ctx.results):
        dd = r.get("data") or {}
        if dd.get("unmatched"):
            ctx.inconclusive.append(f"audit hook saw file-system events the patches did not ({spec['id']}): {dd['unmatched'][:3]} "
                                    f"- the fault enumeration is not exhaustive for that model")
        if "m" in dd:
            ms.append(dd["m"])
    nr = ctx.events.get("fault_not_reached_or_sequence_diverged", 0)
    if nr > max(2, ctx.events.get("faulted_runs", 0) // 50):
        ctx.inconclusive.append(f"{nr} faulted re-runs did not reach the planned call (non-deterministic call sequence)")
    if ms:
        ctx.extra["fault_points_per_model"] = {"min": min(ms), "max": max(ms), "total": sum(ms)}
