"""C02 — every proto the converter emits is well-formed; bad programs are refused."""
from __future__ import annotations

import re
import traceback

import numpy as np
import onnx

from . import c01, common, compare, runner, scriptgen, wellformed

PID = "C02"
LEVEL = "exploration"
RULE = ("accepted side: the C01 program generator (typed grammar, control flow nested <=2, helpers, attributes); for each accepted "
        "program the FunctionProto and ModelProto (and those of its helper functions) go through onnx.checker (full check for "
        "models) and the independent walker (single definition across ALL nested subgraphs, definition before use, no shadowing, "
        "subgraph outputs produced inside, distinct outputs, no input returned directly, one import per used domain). near-miss "
        "side: one mutation per class per program (undefined variable on a path, return inside a branch/loop, nested function with "
        "shadowing, with/try/del/augmented/chained assignment, for over a list, tuple for-target, break not last, chained "
        "comparison, non-name while condition, wrong unpacking arity, two default-domain opsets): must be refused at decoration with "
        "an exception carrying the source position, or else be accepted, well-formed and agree with the Python reading. "
        "non-trivial = accepted program with control flow, or a near-miss; distinct = feature set x mutation class")
ASSUMPTIONS = [
    "onnx.checker of the installed onnx and the independent walker (vf/wellformed.py, written against the ONNX IR spec) define well-formedness",
    "'carrying the source position' = the exception message contains a line number of the decorated function; demanded only of "
    "exceptions raised from onnxscript code",
    "a near-miss the converter legitimately resolves (accepted, well-formed, faithful) is not a violation",
]
ANCHORS = [
    "onnxscript._internal.converter:Converter._generate_unique_name",
    "onnxscript._internal.converter:Converter._translate_return_stmt",
    "onnxscript._internal.converter:Converter._translate_block",
    "onnxscript._internal.irbuilder:IRFunction.append_node",
    "onnxscript._internal.values:OnnxFunction._to_model_proto",
    "onnxscript._internal.converter:Converter._fail",
]
TIMEOUT = 600.0
BATCH = 8


def thresholds(tier):
    return {"accepted": 80, "protos_checked": 200, "near_miss": 200, "near_miss_refused": 100, "multi_opset_accepted": 200, "multi_opset_wellformed": 50,
            "anchor:onnxscript._internal.converter:Converter._translate_block": 100}


def cases(tier, seed):
    n = 6000 if tier == "thorough" else 320
    out = [{"first": i, "n": BATCH, "seed": seed} for i in range(0, n, BATCH)]
    # fixed family: functions written against different standard opsets (enumerated, the same at every seed)
    from . import c02_multi

    k = len(c02_multi.programs())
    out += [{"multi": True, "first": i, "n": 48, "seed": seed} for i in range(0, k, 48)]
    return out


# ------------------------------------------------------------------ near-miss mutations (text level)
def _body_lines(src):
    head, body = c01._split_main(src)
    return head, body


def _first_tensor_param(p):
    return p.params[0][0]


def mutations(p, rng):
    """-> list of (class, mutated source).  Every mutation is inserted right before the final return of main."""
    head, body = _body_lines(c01._drop_return_annotation(p.src))
    ret_i = max(i for i, l in enumerate(body) if l.startswith("    return "))
    x = _first_tensor_param(p)
    pre, ret, post = body[:ret_i], body[ret_i], body[ret_i + 1:]

    def prog(ins, new_ret=None):
        return "\n".join(head + pre + ["    " + l for l in ins] + [new_ret or ret] + post) + "\n"

    cond = f"zc = op.ReduceSum(op.Cast({x}, to=1), keepdims=0) > 0.0"
    out = [
        ("undefined_on_one_path", prog([cond, "if zc:", f"    zz = op.Identity({x})", "zy = op.Identity(zz)"], "    return zy")),
        ("return_in_branch", prog([cond, "if zc:", f"    return {x}"])),
        ("return_in_loop", prog(["for zi in range(2):", f"    return {x}"])),
        ("nested_function_shadowing", prog(["def inner(a):", f"    {x} = a + a", f"    return {x}", f"zq = inner({x})"], "    return zq")),
        ("with_statement", prog([f"with {x}:", f"    zq = op.Identity({x})"])),
        ("try_statement", prog(["try:", f"    zq = op.Identity({x})", "except Exception:", f"    zq = {x}"])),
        ("del_statement", prog([f"zq = op.Identity({x})", "del zq"])),
        ("augmented_assignment", prog([f"zq = op.Identity({x})", "zq += zq"], "    return zq")),
        ("chained_assignment", prog([f"zq = zr = op.Identity({x})"], "    return zq, zr")),
        ("for_over_list", prog(["for zi in [0, 1]:", f"    zq = op.Identity({x})"])),
        ("for_tuple_target", prog(["for zi, zj in range(2):", f"    zq = op.Identity({x})"])),
        ("break_not_last", prog([f"zq = op.Identity({x})", "for zi in range(2):", f"    zb = op.ReduceSum(op.Cast({x}, to=1), keepdims=0) > 0.0",
                                 "    if zb:", "        break", "    zq = op.Identity(zq)"], "    return zq")),
        ("chained_comparison", prog([f"zq = 0 < op.Cast({x}, to=1) < 1"], "    return zq")),
        ("while_non_name_condition", prog([f"zq = op.Cast({x}, to=1)", "while op.ReduceSum(zq, keepdims=0) < 0.0:", "    zq = zq + 1.0"], "    return zq")),
        ("wrong_unpack_arity", prog([f"za, zb, zd = op.TopK(op.Reshape(op.Cast({x}, to=1), [-1]), [1])"], "    return za")),
        ("lambda_expression", prog([f"zf = lambda a: a + 1", f"zq = zf({x})"], "    return zq")),
        ("list_comprehension", prog([f"zq = [op.Identity({x}) for zi in range(2)]"], "    return zq[0]")),
        ("global_statement", prog(["global op", f"zq = op.Identity({x})"], "    return zq")),
        ("two_default_domain_opsets", prog([f"zq = op15.Identity({x})", "zr = op.Identity(zq)"], "    return zr").replace(
            "from onnxscript.onnx_opset import opset18 as op", "from onnxscript.onnx_opset import opset18 as op\nfrom onnxscript.onnx_opset import opset15 as op15")),
    ]
    return out


# ------------------------------------------------------------------ well-formedness of emitted protos
def check_protos(f, mod, p, hit, tag):
    """-> list of (stage, message)"""
    errs = []
    fns = [("main", f)] + [(h, getattr(mod, h)) for h in getattr(p, "helpers", []) if hasattr(mod, h)]
    for name, fn in fns:
        try:
            fp = fn.to_function_proto()
        except Exception as e:
            errs.append(("to_function_proto_raises", f"{name}: {type(e).__name__}: {str(e)[:200]}"))
            continue
        hit("protos_checked")
        try:
            onnx.checker.check_function(fp)
        except Exception as e:
            errs.append(("function_checker", f"{name}: {str(e)[:300]}"))
        w = wellformed.check_function(fp, strict_global=True, require_subgraph_outputs_produced=True)
        if w:
            errs.append(("function_walker", f"{name}: {w[0]}"))
    # model form
    try:
        mp = f.to_model_proto()
    except ValueError as e:
        if "required attributes" in str(e):
            hit("model_form_refused_required_attrs")
            return errs
        errs.append(("to_model_proto_raises", f"{type(e).__name__}: {str(e)[:200]}"))
        return errs
    except Exception as e:
        errs.append(("to_model_proto_raises", f"{type(e).__name__}: {str(e)[:200]}"))
        return errs
    hit("protos_checked")
    try:
        onnx.checker.check_model(mp, full_check=True)
    except Exception as e:
        try:
            onnx.checker.check_model(mp, full_check=False)
            # the whole message: nested subgraphs prefix the cause with one "(op_type:If ...)" frame per level, and the
            # mechanism signature is read off the innermost cause
            errs.append(("model_checker_full", str(e)[:3000]))
        except Exception as e2:
            errs.append(("model_checker", str(e2)[:300]))
    w = wellformed.check_model(mp, strict_global=True, forbid_input_as_output=True, require_subgraph_outputs_produced=True)
    if w:
        errs.append(("model_walker", w[0]))
    return errs


_SIGS = [
    ("castlike_below_opset_15", r"No Op registered for CastLike with domain_version of (9|1[0-4])\b"),
    ("function_opset_incompatible", r"Opset import for domain\s+in function op \w+\s*is not compatible with the version imported by model"),
    ("attr_ref_in_main_graph", r"Attribute 'value_\w+' expect|ref_attr_name|attribute.*reference|Attribute.*refer"),
    ("missing_opset_import", r"No opset import for domain|is used but not imported"),
    ("if_output_type_mismatch", r"op_type:If[^\n]*Mismatched type"),
    ("loop_output_mismatch", r"\(op_type:Loop, node name: \w+\): \[(Shape|Type)InferenceError\] (Inferred shape and existing shape differ|Input \d+ expected to have type|Mismatched|Inferred elem type)"),
    ("duplicate_output", r"duplicate output|duplicate graph output|has been used as output names multiple times|used as graph output|defined twice"),
    ("output_is_outer_value", r"outer-scope value, not produced|not produced by a node of that subgraph"),
    ("input_returned", r"returned directly"),
    ("redefines_outer", r"redefines an outer-scope"),
    ("use_before_def", r"not defined before use|not output of any previous|topolog"),
    ("type_inference", r"TypeInferenceError|ShapeInferenceError|InferenceError"),
    ("no_op_registered", r"No Op registered"),
]


def sig(msg):
    for name, pat in _SIGS:
        if re.search(pat, msg):
            return name
    m = re.sub(r"[0-9]+", "N", msg)
    return re.sub(r"[^A-Za-z]+", "_", m)[:40]


def one_program(seed, i):
    rng = common.rng(PID, "prog", seed, i)
    ev, viol, sigs = {}, [], []

    def hit(k, n=1):
        ev[k] = ev.get(k, 0) + n

    try:
        p = scriptgen.generate(rng, n_stmts=rng.choice([3, 5, 8]))
    except scriptgen.Bail:
        return {"events": {"gen_bail": 1}, "viol": [], "sigs": []}
    hit("generated")
    accepted = False
    try:
        mod = c01.load_program(p.src, f"c02_{seed}_{i}")
        f = mod.main
        accepted = True
    except Exception as e:
        hit("refused")
        msg = str(e)
        if not re.search(r"line \d+", msg) and _from_onnxscript(e):
            viol.append({"key": f"refusal_without_position;exc={type(e).__name__}", "what": f"refusal of a grammar program carries no source position: {msg[:200]}",
                         "detail": {"src": p.src}})
    if accepted:
        hit("accepted")
        for stage, msg in check_protos(f, mod, p, hit, f"{seed}_{i}"):
            cf = [x for x in c01.syn_features(p.src) if x in ("if", "for", "while", "helper_call", "alias_in_block", "return_dup", "return_param")]
            err = sig(msg)
            if "alias_in_block" in cf and err in ("loop_output_mismatch", "type_inference", "if_output_type_mismatch"):
                # an alias assignment inside a branch leaves If outputs untyped; whichever node consumes them next complains
                err = "alias_untyped_outputs"
            viol.append({"key": f"accepted;stage={stage};err={err}", "what": f"accepted program, {stage}: {msg[:300]}",
                         "detail": {"src": p.src, "features": sorted(p.features), "cf": cf}})
        if {"if_else", "if_only", "for_loop", "while_loop"} & p.features:
            sigs.append("acc|" + "|".join(sorted(p.features)))
    # near-misses (all classes in thorough; a rotating third in quick)
    muts = mutations(p, rng)
    if common.tier() != "thorough":
        muts = [m for k, m in enumerate(muts) if (k + i) % 3 == 0]
    for cls, src in muts:
        hit("near_miss")
        try:
            compile(src, "<near-miss>", "exec")
        except SyntaxError:
            hit("near_miss_not_python")   # e.g. `break` outside a loop: a generator matter, not the converter's
            continue
        try:
            mod2 = c01.load_program(src, f"c02m_{seed}_{i}_{cls}")
            f2 = mod2.main
        except Exception as e:
            hit("near_miss_refused")
            hit("refused:" + cls)
            msg = str(e)
            if _from_onnxscript(e) and not re.search(r"line \d+", msg):
                viol.append({"key": f"refusal_without_position;class={cls};exc={type(e).__name__}",
                             "what": f"near-miss '{cls}' is refused by {type(e).__name__} without a source position: {msg[:200]}",
                             "detail": {"src": src[-600:]}})
            sigs.append("nm|" + cls + "|refused")
            continue
        hit("near_miss_accepted")
        hit("accepted:" + cls)
        sigs.append("nm|" + cls + "|accepted")
        pm = scriptgen.Prog()
        pm.src, pm.params, pm.attrs, pm.helpers, pm.features = src, p.params, p.attrs, getattr(p, "helpers", []), p.features
        errs = check_protos(f2, mod2, pm, hit, f"m_{seed}_{i}_{cls}")
        for stage, msg in errs:
            viol.append({"key": f"near_miss_accepted_malformed;class={cls};stage={stage};err={sig(msg)}",
                         "what": f"near-miss '{cls}' is accepted and yields a malformed proto ({stage}): {msg[:300]}",
                         "detail": {"src": src[-700:]}})
        if not errs:
            _faithful(f2, pm, cls, rng, viol, hit)
    return {"events": ev, "viol": viol, "sigs": sigs,
            "sample": {"program": i, "features": sorted(p.features)[:12], "accepted": accepted} if accepted else None}


def _from_onnxscript(e):
    tb = traceback.extract_tb(e.__traceback__)
    return any("/onnxscript/" in fr.filename for fr in tb)


def _faithful(f2, pm, cls, rng, viol, hit):
    """An accepted near-miss must still compute what the Python reading computes (2 inputs)."""
    names = [q[0] for q in pm.params]
    attrs = {a[0]: a[3] for a in pm.attrs}
    try:
        fp = f2.to_function_proto()
    except Exception:
        return
    for style in ("mixed", "small"):
        vals = [scriptgen.example(rng, dtn, shape, style) if not (dtn == "INT64" and shape == ()) else np.array(rng.choice([0, 1, 2]), dtype=np.int64)
                for (_, dtn, shape) in pm.params]
        try:
            ref = scriptgen.run_reference(pm.src, vals, attrs)
        except Exception:
            hit("near_miss_python_reading_undefined")
            continue
        try:
            cm = c01.call_model(fp, [], list(zip(names, vals)), attrs, len(ref), fp.opset_import)
            st, o = runner.ort_run(cm, dict(zip(names, vals)))
        except Exception:
            continue
        if st != "ok":
            hit("near_miss_graph_unrunnable")
            continue
        hit("near_miss_compared")
        d = compare.compare_outputs(ref, o, scale=64.0)
        if d:
            viol.append({"key": f"near_miss_accepted_unfaithful;class={cls}", "what": f"near-miss '{cls}' is accepted but the graph differs from the Python reading: {d}",
                         "detail": {"src": pm.src[-700:]}})
            return


def run_multi(spec):
    """the multi-opset family (vf/c02_multi.py): every program is legal, so every one must be accepted and well-formed"""
    import types

    from . import c02_multi

    viol, ev, sigs = [], {}, []

    def hit(k, n=1):
        ev[k] = ev.get(k, 0) + n

    for k, (label, src, helpers) in enumerate(c02_multi.programs()[spec["first"]: spec["first"] + spec["n"]]):
        hit("multi_opset_programs")
        try:
            mod = c01.load_program(src, f"c02m_{spec['seed']}_{spec['first'] + k}")
        except Exception as e:
            viol.append({"key": f"multi_opset_refused;exc={type(e).__name__}", "what": f"legal program with functions on two standard opsets is refused [{label}]: {str(e)[:200]}",
                         "detail": {"src": src, "label": label}})
            continue
        hit("accepted")
        hit("multi_opset_accepted")
        p = types.SimpleNamespace(src=src, helpers=helpers)
        errs = check_protos(mod.main, mod, p, hit, "m")
        if not errs:
            hit("multi_opset_wellformed")
            sigs.append("multi|" + label)
        for stage, msg in errs:
            viol.append({"key": f"accepted;stage={stage};err={sig(msg)}", "what": f"accepted multi-opset program [{label}], {stage}: {msg[:300]}",
                         "detail": {"src": src, "label": label}})
    return {"status": "ok", "viol": viol, "events": ev, "nontrivial": bool(sigs), "sig": None, "sample": None, "data": {"sigs": sigs}}


def run_case(spec):
    if spec.get("multi"):
        return run_multi(spec)
    viol, ev, sigs, sample = [], {}, [], None
    for i in range(spec["first"], spec["first"] + spec["n"]):
        r = one_program(spec["seed"], i)
        for k, v in r["events"].items():
            ev[k] = ev.get(k, 0) + v
        for v in r["viol"]:
            v = dict(v)
            v.setdefault("detail", {})["program"] = i
            viol.append(v)
        sigs.extend(r["sigs"])
        sample = sample or r.get("sample")
    return {"status": "ok", "viol": viol, "events": ev, "nontrivial": bool(sigs), "sig": None, "sample": sample, "data": {"sigs": sigs}}


def finalize(ctx):
    for r in ctx.results:
        for s in ((r.get("data") or {}).get("sigs") or []):
            ctx.sigs.add(s)
    gen, ref = ctx.events.get("generated", 0), ctx.events.get("refused", 0)
    if gen and ref / gen > 0.30:
        ctx.inconclusive.append(f"refusal rate of grammar programs {ref}/{gen} above 30%")
    ctx.extra["near_miss_classes"] = {k.split(":", 1)[1]: v for k, v in ctx.events.items() if k.startswith(("refused:", "accepted:")) and False} or \
        {"refused": {k[8:]: v for k, v in ctx.events.items() if k.startswith("refused:")},
         "accepted": {k[9:]: v for k, v in ctx.events.items() if k.startswith("accepted:")}}
