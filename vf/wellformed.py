"""Independent structural walker over ModelProto / FunctionProto.

Written against the ONNX IR spec; shares no code with onnx.checker or onnx_ir.
`strict_global=True` additionally demands that a value name is defined exactly once
across the graph and *all* nested subgraphs (sibling subgraphs included) — that is the
wording of C02; for optimizer results (C04) only visible-scope uniqueness is demanded
(sibling branches of a valid input model may legitimately reuse names).
"""
from __future__ import annotations

import onnx

AT = onnx.AttributeProto


def _is_schema_op(domain: str, op_type: str) -> bool:
    try:
        return onnx.defs.has(op_type, domain)
    except Exception:
        return False


class Walker:
    def __init__(self, strict_global=False, functions=(), allow_unknown_ops=True):
        self.errors: list[str] = []
        self.strict_global = strict_global
        self.fn_keys = {(f.domain, f.name, getattr(f, "overload", "")) for f in functions}
        self.fn_names = {(f.domain, f.name) for f in functions}
        self.domains_used: set[str] = set()
        self.global_defs: dict[str, str] = {}
        self.allow_unknown_ops = allow_unknown_ops

    def err(self, msg):
        if len(self.errors) < 50:
            self.errors.append(msg)

    def _define(self, name, scope: set, outer: set, where: str, kind: str):
        if name == "":
            return
        if name in scope:
            self.err(f"{where}: name '{name}' defined twice in one graph ({kind})")
        elif name in outer:
            self.err(f"{where}: '{name}' ({kind}) redefines an outer-scope name")
        if self.strict_global:
            if name in self.global_defs and name not in scope and name not in outer:
                self.err(f"{where}: '{name}' ({kind}) also defined in {self.global_defs[name]}")
            self.global_defs.setdefault(name, where)
        scope.add(name)

    def nodes(self, nodes, scope: set, outer: set, where: str):
        for idx, n in enumerate(nodes):
            w = f"{where}/node[{idx}]{n.op_type}"
            for i in n.input:
                if i and i not in scope and i not in outer:
                    self.err(f"{w}: input '{i}' is not defined before use / not visible in scope")
            self.domains_used.add(n.domain if n.domain != "ai.onnx" else "")
            if not _is_schema_op(n.domain, n.op_type):
                key = (n.domain, n.op_type)
                if key not in self.fn_names and not self.allow_unknown_ops:
                    self.err(f"{w}: '{n.domain}::{n.op_type}' is neither a schema op nor a model-local function")
            elif (n.domain, n.op_type) in self.fn_names:
                pass
            for a in n.attribute:
                if a.type == AT.GRAPH or a.HasField("g"):
                    self.graph(a.g, scope | outer, f"{w}.{a.name}")
                for k, g in enumerate(a.graphs):
                    self.graph(g, scope | outer, f"{w}.{a.name}[{k}]")
            outs = [o for o in n.output if o]
            if len(set(outs)) != len(outs):
                self.err(f"{w}: duplicate output names {outs}")
            for o in outs:
                self._define(o, scope, outer, w, "node output")

    def graph(self, g, outer: set, where: str, is_main=False):
        scope: set[str] = set()
        init_names = [t.name for t in g.initializer] + [s.values.name for s in g.sparse_initializer]
        in_names = [i.name for i in g.input]
        if len(set(in_names)) != len(in_names):
            self.err(f"{where}: duplicate graph input names")
        if len(set(init_names)) != len(init_names):
            self.err(f"{where}: duplicate initializer names")
        for nme in in_names:
            self._define(nme, scope, outer, where, "graph input")
        for nme in init_names:
            if nme in scope:  # initializer that is also an input (overridable default) is legal
                continue
            self._define(nme, scope, outer, where, "initializer")
        self.nodes(g.node, scope, outer, where)
        out_names = [o.name for o in g.output]
        if len(set(out_names)) != len(out_names):
            self.err(f"{where}: duplicate graph output names {out_names}")
        produced = {o for n in g.node for o in n.output if o}
        for o in out_names:
            if o not in scope:
                if o in outer:
                    self.err(f"{where}: output '{o}' is an outer-scope value, not produced in this graph")
                else:
                    self.err(f"{where}: output '{o}' is not defined")
        return scope, produced, in_names, init_names, out_names


def check_model(m: onnx.ModelProto, strict_global=False, forbid_input_as_output=False,
                require_subgraph_outputs_produced=False, allow_unknown_ops=False) -> list[str]:
    w = Walker(strict_global, m.functions, allow_unknown_ops)
    scope, produced, in_names, init_names, out_names = w.graph(m.graph, set(), "graph", True)
    if forbid_input_as_output:
        for o in out_names:
            if o in in_names:
                w.err(f"graph: input '{o}' is returned directly as an output")
    if require_subgraph_outputs_produced:
        _subgraph_outputs_produced(m.graph, w, "graph")
    imports = [(o.domain if o.domain != "ai.onnx" else "") for o in m.opset_import]
    _check_imports(w, imports, w.domains_used, "model")
    # functions
    seen = set()
    for f in m.functions:
        key = (f.domain, f.name, getattr(f, "overload", ""))
        if key in seen:
            w.err(f"duplicate function {key}")
        seen.add(key)
        w.errors.extend(check_function(f, functions=m.functions, strict_global=strict_global,
                                       require_subgraph_outputs_produced=require_subgraph_outputs_produced))
    return w.errors


def _check_imports(w, imports, used, where):
    if len(set(imports)) != len(imports):
        w.err(f"{where}: a domain is imported more than once: {sorted(imports)}")
    for d in used:
        if d not in imports:
            w.err(f"{where}: domain '{d}' is used but not imported")


def _subgraph_outputs_produced(g, w, where):
    for idx, n in enumerate(g.node):
        for a in n.attribute:
            subs = ([a.g] if a.HasField("g") else []) + list(a.graphs)
            for sg in subs:
                prod = {o for nn in sg.node for o in nn.output if o}
                for o in sg.output:
                    if o.name not in prod:
                        w.err(f"{where}/node[{idx}]{n.op_type}.{a.name}: subgraph output '{o.name}' is not produced by a node of that subgraph")
                _subgraph_outputs_produced(sg, w, f"{where}/node[{idx}]{n.op_type}.{a.name}")


def check_function(f: onnx.FunctionProto, functions=(), strict_global=False,
                   require_subgraph_outputs_produced=False) -> list[str]:
    w = Walker(strict_global, functions, True)
    where = f"function {f.domain}::{f.name}"
    scope: set[str] = set()
    if len(set(f.input)) != len(f.input):
        w.err(f"{where}: duplicate input names")
    for i in f.input:
        w._define(i, scope, set(), where, "function input")
    w.nodes(f.node, scope, set(), where)
    outs = list(f.output)
    if len(set(outs)) != len(outs):
        w.err(f"{where}: duplicate output names {outs}")
    for o in outs:
        if o not in scope:
            w.err(f"{where}: output '{o}' is not defined")
    imports = [(o.domain if o.domain != "ai.onnx" else "") for o in f.opset_import]
    _check_imports(w, imports, w.domains_used, where)
    if require_subgraph_outputs_produced:
        class _G:  # adapter: a FunctionProto has .node like a graph
            node = f.node
        _subgraph_outputs_produced(_G, w, where)
    return w.errors
