"""C14 — results are deterministic and independent of what the process did before.

One driver child process per (target T, history H, PYTHONHASHSEED): `python -m vf.c14_child` executes H, then T,
and prints sha256(SerializeToString(deterministic=True)) of the result plus the state-snapshot differences around
each operation.  finalize() groups the child outputs per target and demands byte equality:

  * empty history, seed s      vs  empty history, seed 0 (the fresh-process baseline)  -> kind=hashseed
  * history H,     seed s      vs  empty history, same seed s                          -> kind=history

so a hash-seed effect and a history effect can never be confused, and together they give
result(T after H, seed s) == result(T fresh, seed 0).

Sub-checks (run in the worker itself): to_model_proto x5 / to_function_proto x5 byte-equal with the function_ir
digest unchanged; rebind/mutate a module-level constant, a list global, the default-opset alias and a closure
variable after decoration -> protos and eager results unchanged.
"""
from __future__ import annotations

import base64
import hashlib
import json
import os
import re
import subprocess
import sys
import zlib

from . import common
from . import c14_gen as gen

PID = "C14"
LEVEL = "exploration"
RULE = ("targets: generated @script functions with 3..7 names live out of if / for / while / nested forms (plus 1-name "
        "controls), and onnx.helper models for optimize, rewrite (default rules; LayerNorm and RmsNorm fusion rule lists), "
        "fold_constants (one shared FoldConstantsPass object), convert_version (shared ConvertVersionPass objects; targets stratified: no adapter / GridSample / DFT, "
        "nodes named or unnamed) and rewrite with two rule objects that live as long as the process (one with as_function=True); every target also gets a SIBLING "
        "history on the very objects it exercises (same rule object on other models, conversions to the same target version through each adapter, a script that "
        "uses the targets' tensor names as Python constants); "
        "histories: sequences of <=8 operations over {translate accepted/refused, optimize, rewrite firing stateful rules, "
        "rewrite raising inside ReshapeReshape.check, RewriteRule construction raising inside the pattern function, match "
        "whose check() stores rule fields and then fails (6 rules), default_as body raising after set_default, fold, convert "
        "ok/raising}; PYTHONHASHSEED in {0,1,2,3,one pseudo-random value per target}. One child process per triple (thorough: "
        "forked from a per-seed parent right after the imports). Non-trivial = a child whose target produced a result; "
        "distinct = target x history x seed triples. Oracle = byte equality (hash-seed effect and history effect decided "
        "separately).")
ASSUMPTIONS = [
    "a process forked right after `import onnxscript...` is equivalent to a fresh interpreter that finished the same imports "
    "(thorough tier only; the quick tier starts a new interpreter per triple)",
    "the fold_constants / convert_version targets go through one long-lived pass object per process, which is what 'the same "
    "pass objects' in the property sentence is read as",
    "state-snapshot differences are evidence (events), not verdicts: only the serialized result is compared",
]
ANCHORS: list = []
TIMEOUT = 600.0
CHILD_TIMEOUT = 240.0

SEEDS_FIXED = ["0", "1", "2", "3"]
QUICK_MIX = [("script", 9), ("optimize", 5), ("rewrite", 5), ("rewrite_ln", 2), ("rewrite_rms", 3), ("fold", 4), ("convert", 3), ("rewrite_custom", 3)]
THOROUGH_MIX = [("script", 60), ("optimize", 35), ("rewrite", 35), ("rewrite_ln", 10), ("rewrite_rms", 10), ("fold", 25),
                ("convert", 25), ("rewrite_custom", 15)]
POOL = 40


def thresholds(tier):
    # <= 1/5 of what the unchanged tree gives
    if tier == "quick":
        return {"children": 100, "child_results": 100, "compared_hashseed": 12, "compared_history": 90,
                "hist_op_raised": 160, "state:rule_fields": 120, "state:pattern_builder": 35, "state:fold_pass": 20,
                "sub_repeat_scripts": 5, "sub_mutations": 1, "distinct_nontrivial": 100}
    return {"children": 200, "child_results": 2200, "compared_hashseed": 150, "compared_history": 2000,
            "hist_op_raised": 4000, "state:rule_fields": 2500, "state:pattern_builder": 700, "state:fold_pass": 500,
            "sub_repeat_scripts": 10, "sub_mutations": 1, "distinct_nontrivial": 2200}


# --------------------------------------------------------------------------------------------
# case generation
# --------------------------------------------------------------------------------------------

def _target(seed, kind, idx):
    """Pool entry `idx` of target kind `kind` (the pool depends on VERIF_SEED, strata do not)."""
    r = common.rng(PID, seed, "target", kind, idx)
    if kind == "script":
        p = gen.script_target_params(r, idx)
        if idx % 10 == 9:
            p["nlive"] = 1          # control: one live name, set order cannot matter
        t = {"api": "script", "script": p}
        if idx % 10 == 3:
            t["eager"] = True
        return t
    return gen.model_target(r, kind, idx)


def _history(r, length, must=None):
    names = list(gen.HISTORY_OPS)
    ops = [r.choice(names) for _ in range(length)]
    if must:
        for k, m in enumerate(must[:length]):
            ops[k] = m
        r.shuffle(ops)
    return [gen.history_op(r, n) for n in ops]


def _histories(seed, tid, n, k0, target):
    """n non-empty histories for target number k0; every alphabet op appears (rotating) as a singleton or in the long one."""
    r = common.rng(PID, seed, "hist", tid)
    names = list(gen.HISTORY_OPS)
    out = []
    # 1: a long one with 8 distinct ops
    rot = names[k0 % len(names):] + names[:k0 % len(names)]
    out.append(_history(r, 8, must=rot[:8]))
    # 2: a singleton, rotating over the alphabet
    out.append(_history(r, 1, must=[names[(k0 * 3) % len(names)]]))
    # 3: the ops that leave state behind, in a row
    out.append(_history(r, 4, must=["rw_setfail", "rw_check_raise", "pat_raise", "eval_raise"]))
    # 4: other instances of what the target itself exercises (same rule / pass objects)
    out.append(gen.sibling_history(r, target))
    while len(out) < n:
        out.append(_history(r, r.choice([2, 3, 5, 8]), must=[names[(k0 + len(out) * 5) % len(names)]]))
    return out[:n]


def cases(tier, seed):
    specs = []
    if tier == "quick":
        mix, nhist, nseeds, batch = QUICK_MIX, 5, 3, 1
    else:
        mix, nhist, nseeds, batch = THOROUGH_MIX, 40, 5, 10
    k0 = 0
    per_seed_jobs: dict[str, list] = {}
    for kind, count in mix:
        for j in range(count):
            idx = (j + seed * 7) % POOL if tier == "quick" else j % POOL + (POOL * (j // POOL))
            tid = f"{kind}#{idx}"
            target = _target(seed, kind, idx)
            r = common.rng(PID, seed, "plan", tid)
            rnd = str(r.randrange(4, 2 ** 32 - 1))
            others = SEEDS_FIXED[1:] + [rnd]
            if tier == "quick":
                # seed 0 + two of {1,2,3,random}; random is used by every third target
                a = others[k0 % 3]
                b = rnd if k0 % 3 == 0 else others[(k0 + 1) % 3]
                seeds = ["0", a, b] if a != b else ["0", a, others[(k0 + 2) % 3]]
            else:
                seeds = ["0"] + others
            hists = [[]] + _histories(seed, tid, nhist, k0, target)
            if tier == "quick":
                plan = [(hi, s) for hi in range(len(hists)) for s in seeds]
            else:
                # covering sample: every seed with the empty history, every history at >=1 seed, ~60 triples per target
                plan = [(0, s) for s in seeds]
                for hi in range(1, len(hists)):
                    plan.append((hi, seeds[(hi + k0) % len(seeds)]))
                extra = [(hi, s) for hi in range(1, len(hists)) for s in seeds if (hi, s) not in set(plan)]
                r.shuffle(extra)
                plan += extra[:15]
            for hi, s in plan:
                job = {"id": f"{tid}|h{hi}|s{s}", "tid": tid, "hi": hi, "target": target, "history": hists[hi]}
                per_seed_jobs.setdefault(s, []).append(job)
            k0 += 1
    for s in sorted(per_seed_jobs):
        jobs = per_seed_jobs[s]
        for i in range(0, len(jobs), batch):
            specs.append({"kind": "children", "hashseed": s, "fork": batch > 1, "jobs": jobs[i:i + batch]})
    # sub-checks
    nrep = 4 if tier == "quick" else 12
    for i in range(nrep):
        specs.append({"kind": "repeat", "scripts": [_target(seed, "script", (i * 10 + k + seed) % (POOL * 2))["script"]
                                                    for k in range(5)]})
    for variant in ["const", "list", "ndarray", "alias", "closure"]:
        for form in ["rebind", "mutate"] if variant in ("list", "ndarray") else ["rebind"]:
            specs.append({"kind": "mutate", "what": variant, "form": form, "gseed": seed})
    for form in ("to_int", "to_tensor", "to_bool"):
        specs.append({"kind": "mutate", "what": "annot", "form": form, "gseed": seed})
    # interleave long (children) and short cases deterministically: children first is fine for the pool
    return specs


# --------------------------------------------------------------------------------------------
# running children
# --------------------------------------------------------------------------------------------

def run_children(hashseed: str, jobs: list, fork: bool):
    env = dict(os.environ)
    env["PYTHONHASHSEED"] = str(hashseed)
    env["OMP_NUM_THREADS"] = "1"
    pp = [p for p in env.get("PYTHONPATH", "").split(os.pathsep) if p]
    if common.VERIF_DIR not in pp:
        pp.append(common.VERIF_DIR)
    if os.environ.get("VERIF_REPO") and os.environ["VERIF_REPO"] not in pp:
        pp.insert(0, os.environ["VERIF_REPO"])
    env["PYTHONPATH"] = os.pathsep.join(pp)
    req = {"jobs": [{"id": j["id"], "target": j["target"], "history": j["history"]} for j in jobs], "fork": fork}
    try:
        r = subprocess.run([sys.executable, "-m", "vf.c14_child"], input=json.dumps(req), capture_output=True, text=True,
                           env=env, cwd=common.VERIF_DIR, timeout=CHILD_TIMEOUT)
    except subprocess.TimeoutExpired:
        return None, "timeout"
    outs = {}
    for line in r.stdout.splitlines():
        if line.startswith("@@"):
            try:
                d = json.loads(line[2:])
                outs[d["id"]] = d
            except Exception:
                pass
    return outs, (r.stderr or "")[-1500:] if r.returncode != 0 or len(outs) < len(jobs) else ""


def _events_of(outs, events):
    for d in outs.values():
        if d.get("status") == "ok":
            events["child_results"] = events.get("child_results", 0) + 1
        elif d.get("status") == "raised":
            events["target_raised"] = events.get("target_raised", 0) + 1
        for h in d.get("hist") or []:
            events[f"hist:{h['h']}"] = events.get(f"hist:{h['h']}", 0) + 1
            if h["outcome"].startswith("raised"):
                events["hist_op_raised"] = events.get("hist_op_raised", 0) + 1
            for lab in h["diff"]:
                k = "state:" + lab.split(":")[0]
                events[k] = events.get(k, 0) + 1
        for lab in d.get("target_diff") or []:
            k = "target_state:" + lab.split(":")[0]
            events[k] = events.get(k, 0) + 1


def run_case(spec):
    kind = spec["kind"]
    if kind == "children":
        outs, err = run_children(spec["hashseed"], spec["jobs"], spec.get("fork", False))
        if outs is None:
            return {"status": "timeout", "events": {"children": 1}}
        events = {"children": 1}
        _events_of(outs, events)
        slim = []
        for j in spec["jobs"]:
            d = outs.get(j["id"])
            if d is None:
                slim.append({"id": j["id"], "tid": j["tid"], "hi": j["hi"], "seed": spec["hashseed"], "status": "missing",
                             "stderr": err[-400:]})
                continue
            slim.append({"id": j["id"], "tid": j["tid"], "hi": j["hi"], "seed": spec["hashseed"], "status": d.get("status"),
                         "sha": d.get("sha"), "blob": d.get("blob"), "error": d.get("error"),
                         "sha_parts": d.get("sha_parts"),
                         "hist": [[h["h"], h["outcome"], h["diff"]] for h in d.get("hist") or []],
                         "api": j["target"]["api"]})
        nok = sum(1 for s in slim if s["status"] == "ok")
        herr = [s for s in slim if s["status"] == "harness_error"]
        if herr:
            return {"status": "harness_error", "error": f"child harness error: {herr[0].get('error')}", "events": events}
        st = "ok" if nok == len(slim) else ("child_failed" if nok == 0 and any(s["status"] == "missing" for s in slim) else "ok")
        sample = None
        if slim and slim[0].get("hist"):
            sample = {"id": slim[0]["id"], "history": slim[0]["hist"], "sha": slim[0]["sha"]}
        return {"status": st, "viol": [], "events": events, "nontrivial": nok > 0, "sig": None,
                "data": {"outs": slim, "sigs": [s["id"] for s in slim if s["status"] == "ok"]}, "sample": sample}
    if kind == "pair":
        return run_pair(spec)
    if kind == "repeat":
        from . import c14_sub

        return c14_sub.run_repeat(spec)
    if kind == "mutate":
        from . import c14_sub

        return c14_sub.run_mutate(spec)
    raise ValueError(kind)


def run_pair(spec):
    """Re-confirmation of a cross-process finding: run the witness and its reference again and compare."""
    a, _ = run_children(spec["hashseed"], [{"id": "w", "target": spec["target"], "history": spec["history"]}], False)
    b, _ = run_children(spec["ref_hashseed"], [{"id": "r", "target": spec["target"], "history": spec["ref_history"]}], False)
    viol = []
    if a and b and "w" in a and "r" in b:
        if a["w"].get("sha") != b["r"].get("sha"):
            viol.append({"key": spec["key"], "what": spec.get("what", "results differ"), "detail": {
                "witness_sha": a["w"].get("sha"), "reference_sha": b["r"].get("sha")}})
        return {"status": "ok", "viol": viol, "events": {"pair_runs": 1}, "nontrivial": True, "sig": None}
    return {"status": "child_failed", "viol": [], "events": {}, "nontrivial": False, "sig": None}


# --------------------------------------------------------------------------------------------
# classification of a difference
# --------------------------------------------------------------------------------------------

_SUFFIX = re.compile(r"_\d+$")


def _load(blob):
    import onnx

    return onnx.load_from_string(zlib.decompress(base64.b64decode(blob)))


def _base(n):
    return _SUFFIX.sub("", n)


def script_mechanisms(ga, gb, out=None):
    """Walk two translated graphs in parallel; report where If / Loop output *order* differs."""
    out = out if out is not None else []
    if len(ga.node) != len(gb.node):
        out.append("other_node_count")
        return out
    for na, nb in zip(ga.node, gb.node):
        if na.op_type != nb.op_type:
            out.append("other_op_type")
            return out
        if na.op_type in ("If", "Loop"):
            ba, bb = [_base(o) for o in na.output], [_base(o) for o in nb.output]
            if ba != bb:
                if sorted(ba) == sorted(bb):
                    out.append("if_output_order" if na.op_type == "If" else "loop_output_order")
                else:
                    out.append("other_outputs")
                continue        # everything below is renumbered as a consequence
            for aa, ab in zip(na.attribute, nb.attribute):
                if aa.type == 5 and ab.type == 5:
                    script_mechanisms(aa.g, ab.g, out)
    return out


def first_diff_path(a, b, path=""):
    """Coarse path class (no indices, no names) of the first field that differs between two messages."""
    if a.DESCRIPTOR is not b.DESCRIPTOR:
        return path + ":type"
    for fd in a.DESCRIPTOR.fields:
        va, vb = getattr(a, fd.name), getattr(b, fd.name)
        p = f"{path}.{fd.name}" if path else fd.name
        if fd.is_repeated:
            if len(va) != len(vb):
                return p + ":len"
            for xa, xb in zip(va, vb):
                if fd.message_type is not None:
                    if xa != xb:
                        return first_diff_path(xa, xb, p)
                elif xa != xb:
                    return p
        elif fd.message_type is not None:
            if a.HasField(fd.name) != b.HasField(fd.name):
                return p + ":presence"
            if a.HasField(fd.name) and va != vb:
                return first_diff_path(va, vb, p)
        elif va != vb:
            return p
    return path + ":bytes_only"


def classify(api, wa, wb):
    """-> list of mechanism labels for two child outputs of the same target whose sha differ."""
    if wa.get("status") != "ok" or wb.get("status") != "ok":
        sa = wa.get("sha") if wa.get("status") != "ok" else "ok"
        sb = wb.get("sha") if wb.get("status") != "ok" else "ok"
        return [f"outcome:{sa}_vs_{sb}"]
    try:
        ma, mb = _load(wa["blob"]), _load(wb["blob"])
    except Exception:
        return ["unclassified"]
    if ma == mb:
        pa, pb = wa.get("sha_parts") or {}, wb.get("sha_parts") or {}
        diff = sorted(k for k in set(pa) | set(pb) if pa.get(k) != pb.get(k))
        return ["part:" + "+".join(diff)] if diff else ["bytes_only"]
    if api == "script":
        ms = sorted(set(script_mechanisms(ma.graph, mb.graph)))
        return ms or ["other:" + first_diff_path(ma, mb)]
    return ["path=" + first_diff_path(ma, mb)]


# --------------------------------------------------------------------------------------------
# finalize: group per target, compare
# --------------------------------------------------------------------------------------------

MINIMISE_BUDGET = 16


def finalize(ctx):
    by_tid: dict[str, list] = {}
    for spec, r in zip(ctx.specs, ctx.results):
        for s in ((r.get("data") or {}).get("sigs") or []):
            ctx.sigs.add(s)
        if spec.get("kind") != "children":
            continue
        jobs = {j["id"]: j for j in spec["jobs"]}
        for o in ((r.get("data") or {}).get("outs") or []):
            o["_job"] = jobs.get(o["id"])
            by_tid.setdefault(o["tid"], []).append(o)
    if ctx.status.get("timeout") or ctx.status.get("crash"):
        pass  # driver accounts for these
    budget = [MINIMISE_BUDGET]
    missing = 0
    mech_count: dict[str, int] = {}
    leaks: dict[str, int] = {}
    for tid in sorted(by_tid):
        outs = by_tid[tid]
        api = outs[0].get("api") or tid.split("#")[0]
        kind = tid.split("#")[0]
        empties = {o["seed"]: o for o in outs if o["hi"] == 0 and o["status"] in ("ok", "raised")}
        base = empties.get("0")
        if base is None:
            missing += 1
            continue
        for o in outs:
            if o["status"] not in ("ok", "raised"):
                missing += 1
                continue
            # state that an operation of the history left behind (evidence only)
            for h in o.get("hist") or []:
                for lab in h[2]:
                    if lab.startswith(("pattern_builder", "evaluator")):
                        leaks[f"{h[0]}->{lab}"] = leaks.get(f"{h[0]}->{lab}", 0) + 1
            if o is base:
                continue
            if o["hi"] == 0:
                ctx.events["compared_hashseed"] = ctx.events.get("compared_hashseed", 0) + 1
                if o["sha"] != base["sha"]:
                    for mech in classify(api, base, o):
                        key = f"target={kind};kind=hashseed;mech={mech}"
                        mech_count[key] = mech_count.get(key, 0) + 1
                        job = o["_job"]
                        ctx.violation(key, f"{tid}: result under PYTHONHASHSEED={o['seed']} differs from PYTHONHASHSEED=0 "
                                      f"(fresh process, empty history): {mech}; target={json.dumps(job['target'])[:400]}",
                                      {"sha_seed0": base["sha"], "sha": o["sha"], "seed": o["seed"]},
                                      {"kind": "pair", "target": job["target"], "history": [], "hashseed": o["seed"],
                                       "ref_history": [], "ref_hashseed": "0", "key": key})
            else:
                ref = empties.get(o["seed"])
                if ref is None:
                    missing += 1
                    continue
                ctx.events["compared_history"] = ctx.events.get("compared_history", 0) + 1
                if o["sha"] != ref["sha"]:
                    job = o["_job"]
                    hist, hname = _minimise(job, o["seed"], ref["sha"], budget)
                    for mech in classify(api, ref, o):
                        key = f"target={kind};kind=history;hist={hname};mech={mech}"
                        ctx.violation(key, f"{tid}: result after history {[h[0] + ':' + h[1] for h in o['hist']]} differs from the "
                                      f"result of the same target in a fresh process (same hash seed {o['seed']}): {mech}; "
                                      f"responsible={hname}; target={json.dumps(job['target'])[:300]}",
                                      {"sha_fresh": ref["sha"], "sha": o["sha"], "error": o.get("error"),
                                       "minimal_history": hist},
                                      {"kind": "pair", "target": job["target"], "history": hist, "hashseed": o["seed"],
                                       "ref_history": [], "ref_hashseed": o["seed"], "key": key})
    if missing:
        ctx.events["jobs_without_result"] = missing
        total = sum(len(v) for v in by_tid.values())
        if missing > max(3, total // 20):
            ctx.inconclusive.append(f"{missing} of {total} child jobs produced no result")
    ctx.extra["state_left_behind_by_history_ops"] = dict(sorted(leaks.items()))
    ctx.extra["targets"] = len(by_tid)


def _minimise(job, seed, ref_sha, budget):
    """Find a single history operation that alone reproduces the difference (bounded number of extra children)."""
    hist = job["history"]
    if len(hist) <= 1:
        return hist, _hname(hist[0]) if hist else "none"
    if budget[0] <= 0:
        return hist, "unminimised"
    budget[0] -= 1
    jobs = [{"id": f"m{i}", "target": job["target"], "history": [h]} for i, h in enumerate(hist)]
    outs, _ = run_children(seed, jobs, True)
    for i, h in enumerate(hist):
        d = (outs or {}).get(f"m{i}")
        if d and d.get("sha") and d["sha"] != ref_sha:
            return [h], _hname(h)
    return hist, "combination"


def _hname(h):
    return h["h"] + (":" + h["case"] if "case" in h else "")
