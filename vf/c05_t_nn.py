"""C05 templates, part 3: Conv/Pad/BatchNorm/affine/bias families and the rules.fusion package."""
from __future__ import annotations

import numpy as np
from onnx import numpy_helper

from .c05_templates import S, Skip, template


def _f16tol(h, dtype):
    """float16 fusions re-round folded weights: only gross differences are meaningful."""
    if dtype == "float16":
        h.rtol, h.atol = 5e-2, 0.3


def _w(h, shape, dtype="float32", lo=-2, hi=2):
    if np.dtype(dtype).kind in "iu":
        info = np.iinfo(dtype)
        return h.rs.integers(max(info.min, -3), min(info.max, 4), shape).astype(dtype)
    return np.round(h.rs.uniform(lo, hi, shape), 2).astype(dtype)


# ------------------------------------------------------------------------------------------ Conv(Pad(x)) -> Conv
@template("pad_conv")
def t_pad_conv(p):
    op = p["op"]
    integer = op == "ConvInteger"

    def mk(nd=2, pads=None, mode=None, cv="omit", axes=None, conv=None, pads_kind="init", cv_kind="init", opset=18, decl=None,
           dtype=None, tap=None, xzp=None, wzp=None, group=1, alts_pads=None, alts_cv=None):
        def fn(h):
            h.opset = opset
            dt = dtype or ("uint8" if integer else "float32")
            C = 2 * group
            xs = [1 + h.rng.randint(0, 1), C] + [5 + h.rng.randint(0, 2) for _ in range(nd)]
            rank = nd + 2
            dc = decl(xs) if callable(decl) else decl
            x = h.inp(dt, None if dc == "none" else (dc if dc is not None else xs), rt=xs, mag="mod", name="X")
            if pads is None:
                pv = [0, 0] + [1 + (i % 2) for i in range(nd)] + [0, 0] + [2 - (i % 2) for i in range(nd)]
            else:
                pv = list(pads)
            ins = [x, h.operand(np.array(pv, np.int64), pads_kind, alts=[np.array(a, np.int64) for a in (alts_pads or [])])]
            if cv != "omit" or axes is not None:
                ins.append("" if cv == "omit" else h.operand(np.array(cv, dt), cv_kind, alts=[np.array(a, dt) for a in (alts_cv or [])]))
            if axes is not None:
                ins.append(h.operand(np.array(axes, np.int64), "init"))
            pd = h.node("Pad", ins, mode=mode)
            k = 3
            cattrs = dict(conv or {})
            cin = C + (pv[1] + pv[rank + 1] if (axes is None and len(pv) == 2 * rank) else 0)
            wshape = [4 * group, cin // group] + [cattrs.pop("_k", k)] * nd
            wdt = "int8" if (integer and wzp == "int8") else dt
            w = h.operand(_w(h, wshape, wdt), "init", name="W")
            cins = [pd, w]
            if integer:
                if xzp is not None or wzp is not None:
                    cins.append(h.operand(np.array(xzp if xzp is not None else 0, dt), "init", name="xzp"))
                if wzp is not None:
                    cins.append(h.operand(np.array(0 if wzp == "int8" else wzp, wdt), "init", name="wzp"))
            elif cattrs.pop("_bias", False):
                cins.append(h.operand(_w(h, [4 * group], dt), "init", name="Bc"))
            if group != 1:
                cattrs["group"] = group
            y = h.node(op, cins, **cattrs)
            h.out(y)
            if tap:
                h.tap(pd, tap)
        return fn

    ok = "spatial zero padding"
    out = [
        S("basic_2d", ok, mk()), S("basic_1d_opset13", ok, mk(nd=1, opset=13)), S("basic_3d_opset21", ok, mk(nd=3, opset=21)),
        S("cv_zero_explicit", ok, mk(cv=0)), S("mode_constant_explicit", ok, mk(mode="constant")),
        S("conv_has_pads", ok + ";conv has pads", mk(conv={"pads": [1, 0, 2, 1]})),
        S("conv_strides_dilations", ok + ";strides,dilations", mk(conv={"strides": [2, 1], "dilations": [1, 2], "kernel_shape": [3, 3]})),
        S("conv_group2", ok + ";group=2", mk(group=2)),
        S("pads_const_node_sym_batch", ok, mk(pads_kind="const", decl=lambda xs: ["N", xs[1], "H", xs[3]])),
        S("axes_spatial_opset18", ok + ";axes given", mk(pads=[1, 2, 2, 1], axes=[2, 3])),
        S("axes_negative_opset19", ok + ";axes given", mk(pads=[1, 2, 2, 1], axes=[-1, -2], opset=19)),
        S("axes_one_spatial", ok + ";axes given", mk(pads=[2, 1], axes=[3])),
        S("axes_batch", "padding on batch/channel", mk(pads=[1, 0], axes=[0])),
        S("pads_on_channel", "padding on batch/channel", mk(pads=[0, 2, 0, 0, 0, 0, 0, 0], group=1)),
        S("negative_pads", "negative pads", mk(pads=[0, 0, -1, 1, 0, 0, 1, -1])),
        S("zero_pads", "all pads zero", mk(pads=[0] * 8)),
        S("mode_reflect", "mode!=constant", mk(mode="reflect")), S("mode_edge", "mode!=constant", mk(mode="edge")),
        S("cv_nonzero", "constant_value!=0", mk(cv=1 if integer else 0.5)),
        S("conv_auto_pad_same", "conv auto_pad!=NOTSET", mk(conv={"auto_pad": "SAME_UPPER"})),
        S("conv_auto_pad_valid", "conv auto_pad!=NOTSET", mk(conv={"auto_pad": "VALID"})),
        S("conv_auto_pad_notset_explicit", ok + ";auto_pad=NOTSET explicit", mk(conv={"auto_pad": "NOTSET"})),
        S("x_rank_unknown", "x rank unknown", mk(decl="none")),
        S("pads_init_input", "overridable-initializer", mk(pads_kind="init_input", alts_pads=[[0, 0, 2, 2, 0, 0, 0, 1]])),
        S("cv_init_input", "overridable-initializer", mk(cv=0, cv_kind="init_input", alts_cv=[3 if integer else 1.5])),
        S("pads_graph_input", "pads=graph-input", mk(pads_kind="input")),
        S("pad_is_output", "intermediate-is-output", mk(tap="output")), S("pad_has_consumer", "intermediate-has-consumer", mk(tap="consumer")),
    ]
    if integer:
        out += [
            S("x_zero_point_nonzero", "x_zero_point!=0", mk(xzp=5)),
            S("x_zero_point_zero", ok + ";x_zero_point=0", mk(xzp=0)),
            S("x_zero_point_equals_cv", "x_zero_point==constant_value!=0", mk(xzp=5, cv=5)),
            S("w_zero_point", ok + ";w_zero_point", mk(xzp=0, wzp=2)),
            S("int8_x", ok + ";int8", mk(dtype="int8", xzp=0, wzp="int8")),
        ]
    else:
        out += [
            S("with_bias", ok + ";bias", mk(conv={"_bias": True})),
            S("f16", ok + ";float16", mk(dtype="float16")), S("cv_negzero", ok + ";cv=-0.0", mk(cv=-0.0)),
            S("cv_eps", "constant_value~0", mk(cv=1e-9)),
        ]
    return out


# ------------------------------------------------------------------------------------------ auto_pad -> pads
@template("autopad")
def t_autopad(p):
    op = p["op"]
    integer = op == "ConvInteger"

    def mk(auto="SAME_UPPER", nd=2, size=(5, 6), k=3, strides=None, dilations=None, kernel_attr=True, opset=18, decl=None, dtype=None,
           w_kind="init", group=1, pads=None, declare_out=False):
        def fn(h):
            h.opset = opset
            dt = dtype or ("uint8" if integer else "float32")
            C = 2 * group
            xs = [1 + h.rng.randint(0, 1), C] + list(size)[:nd]
            dc = decl(xs) if callable(decl) else decl
            x = h.inp(dt, None if dc == "none" else (dc if dc is not None else xs), rt=xs, mag="mod", name="X")
            ks = [k] * nd if isinstance(k, int) else list(k)
            wshape = [4 * group, C // group] + ks
            if w_kind == "input":
                w = h.inp(dt, wshape, mag="mod", name="W")
            else:
                w = h.operand(_w(h, wshape, dt), w_kind, name="W")
            attrs = {"auto_pad": auto, "strides": strides, "dilations": dilations, "pads": pads}
            if kernel_attr:
                attrs["kernel_shape"] = ks
            if group != 1:
                attrs["group"] = group
            y = h.node(op, [x, w], **attrs)
            h.out(y)
        return fn

    out = []
    for auto in ("SAME_UPPER", "SAME_LOWER"):
        a = auto.split("_")[1].lower()
        out += [
            S(f"{a}_k3_s1", f"{auto};dilations=1", mk(auto)),
            S(f"{a}_k2_s1_even_kernel", f"{auto};dilations=1", mk(auto, k=2)),
            S(f"{a}_k3_s2_odd_even_sizes", f"{auto};dilations=1", mk(auto, strides=[2, 2], size=(5, 6))),
            S(f"{a}_k4_s3", f"{auto};dilations=1", mk(auto, k=4, strides=[3, 3], size=(7, 8))),
            S(f"{a}_k32_s12", f"{auto};dilations=1", mk(auto, k=(3, 2), strides=[1, 2], size=(6, 7))),
            S(f"{a}_no_kernel_attr", f"{auto};dilations=1;kernel_shape absent", mk(auto, kernel_attr=False)),
            S(f"{a}_dil2", f"{auto};dilations>1", mk(auto, dilations=[2, 2], size=(7, 8))),
            S(f"{a}_dil12_s2", f"{auto};dilations>1", mk(auto, dilations=[1, 2], strides=[2, 1], size=(7, 8))),
            S(f"{a}_dil1_explicit", f"{auto};dilations=1", mk(auto, dilations=[1, 1])),
            S(f"{a}_1d_opset13", f"{auto};dilations=1", mk(auto, nd=1, size=(7,), opset=13)),
            S(f"{a}_3d_opset21", f"{auto};dilations=1", mk(auto, nd=3, size=(4, 5, 4), opset=21)),
            S(f"{a}_sym_batch", f"{auto};dilations=1", mk(auto, decl=lambda xs: ["N"] + xs[1:])),
            S(f"{a}_sym_spatial", f"{auto};spatial symbolic", mk(auto, decl=lambda xs: [xs[0], xs[1], "H", xs[3]], size=(5, 6))),
            S(f"{a}_group2", f"{auto};dilations=1", mk(auto, group=2)),
            S(f"{a}_w_graph_input", f"{auto};W graph input", mk(auto, w_kind="input")),
            S(f"{a}_w_graph_input_no_kernel_attr", f"{auto};W graph input;kernel_shape absent", mk(auto, w_kind="input", kernel_attr=False)),
        ]
    out += [
        S("valid_k3", "VALID", mk("VALID")), S("valid_s2_dil2", "VALID", mk("VALID", strides=[2, 2], dilations=[2, 2], size=(7, 8))),
        S("valid_sym_spatial", "VALID;spatial symbolic", mk("VALID", decl=["N", 2, "H", "W"])),
        S("valid_1d", "VALID", mk("VALID", nd=1, size=(7,))),
        S("valid_rank_unknown", "VALID;x rank unknown", mk("VALID", decl="none")),
        S("notset_explicit", "NOTSET", mk("NOTSET", pads=[1, 1, 1, 1])), S("absent", "auto_pad absent", mk(None, pads=[1, 0, 0, 1])),
    ]
    if not integer:
        out += [S("lower_f16", "SAME_LOWER;dilations=1", mk("SAME_LOWER", dtype="float16"))]
    return out


# ------------------------------------------------------------------------------------------ BatchNorm into Conv/ConvT/Gemm
@template("batchnorm")
def t_batchnorm(p):
    op = p["op"]

    def mk(bias=True, eps=None, group=1, nd=2, dtype="float32", opset=18, bn_kind="init", w_kind="init", tap=None, training=None,
           gemm=None, cshape=None, shared_w=False, momentum=None, bn_alts=None, conv=None):
        def fn(h):
            h.opset = opset
            h.scale = 8.0
            _f16tol(h, dtype)
            g = dict(gemm or {})
            if op == "Gemm":
                M, K, N = 3, 4, 5
                x = h.inp(dtype, [K, M] if g.get("transA") else [M, K], mag="mod", name="X")
                wshape = [N, K] if g.get("transB") else [K, N]
                C = N
            else:
                cin = 2 * group
                xs = [2, cin] + [5] * nd
                x = h.inp(dtype, xs, mag="mod", name="X")
                C = 4 * group if op == "Conv" else 3 * group
                wshape = ([C, cin // group] if op == "Conv" else [cin, C // group]) + [3] * nd
            wv = _w(h, wshape, dtype)
            w = h.operand(wv, w_kind, name="W") if w_kind != "input" else h.inp(dtype, wshape, mag="mod", name="W")
            ins = [x, w]
            if bias:
                bs = list(cshape) if cshape is not None else [C]
                ins.append(h.operand(_w(h, bs, dtype), w_kind if w_kind != "input" else "init", name="Bi"))
            attrs = dict(conv or {})
            if op == "Gemm":
                attrs.update({k: v for k, v in g.items()})
            elif group != 1:
                attrs["group"] = group
            y = h.node(op, ins, **attrs)
            sc = np.round(h.rs.uniform(0.5, 2.0, C), 2).astype(dtype)
            bt = np.round(h.rs.uniform(-1, 1, C), 2).astype(dtype)
            mean = np.round(h.rs.uniform(-1, 1, C), 2).astype(dtype)
            var = np.round(h.rs.uniform(0.5, 2.0, C), 2).astype(dtype)
            al = bn_alts
            bn_ins = [y, h.operand(sc, bn_kind, name="scale", alts=[sc * 2] if al else None), h.operand(bt, bn_kind, name="beta"),
                      h.operand(mean, bn_kind, name="mean"), h.operand(var, bn_kind, name="var")]
            if training:
                o = h.node("BatchNormalization", bn_ins, nout=3, epsilon=eps, training_mode=1, momentum=momentum)
                z = o[0]
            else:
                z = h.node("BatchNormalization", bn_ins, epsilon=eps, training_mode=training, momentum=momentum)
            h.out(z)
            if tap:
                h.tap(y, tap)
            if shared_w:
                h.out(h.node("Identity", [w]))
        return fn

    ok = "inference BN;constant params"
    out = [
        S("bias", ok, mk()), S("no_bias", ok + ";no bias", mk(bias=False)),
        S("eps_1e-2", ok + ";epsilon non-default", mk(eps=1e-2)), S("eps_tiny_opset13", ok + ";epsilon non-default", mk(eps=1e-12, opset=13)),
        S("opset15", ok, mk(opset=15)), S("opset21_momentum", ok, mk(opset=21, momentum=0.5)),
        S("training_mode0_explicit", ok + ";training_mode=0 explicit", mk(training=0)),
        S("training_mode1", "training_mode=1", mk(training=1)),
        S("bn_const_nodes", "BN params=Constant nodes", mk(bn_kind="const")),
        S("bn_init_input", "overridable-initializer", mk(bn_kind="init_input", bn_alts=True)),
        S("bn_graph_input", "BN params=graph-input", mk(bn_kind="input")),
        S("w_graph_input", "W=graph-input", mk(w_kind="input")),
        S("w_shared", "W has another consumer", mk(shared_w=True)),
        S("mid_is_output", "intermediate-is-output", mk(tap="output")), S("mid_has_consumer", "intermediate-has-consumer", mk(tap="consumer")),
        S("f16", ok + ";float16", mk(dtype="float16")),
    ]
    if op == "Gemm":
        out.append(S("f64", ok + ";double", mk(dtype="float64")))
        out += [
            S("transB", ok + ";transB=1", mk(gemm={"transB": 1})), S("transA", ok + ";transA=1", mk(gemm={"transA": 1})),
            S("transB0_explicit", ok + ";transB=0 explicit", mk(gemm={"transB": 0})),
            S("alpha2", ok + ";alpha!=1", mk(gemm={"alpha": 2.0})), S("beta_half", "gemm beta!=1", mk(gemm={"beta": 0.5})),
            S("beta_zero", "gemm beta!=1", mk(gemm={"beta": 0.0})), S("alpha_beta", "gemm beta!=1", mk(gemm={"alpha": 0.5, "beta": 2.0, "transB": 1})),
            S("c_scalar", ok + ";C scalar", mk(cshape=())), S("c_1N", ok + ";C=[1,N]", mk(cshape=(1, 5))),
            S("c_MN", ok + ";C=[M,N]", mk(cshape=(3, 5))), S("c_M1", ok + ";C=[M,1]", mk(cshape=(3, 1))),
        ]
    else:
        out += [
            S("group2", ok + ";group=2", mk(group=2)), S("group2_no_bias", ok + ";group=2", mk(group=2, bias=False)),
            S("conv1d", ok, mk(nd=1)), S("conv3d", ok, mk(nd=3)),
            S("strides_pads", ok + ";strides,pads", mk(conv={"strides": [2, 1], "pads": [1, 0, 1, 2]})),
        ]
        if op == "Conv":
            out.append(S("dilations", ok + ";dilations", mk(conv={"dilations": [2, 1]})))
        else:
            out.append(S("output_padding", ok + ";output_padding", mk(conv={"strides": [2, 2], "output_padding": [1, 0]})))
            out.append(S("group3", ok + ";group=3", mk(group=3)))
    return out


# ------------------------------------------------------------------------------------------ Conv + affine
@template("conv_affine")
def t_conv_affine(p):
    order = p["order"]

    def mk(scale=2.0, offset=0.5, sshape=(), oshape=(), kind="init", pads="zeros", conv=None, bias=True, dtype="float32", opset=18,
           tap=None, scale_first=False, offset_first=False, group=1, k=1, alts=None, clash=False, w_kind="init"):
        def fn(h):
            h.opset = opset
            h.scale = 8.0
            _f16tol(h, dtype)
            cin = 2 * group
            x = h.inp(dtype, [2, cin, 5, 6], mag="mod", name="X")
            wv = _w(h, [4 * group, cin // group, k, k], dtype)
            w = h.operand(wv, w_kind, name="Wc") if w_kind != "input" else h.inp(dtype, list(wv.shape), mag="mod", name="Wc")
            b = h.operand(_w(h, [4 * group], dtype), "init", name="Bc") if bias else None
            s = h.operand(np.full(sshape, scale, dtype), kind, name="sc", alts=[np.full(sshape, a, dtype) for a in (alts or [])])
            o = h.operand(np.full(oshape, offset, dtype), kind, name="of")
            attrs = dict(conv or {})
            if group != 1:
                attrs["group"] = group
            if order == "affine_conv":
                if pads == "zeros":
                    attrs["pads"] = [0, 0, 0, 0]
                elif pads is not None:
                    attrs["pads"] = pads
                m = h.node("Mul", [s, x] if scale_first else [x, s])
                a = h.node("Add", [o, m] if offset_first else [m, o])
                y = h.node("Conv", [a, w] + ([b] if b else []), **attrs)
                mid = a
            else:
                if pads not in ("zeros", None):
                    attrs["pads"] = pads
                c = h.node("Conv", [x, w] + ([b] if b else []), **attrs)
                m = h.node("Mul", [s, c] if scale_first else [c, s])
                y = h.node("Add", [o, m] if offset_first else [m, o])
                mid = c
            h.out(y)
            if tap:
                h.tap(mid, tap)
            if clash:
                h.inits.append(numpy_helper.from_array(np.array(100, dtype=dtype), w + "_scaled"))
                other = h.inp(dtype, [2], name="ov")
                h.out(h.node("Add", [other, w + "_scaled"]))
        return fn

    ok = "scalar constants"
    out = [
        S("k1", ok, mk()), S("k3", ok, mk(k=3)), S("k3_strides_dil", ok + ";strides,dilations", mk(k=3, conv={"strides": [2, 1], "dilations": [1, 2]})),
        S("group2", ok + ";group=2", mk(group=2, k=3)), S("scale_shape_1", ok + ";shape [1]", mk(sshape=(1,), oshape=(1,))),
        S("scale_shape_1111", "size-1 constants of rank 4", mk(sshape=(1, 1, 1, 1), oshape=(1, 1, 1, 1))),
        S("negative_scale_zero_offset", ok, mk(scale=-1.5, offset=0.0)), S("scale_zero", ok + ";scale=0", mk(scale=0.0)),
        S("const_nodes_opset13", ok, mk(kind="const", opset=13)), S("opset21", ok, mk(opset=21)),
        S("f16", ok + ";float16", mk(dtype="float16")),
        S("no_bias", "conv without bias", mk(bias=False)),
        S("scale_first", "Mul(scale, x)", mk(scale_first=True)), S("offset_first", "Add(offset, .)", mk(offset_first=True)),
        S("per_channel_scale", "per-channel constants", mk(sshape=(1, 2, 1, 1) if order == "affine_conv" else (1, 4, 1, 1))),
        S("w_graph_input", "W=graph-input", mk(w_kind="input")),
        S("init_input", "overridable-initializer", mk(kind="init_input", alts=[3.0, -1.0])),
        S("graph_input", "constants=graph-input", mk(kind="input", alts=[3.0])),
        S("mid_is_output", "intermediate-is-output", mk(tap="output")), S("mid_has_consumer", "intermediate-has-consumer", mk(tap="consumer")),
        S("initializer_name_clash", "new-initializer-name-exists", mk(clash=True), forms=("inferred", "bare")),
    ]
    if order == "affine_conv":
        out += [
            S("pads_absent", "pads absent", mk(pads=None)), S("pads_nonzero", "pads nonzero", mk(pads=[1, 1, 1, 1], k=3)),
        ]
    else:
        out += [S("pads_nonzero", ok + ";pads nonzero", mk(pads=[1, 0, 2, 1], k=3)),
                S("auto_pad_same", ok + ";auto_pad=SAME_UPPER", mk(conv={"auto_pad": "SAME_UPPER"}, k=3, pads=None))]
    return out


# ------------------------------------------------------------------------------------------ optional zero bias
@template("optional_bias")
def t_optional_bias(p):
    op = p["op"]

    def mk(bval=0.0, kind="init", dtype="float32", opset=18, attrs=None, bshape=None, group=1, alts=None, nd=2, per=None):
        def fn(h):
            h.opset = opset
            h.scale = 4.0
            a = dict(attrs or {})
            if op == "Gemm":
                M, K, N = 3, 4, 5
                x = h.inp(dtype, [K, M] if a.get("transA") else [M, K], mag="mod", name="X")
                w = h.operand(_w(h, [N, K] if a.get("transB") else [K, N], dtype), "init", name="W")
                bs = list(bshape) if bshape is not None else [N]
                bv = np.full(bs, bval, dtype)
                b = h.operand(bv, kind, name="Bz", alts=[np.full(bs, v, dtype) for v in (alts or [])])
                h.out(h.node("Gemm", [x, w, b], **a))
                return
            cin = 2 * group
            if op == "QLinearConv":
                x = h.inp("uint8", [1, cin, 5, 5], name="X")
                C = 4 * group
                w = h.operand(_w(h, [C, cin // group, 3, 3], "uint8"), "init", name="W")
                f = lambda v: h.operand(np.array(v, np.float32), "init")
                z = lambda v: h.operand(np.array(v, np.uint8), "init")
                bv = np.full([C], int(bval), np.int32)
                b = h.operand(bv, kind, name="Bz", alts=[np.full([C], int(v), np.int32) for v in (alts or [])])
                if group != 1:
                    a["group"] = group
                h.out(h.node("QLinearConv", [x, f(0.05), z(3), w, f(0.1), z(2), f(0.2), z(10), b], **a))
                return
            x = h.inp(dtype, [2, cin] + [5] * nd, mag="mod", name="X")
            C = 4 * group if op == "Conv" else 3 * group
            wshape = ([C, cin // group] if op == "Conv" else [cin, C // group]) + [3] * nd
            w = h.operand(_w(h, wshape, dtype), "init", name="W")
            bv = np.full([C], bval, dtype)
            if per is not None:
                bv[per] = 1e-3
            b = h.operand(bv, kind, name="Bz", alts=[np.full([C], v, dtype) for v in (alts or [])])
            if group != 1:
                a["group"] = group
            h.out(h.node(op, [x, w, b], **a))
        return fn

    ok = "bias all zero"
    q = op == "QLinearConv"
    out = [
        S("zero_init", ok, mk()), S("zero_const_node_opset13", ok, mk(kind="const", opset=13)), S("zero_opset21", ok, mk(opset=21)),
        S("zero_init_input", "overridable-initializer", mk(kind="init_input", alts=[1, 2] if q else [1.0, -2.0])),
        S("zero_graph_input", "bias=graph-input", mk(kind="input", alts=[1] if q else [1.0])),
        S("nonzero", "bias nonzero", mk(bval=1 if q else 0.5)),
    ]
    if not q:
        out += [S("negzero", ok + ";-0.0", mk(bval=-0.0)), S("tiny", "bias tiny nonzero", mk(bval=1e-30)),
                S("f16", ok + ";float16", mk(dtype="float16"))]
    if op == "Gemm":
        out += [
            S("f64", ok + ";double", mk(dtype="float64")),
            S("beta_half_transB", ok + ";beta,transB", mk(attrs={"beta": 0.5, "transB": 1})), S("alpha_transA", ok + ";alpha,transA", mk(attrs={"alpha": 2.0, "transA": 1})),
            S("bias_scalar", ok + ";C scalar", mk(bshape=())), S("bias_MN", ok + ";C=[M,N]", mk(bshape=(3, 5))), S("bias_1N", ok + ";C=[1,N]", mk(bshape=(1, 5))),
        ]
    else:
        out += [S("group2", ok + ";group=2", mk(group=2)),
                S("strides_pads", ok + ";strides,pads", mk(attrs={"strides": [2, 1], "pads": [1, 0, 1, 2]}))]
        if not q:
            out += [S("one_channel_nonzero", "bias nonzero in one channel", mk(per=1)), S("conv1d", ok, mk(nd=1)),
                    S("auto_pad", ok + ";auto_pad", mk(attrs={"auto_pad": "SAME_UPPER"} if op == "Conv" else {"auto_pad": "VALID"}))]
    return out


# ------------------------------------------------------------------------------------------ rules.fusion: LayerNormalization
def _ln_pattern(h, x, scale, eps_name, opset, sq="mul", norm="recip", axes_kind="init", axes=(-1,), keepdims=1):
    def rm(v):
        if opset >= 18:
            return h.node("ReduceMean", [v, h.operand(np.array(list(axes), np.int64), axes_kind)], keepdims=keepdims)
        return h.node("ReduceMean", [v], axes=list(axes), keepdims=keepdims)
    mean = rm(x)
    dev = h.node("Sub", [x, mean])
    if sq == "mul":
        dd = h.node("Mul", [dev, dev])
    else:
        dd = h.node("Pow", [dev, h.operand(np.array(2.0, np.float32) if sq == "pow_f" else np.array(2, np.int64), "init")])
    var = rm(dd)
    ve = h.node("Add", [var, eps_name])
    sd = h.node("Sqrt", [ve])
    if norm == "recip":
        nrm = h.node("Mul", [dev, h.node("Reciprocal", [sd])])
    else:
        nrm = h.node("Div", [dev, sd])
    return h.node("Mul", [nrm, scale]), dev


@template("layer_norm")
def t_layer_norm(p):
    def mk(xshape=(2, 3, 4), dtype="float32", opset=18, sq="mul", norm="recip", eps=1e-5, eshape=(), ekind="init", sshape=None,
           skind="input", axes=(-1,), keepdims=1, decl=None, tap=None, alts=None):
        def fn(h):
            h.opset = opset
            h.scale = 20.0
            x = h.inp(dtype, decl if decl is not None else list(xshape), rt=list(xshape), mag="mod", name="X")
            ss = list(sshape) if sshape is not None else [xshape[-1]]
            if skind == "input":
                sc = h.inp(dtype, ss, mag="mod", name="Sc")
            else:
                sc = h.operand(np.round(h.rs.uniform(0.5, 2, ss), 2).astype(dtype), skind, name="Sc")
            e = h.operand(np.full(eshape, eps, dtype), ekind, name="eps", alts=[np.full(eshape, a, dtype) for a in (alts or [])])
            y, dev = _ln_pattern(h, x, sc, e, opset, sq, norm, axes=axes, keepdims=keepdims)
            h.out(y)
            if tap:
                h.tap(dev, tap)
        return fn

    ok = "last-axis layer norm;scale=[D]"
    return [
        S("mul_recip", ok, mk()), S("pow_div", ok, mk(sq="pow_f", norm="div")), S("pow_int_recip", ok, mk(sq="pow_i")),
        S("mul_div_rank2_opset21", ok, mk(xshape=(3, 4), norm="div", opset=21)), S("rank4_sym", ok, mk(xshape=(2, 1, 3, 4), decl=["N", 1, "S", 4])),
        S("rank1", ok, mk(xshape=(6,))), S("f64", ok + ";double", mk(dtype="float64")), S("f16", "x float16", mk(dtype="float16")),
        S("eps_large", ok + ";eps=0.1", mk(eps=0.1)), S("eps_shape_1", ok + ";eps shape [1]", mk(eshape=(1,))),
        S("eps_shape_111_rank2_x", "eps of higher rank than x", mk(xshape=(3, 4), eshape=(1, 1, 1))),
        S("eps_const_node_opset23", ok, mk(ekind="const", opset=23)), S("scale_init", ok, mk(skind="init")),
        S("scale_scalar", "scale not of shape [D]", mk(sshape=())), S("scale_1", "scale not of shape [D]", mk(sshape=(1,))),
        S("scale_full", "scale not of shape [D]", mk(sshape=(2, 3, 4))), S("scale_S1", "scale not of shape [D]", mk(sshape=(3, 1))),
        S("scale_1D", "scale=[1,D]", mk(sshape=(1, 4))),
        S("opset17_axes_attr", "ReduceMean axes attribute", mk(opset=17)), S("opset13_axes_attr", "ReduceMean axes attribute", mk(opset=13)),
        S("axes_minus2", "axes!=[-1]", mk(axes=(-2,))), S("axes_positive_last", "axes=[rank-1]", mk(axes=(2,))),
        S("keepdims0_rank1", "keepdims=0", mk(xshape=(6,), keepdims=0)),
        S("eps_init_input", "overridable-initializer", mk(ekind="init_input", alts=[0.5, 1.0])),
        S("eps_graph_input", "eps=graph-input", mk(ekind="input", alts=[0.5])),
        S("dev_is_output", "intermediate-is-output", mk(tap="output")), S("dev_has_consumer", "intermediate-has-consumer", mk(tap="consumer")),
    ]


@template("layer_norm_bias")
def t_layer_norm_bias(p):
    def mk(xshape=(2, 3, 4), dtype="float32", opset=18, axis=None, eps=None, bshape=None, bkind="input", nout=1, bias_first=False,
           existing_bias=False, stash=None, use_extra=False, tap=None):
        def fn(h):
            h.opset = opset
            h.scale = 20.0
            x = h.inp(dtype, list(xshape), mag="mod", name="X")
            ax = -1 if axis is None else axis
            nshape = list(xshape)[ax:] if ax < 0 else list(xshape)[ax:]
            sc = h.inp(dtype, nshape, mag="mod", name="Sc")
            ins = [x, sc]
            if existing_bias:
                ins.append(h.inp(dtype, nshape, mag="mod", name="B0"))
            o = h.node("LayerNormalization", ins, nout=nout, axis=axis, epsilon=eps, stash_type=stash)
            y = o if nout == 1 else o[0]
            bs = list(bshape) if bshape is not None else nshape
            b = h.inp(dtype, bs, mag="mod", name="Bi") if bkind == "input" else h.operand(_w(h, bs, dtype), bkind, name="Bi")
            z = h.node("Add", [b, y] if bias_first else [y, b])
            h.out(z)
            if use_extra and nout > 1:
                h.out(o[1])
            if tap:
                h.tap(y, tap)
        return fn

    ok = "bias has the normalized shape"
    return [
        S("basic", ok, mk()), S("bias_init_opset17", ok, mk(bkind="init", opset=17)), S("opset21_eps", ok, mk(opset=21, eps=1e-3)),
        S("axis1_bias_full", ok + ";axis=1", mk(axis=1, bshape=(3, 4))), S("axis_minus2", ok + ";axis=-2", mk(axis=-2)),
        S("f64", ok + ";double", mk(dtype="float64")), S("rank2", ok, mk(xshape=(3, 4))),
        S("three_outputs_unused", ok + ";3 outputs", mk(nout=3)), S("three_outputs_used", ok + ";3 outputs used", mk(nout=3, use_extra=True)),
        S("bias_scalar", "bias not of the normalized shape", mk(bshape=())), S("bias_1", "bias not of the normalized shape", mk(bshape=(1,))),
        S("bias_full", "bias not of the normalized shape", mk(bshape=(2, 3, 4))), S("bias_S1", "bias not of the normalized shape", mk(bshape=(3, 1))),
        S("bias_1D", "bias=[1,D]", mk(bshape=(1, 4))),
        S("axis1_bias_D", "bias not of the normalized shape", mk(axis=1, bshape=(4,))),
        S("bias_rank4", "bias of higher rank than x", mk(bshape=(1, 1, 1, 4))),
        S("bias_first", "Add(bias, LN)", mk(bias_first=True)), S("existing_bias", "LN already has a bias", mk(existing_bias=True)),
        S("stash_type", ok + ";stash_type=1", mk(stash=1)),
        S("ln_is_output", "intermediate-is-output", mk(tap="output")), S("ln_has_consumer", "intermediate-has-consumer", mk(tap="consumer")),
    ]


# ------------------------------------------------------------------------------------------ rules.fusion: RMSNormalization
@template("rms_norm")
def t_rms_norm(p):
    mul_order = p["mul_order"]

    def mk(xshape=(2, 3, 4), dtype="float32", opset=23, cast_in=None, cast_out=None, eps=1e-6, eshape=(), ekind="init", sshape=None,
           sdtype=None, pow_c=2.0, noop_attr=0, keepdims=1, axes=(-1,), decl=None, order=None, alts=None, tap=None, pow_int=False):
        def fn(h):
            from onnx import TensorProto as TP
            h.opset = opset
            h.scale = 20.0
            if dtype == "float16":
                h.rtol, h.atol = 2e-2, 2e-2
            x = h.inp(dtype, decl if decl is not None else list(xshape), rt=list(xshape), mag="mod", name="X")
            cdt = dtype
            xc = x
            if cast_in:
                xc = h.node("Cast", [x], to={"float32": TP.FLOAT, "float64": TP.DOUBLE, "float16": TP.FLOAT16}[cast_in])
                cdt = cast_in
            pw = h.node("Pow", [xc, h.operand(np.array(pow_c, np.int64 if pow_int else np.float32), "init")])
            if opset >= 18:
                ms = h.node("ReduceMean", [pw, h.operand(np.array(list(axes), np.int64), "init")], keepdims=keepdims, noop_with_empty_axes=noop_attr)
            else:
                ms = h.node("ReduceMean", [pw], axes=list(axes), keepdims=keepdims)
            e = h.operand(np.full(eshape, eps, cdt), ekind, name="eps", alts=[np.full(eshape, a, cdt) for a in (alts or [])])
            r = h.node("Reciprocal", [h.node("Sqrt", [h.node("Add", [ms, e])])])
            n = h.node("Mul", [xc, r])
            odt = cdt
            if cast_out:
                n = h.node("Cast", [n], to={"float32": TP.FLOAT, "float64": TP.DOUBLE, "float16": TP.FLOAT16}[cast_out])
                odt = cast_out
            ss = list(sshape) if sshape is not None else [xshape[-1]]
            sc = h.inp(sdtype or odt, ss, mag="mod", name="Sc")
            first = mul_order if order is None else order
            y = h.node("Mul", [n, sc] if first else [sc, n])
            h.out(y)
            if tap:
                h.tap(ms, tap)
        return fn

    ok = "last-axis rms norm;scale=[D]"
    return [
        S("plain_f32", ok, mk()), S("plain_f64", ok + ";double", mk(dtype="float64")), S("rank2", ok, mk(xshape=(3, 4))),
        S("rank4_sym", ok, mk(xshape=(2, 1, 3, 4), decl=["N", 1, "S", 4])), S("rank1", ok, mk(xshape=(6,))),
        S("cast_f16_f32_f16", ok + ";casts f16->f32->f16", mk(dtype="float16", cast_in="float32", cast_out="float16")),
        S("cast_f16_f32_nocastout", "cast to compute type on input only", mk(dtype="float16", cast_in="float32")),
        S("cast_f32_f64_f32", ok + ";casts f32->f64->f32", mk(cast_in="float64", cast_out="float32")),
        S("plain_f16", "compute type float16", mk(dtype="float16")),
        S("eps_large", ok + ";eps=0.1", mk(eps=0.1)), S("eps_shape_1", ok + ";eps shape [1]", mk(eshape=(1,))),
        S("eps_shape_111_rank2_x", "eps of higher rank than x", mk(xshape=(3, 4), eshape=(1, 1, 1))),
        S("eps_const_node", ok, mk(ekind="const")),
        S("scale_scalar", "scale not of shape [D]", mk(sshape=())), S("scale_full", "scale not of shape [D]", mk(sshape=(2, 3, 4))),
        S("scale_S1", "scale not of shape [D]", mk(sshape=(3, 1))), S("scale_1D", "scale=[1,D]", mk(sshape=(1, 4))),
        S("opset22", "opset<23", mk(opset=22)), S("opset18", "opset<23", mk(opset=18)),
        S("opset17_axes_attr", "ReduceMean axes attribute", mk(opset=17)),
        S("pow_3", "exponent!=2", mk(pow_c=3.0)),
        S("pow_int", ok + ";int exponent", mk(pow_c=2, pow_int=True)),
        S("noop_attr_absent", "noop_with_empty_axes absent", mk(noop_attr=None)), S("axes_minus2", "axes!=[-1]", mk(axes=(-2,))),
        S("other_mul_order", "other operand order", mk(order=not mul_order)),
        S("eps_init_input", "overridable-initializer", mk(ekind="init_input", alts=[0.5, 1.0])),
        S("eps_graph_input", "eps=graph-input", mk(ekind="input", alts=[0.5])),
        S("ms_is_output", "intermediate-is-output", mk(tap="output")), S("ms_has_consumer", "intermediate-has-consumer", mk(tap="consumer")),
    ]


# ------------------------------------------------------------------------------------------ rules.fusion: RotaryEmbedding
INT64_MAX = 2**63 - 1


def _i64(h, v, kind="init", alts=None):
    return h.operand(np.array(v, np.int64), kind, alts=[np.array(a, np.int64) for a in (alts or [])])


@template("rotary")
def t_rotary(p):
    def mk(B=2, H=2, Sq=3, D=4, dtype="float32", opset=23, end2="big", half=None, unsq=(1,), decl=None, kind="init", fshape=None,
           axes=(3,), steps=(1,), x_first=True, tap=None, alts=None):
        def fn(h):
            h.opset = opset
            h.scale = 10.0
            x = h.inp(dtype, decl if decl is not None else [B, H, Sq, D], rt=[B, H, Sq, D], mag="mod", name="X")
            fs = list(fshape) if fshape is not None else [B, Sq, D // 2]
            fr = h.inp(dtype, fs, mag="mod", name="F")
            hf = D // 2 if half is None else half
            rep = h.node("Concat", [fr, fr], axis=-1)
            cos = h.node("Unsqueeze", [h.node("Cos", [rep]), _i64(h, list(unsq))])
            sin = h.node("Unsqueeze", [h.node("Sin", [rep]), _i64(h, list(unsq))])
            e2 = INT64_MAX if end2 == "big" else (D if end2 == "D" else end2)
            x1 = h.node("Slice", [x, _i64(h, [0], kind), _i64(h, [hf], kind, alts), _i64(h, list(axes)), _i64(h, list(steps))])
            x2 = h.node("Slice", [x, _i64(h, [hf], kind), _i64(h, [e2], kind), _i64(h, list(axes)), _i64(h, list(steps))])
            rot = h.node("Concat", [h.node("Neg", [x2]), x1], axis=-1)
            a = h.node("Mul", [x, cos] if x_first else [cos, x])
            b = h.node("Mul", [rot, sin])
            h.out(h.node("Add", [a, b]))
            if tap:
                h.tap(rot, tap)
        return fn

    ok = "rotate-half;4D;static heads"
    return [
        S("basic", ok, mk()), S("end2_eq_D", ok, mk(end2="D")), S("D8_H1", ok, mk(D=8, H=1)), S("B1_S1_D2", ok, mk(B=1, Sq=1, D=2)),
        S("f64", "x double", mk(dtype="float64")), S("f16", ok + ";float16", mk(dtype="float16")),
        S("sym_batch_seq", ok + ";symbolic B,S", mk(decl=["B", 2, "S", 4])),
        S("sym_heads", "num_heads symbolic", mk(decl=[2, "H", 3, 4])), S("sym_head_size", "head_size symbolic", mk(decl=[2, 2, 3, "D"])),
        S("const_nodes", ok, mk(kind="const")),
        S("opset22", "opset<23", mk(opset=22)), S("opset18", "opset<23", mk(opset=18)),
        S("uneven_split", "split not at D/2", mk(D=8, half=2, fshape=(2, 3, 4))),
        S("unsqueeze_axis2", "unsqueeze axes!=[1]", mk(unsq=(2,), H=3, Sq=1, fshape=(2, 3, 2))),
        S("cos_first", "Mul(cos, x)", mk(x_first=False)),
        S("freqs_broadcast_batch", "freqs batch dim is 1", mk(fshape=(1, 3, 2))),
        S("bounds_init_input", "overridable-initializer", mk(kind="init_input")),
        S("bounds_graph_input", "bounds=graph-input", mk(kind="input")),
        S("rot_is_output", "intermediate-is-output", mk(tap="output")), S("rot_has_consumer", "intermediate-has-consumer", mk(tap="consumer")),
    ]


@template("partial_rotary")
def t_partial_rotary(p):
    def mk(B=2, H=2, Sq=3, D=8, R=4, dtype="float32", opset=23, start2=None, end_big=True, interleaved=None, num_heads=None,
           red=None, kind="init", decl=None, tap=None, pos_ids=False, alts=None, start0=0):
        def fn(h):
            h.opset = opset
            h.scale = 10.0
            x = h.inp(dtype, decl if decl is not None else [B, H, Sq, D], rt=[B, H, Sq, D], mag="mod", name="X")
            rd = R if red is None else red
            if pos_ids:
                cs = h.inp(dtype, [8, rd // 2], mag="mod", name="Cc")
                sn = h.inp(dtype, [8, rd // 2], mag="mod", name="Sc")
            else:
                cs = h.inp(dtype, [B, Sq, rd // 2], mag="mod", name="Cc")
                sn = h.inp(dtype, [B, Sq, rd // 2], mag="mod", name="Sc")
            s2 = R if start2 is None else start2
            p1 = h.node("Slice", [x, _i64(h, [start0]), _i64(h, [R], kind, alts), _i64(h, [3]), _i64(h, [1])])
            p2 = h.node("Slice", [x, _i64(h, [s2], kind), _i64(h, [INT64_MAX if end_big else D]), _i64(h, [3]), _i64(h, [1])])
            ins = [p1, cs, sn]
            if pos_ids:
                ins.append(h.inp("int64", [B, Sq], gen=lambda k: (np.arange(B * Sq).reshape(B, Sq) + k) % 8, name="pos"))
            ro = h.node("RotaryEmbedding", ins, interleaved=interleaved, num_heads=num_heads, rotary_embedding_dim=red)
            h.out(h.node("Concat", [ro, p2], axis=-1))
            if tap:
                h.tap(ro, tap)
        return fn

    ok = "contiguous split;rope on first part"
    return [
        S("basic", ok, mk()), S("R2_D8", ok, mk(R=2)), S("R6_D8_H1", ok, mk(R=6, H=1)), S("f64", ok + ";double", mk(dtype="float64")),
        S("f16", ok + ";float16", mk(dtype="float16")), S("num_heads_attr", ok + ";num_heads", mk(num_heads=2)),
        S("interleaved0", ok + ";interleaved=0", mk(interleaved=0)), S("interleaved1", "interleaved=1", mk(interleaved=1)),
        S("position_ids", ok + ";position_ids", mk(pos_ids=True)), S("sym_dims", ok + ";symbolic", mk(decl=["B", 2, "S", 8])),
        S("const_nodes", ok, mk(kind="const")),
        S("gap", "end1!=start2", mk(R=4, start2=6)), S("overlap", "end1!=start2", mk(R=4, start2=2)),
        S("end_eq_D", "second slice end=D", mk(end_big=False)),
        S("existing_red", "rotary_embedding_dim present", mk(R=4, red=2)),
        S("bounds_init_input", "overridable-initializer", mk(kind="init_input")),
        S("bounds_graph_input", "bounds=graph-input", mk(kind="input")),
        S("rope_is_output", "intermediate-is-output", mk(tap="output")), S("rope_has_consumer", "intermediate-has-consumer", mk(tap="consumer")),
    ]


# ------------------------------------------------------------------------------------------ rules.fusion: GQA via Attention-23
@template("gqa")
def t_gqa(p):
    def mk(B=2, Hkv=2, G=2, Sq=3, P=2, D=4, dtype="float32", opset=23, mask=None, attrs=None, decl_q=None, unsq=2, expand="group",
           tap=None, use_present=True, past=True, kind="init", axes1d=False):
        def fn(h):
            h.opset = opset
            h.scale = 10.0
            H = Hkv * G
            T = Sq + (P if past else 0)
            q = h.inp(dtype, decl_q if decl_q is not None else [B, H, Sq, D], rt=[B, H, Sq, D], mag="mod", name="Q")
            k = h.inp(dtype, [B, Hkv, Sq, D], mag="mod", name="K")
            v = h.inp(dtype, [B, Hkv, Sq, D], mag="mod", name="V")
            pk = h.inp(dtype, [B, Hkv, P, D], mag="mod", name="PK")
            pv = h.inp(dtype, [B, Hkv, P, D], mag="mod", name="PV")
            def grow(past_, cur):
                c = h.node("Concat", [past_, cur], axis=-2)
                u = h.node("Unsqueeze", [c, _i64(h, ([unsq] if axes1d else unsq), kind)])
                if expand == "group":
                    e = h.node("Expand", [u, _i64(h, [B, Hkv, G, Sq + P, D])])
                    r = h.node("Reshape", [e, _i64(h, [B, H, Sq + P, D])])
                elif expand == "interleave":   # Unsqueeze at 1 -> heads ordered kv0,kv1,kv0,kv1
                    e = h.node("Expand", [u, _i64(h, [B, G, Hkv, Sq + P, D])])
                    r = h.node("Reshape", [e, _i64(h, [B, H, Sq + P, D])])
                return c, r
            ck, rk = grow(pk, k)
            cv, rv = grow(pv, v)
            ins = [q, rk, rv]
            if mask == "bool":
                ins.append(h.inp("bool", [Sq, Sq + P], name="M"))
            elif mask == "float":
                ins.append(h.inp(dtype, [Sq, Sq + P], mag="mod", name="M"))
            y = h.node("Attention", ins, **(attrs or {}))
            h.out(y)
            if use_present:
                h.out(ck, cv)
            if tap:
                h.tap(rk, tap)
        return fn

    ok = "canonical GQA"
    return [
        S("basic", ok, mk()), S("G1", ok + ";G=1", mk(G=1)), S("G3_Hkv1", ok, mk(G=3, Hkv=1)), S("P1_S1", ok, mk(P=1, Sq=1)),
        S("f16", ok + ";float16", mk(dtype="float16")),
        S("mask_float", ok + ";float mask", mk(mask="float")), S("mask_bool", ok + ";bool mask", mk(mask="bool")),
        S("scale_attr", ok + ";scale", mk(attrs={"scale": 0.3})), S("causal", "is_causal=1 with past", mk(attrs={"is_causal": 1})),
        S("softcap", ok + ";softcap", mk(attrs={"softcap": 2.0})),
        S("sym_q", ok + ";symbolic", mk(decl_q=["B", 4, "S", 4])),
        S("present_unused", "present k/v not graph outputs", mk(use_present=False)),
        S("interleaved_heads", "heads interleaved instead of grouped", mk(unsq=1, expand="interleave")),
        S("opset24", ok + ";opset 24", mk(opset=24)),
        S("unsq_init_input", "overridable-initializer", mk(kind="init_input")),
        S("axes_1d", "Unsqueeze axes 1-D [2]", mk(axes1d=True)),
        S("expanded_is_output", "intermediate-is-output", mk(tap="output")),
    ]
