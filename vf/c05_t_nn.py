"""C05 templates, part 3."""
