"""C14 driver child: `python -m vf.c14_child` — reads {"jobs": [{"id", "target", "history"}], "fork": bool}
from stdin, executes for every job the history H and then the target T, and prints one line
`@@<json>` per job with sha256 of the deterministic serialization of the result, the result itself
(zlib+base64, for diffing in the parent) and the state-snapshot differences seen around every operation.

The process' PYTHONHASHSEED is set by the parent.  With "fork": true every job runs in a forked copy of
this process taken right after the imports (state = fresh process after import), so that a batch
costs one interpreter start; with "fork": false (quick tier) there is one job and it runs in this process.

The rule / pass objects used for T are the same objects H used (module-level singletons of the
repository and the process-wide SHARED_* objects below).
"""
from __future__ import annotations

import base64
import hashlib
import importlib.util
import json
import os
import sys
import tempfile
import traceback
import warnings
import zlib

warnings.filterwarnings("ignore")

import logging  # noqa: E402

logging.disable(logging.CRITICAL)

import numpy as np  # noqa: E402
import onnx  # noqa: E402

import onnxscript  # noqa: E402
import onnxscript.optimizer  # noqa: E402
import onnxscript.rewriter  # noqa: E402
import onnxscript.version_converter  # noqa: E402
from onnxscript import ir  # noqa: E402
from onnxscript._internal import evaluator, values  # noqa: E402
from onnxscript.optimizer import _constant_folding  # noqa: E402
from onnxscript.rewriter import _pattern_ir, _rewrite_rule  # noqa: E402
from onnxscript.rewriter.rules.fusion import _layer_norm, _rms_normalization  # noqa: E402

from . import c14_gen as gen  # noqa: E402

if __name__ == "__main__":
    # generated sources do `from vf.c14_child import SHARED_SCRIPT`: must be this very module
    sys.modules["vf.c14_child"] = sys.modules["__main__"]

_SCRATCH = None
_MODCOUNT = [0]

# ---- objects shared between history and target ("the same decorator, pass and rule objects") ----
SHARED_FOLD = _constant_folding.FoldConstantsPass(
    shape_inference=True,
    input_size_limit=_constant_folding.DEFAULT_CONSTANT_FOLD_INPUT_SIZE_LIMIT,
    output_size_limit=_constant_folding.DEFAULT_CONSTANT_FOLD_OUTPUT_SIZE_LIMIT,
)
SHARED_CONVERT: dict = {}
SHARED_SCRIPT = onnxscript.script()          # one decorator object reused for every translation
RULESETS = {
    "default": None,
    "layernorm": _layer_norm.layer_normalization_rules,
    "rmsnorm": _rms_normalization.rms_normalization_rules,
}


def _make_custom_rules():
    """Rule objects that live as long as the child process (what a user module holds at import time)."""
    from onnxscript.rewriter import pattern

    def subrelu(op, x, y):
        return op.Relu(op.Sub(x, y))

    asfn = pattern.RewriteRule(subrelu, lambda op, x, y: op.SubRelu(x, y, _domain="vf.c14.fused"), as_function=True, name="vf_c14_asfn")
    plain = pattern.RewriteRule(subrelu, lambda op, x, y: op.Max(op.Sub(x, y), op.Sub(x, x)), name="vf_c14_plain")
    return {"asfn": asfn, "plain": plain}


CUSTOM_RULES = _make_custom_rules()
_ORIG_BUILDER = _pattern_ir._pattern_builder
_ORIG_EVALUATOR = evaluator.default()


def scratch():
    global _SCRATCH
    if _SCRATCH is None:
        _SCRATCH = tempfile.mkdtemp(prefix="vf-c14-")
    return _SCRATCH


def load_source(src: str, tag: str):
    """Write source to a file and import it as a module (sys.modules entry before exec)."""
    _MODCOUNT[0] += 1
    name = f"vf_c14_{tag}_{_MODCOUNT[0]}"
    path = os.path.join(scratch(), name + ".py")
    with open(path, "w") as f:
        f.write(src)
    spec = importlib.util.spec_from_file_location(name, path)
    mod = importlib.util.module_from_spec(spec)
    sys.modules[name] = mod
    try:
        spec.loader.exec_module(mod)
    except BaseException:
        sys.modules.pop(name, None)
        raise
    return mod


def script_source_shared(p, fname):
    """Same as gen.script_source but decorated with the process-wide decorator object."""
    src, sig = gen.script_source(p, fname)
    src = src.replace("@script()\n", "@_shared_script\n")
    src = "from vf.c14_child import SHARED_SCRIPT as _shared_script\n" + src
    return src, sig


# ---- state snapshots (DESIGN 2.2 item 4) ------------------------------------------------------

def _stable(v, depth=0):
    if isinstance(v, np.ndarray):
        return ["nd", str(v.dtype), v.tolist()]
    if isinstance(v, (int, float, str, bool)) or v is None:
        return v
    if isinstance(v, (list, tuple)) and depth < 3:
        return [_stable(x, depth + 1) for x in v]
    if isinstance(v, dict) and depth < 3:
        return {str(k): _stable(x, depth + 1) for k, x in sorted(v.items(), key=lambda kv: str(kv[0]))}
    if isinstance(v, ir.DataType):
        return f"DataType.{v.name}"
    return f"<{type(v).__name__}>"


def _rule_instances():
    out, seen = {}, set()
    for mname in sorted(m for m in sys.modules if m.startswith("onnxscript.rewriter")):
        mod = sys.modules.get(mname)
        if mod is None:
            continue
        for attr, val in sorted(vars(mod).items()):
            if isinstance(val, _rewrite_rule.RewriteRule):
                inst = getattr(getattr(val, "_condition_function", None), "__self__", None)
                if inst is None:
                    inst = getattr(getattr(getattr(val, "_replacement_pattern", None), "_function", None), "__self__", None)
                if inst is not None and id(inst) not in seen:
                    seen.add(id(inst))
                    out[f"{mname}:{attr}"] = inst
    return out


def snapshot():
    rules = {}
    for k, inst in _rule_instances().items():
        rules[k] = {a: _stable(v) for a, v in sorted(vars(inst).items())}
    b = _pattern_ir._pattern_builder
    ev = evaluator.default()
    st = SHARED_FOLD._state
    return {
        "opset_cache": sorted(f"{c.__name__}|{d}|{v}" for (c, d, v) in values.Opset.cache),
        "pattern_builder": "original" if b is _ORIG_BUILDER else f"swapped:{type(b).__name__}",
        "evaluator": "original" if ev is _ORIG_EVALUATOR else f"changed:{type(ev).__name__}",
        "rules": rules,
        "fold_pass": {"counts": len(SHARED_FOLD._counts), "sizes": len(SHARED_FOLD._sizes),
                      "modified": bool(SHARED_FOLD._modified),
                      "sym_values": len(getattr(st, "symbolic_value_map", {}) or {}),
                      "opset_imports": _stable(dict(SHARED_FOLD._opset_imports))},
    }


def snap_diff(a, b):
    """-> list of labels of state that differs between two snapshots."""
    out = []
    if a["opset_cache"] != b["opset_cache"]:
        out.append("opset_cache")
    if a["pattern_builder"] != b["pattern_builder"]:
        out.append("pattern_builder:" + b["pattern_builder"].split(":")[0])
    if a["evaluator"] != b["evaluator"]:
        out.append("evaluator:" + b["evaluator"].split(":")[0])
    if a["fold_pass"] != b["fold_pass"]:
        out.append("fold_pass")
    for k in sorted(set(a["rules"]) | set(b["rules"])):
        ra, rb = a["rules"].get(k, {}), b["rules"].get(k, {})
        if ra != rb:
            fields = sorted(f for f in set(ra) | set(rb) if ra.get(f, "<absent>") != rb.get(f, "<absent>"))
            out.append(f"rule_fields:{k.split(':')[1]}:{','.join(fields)}")
    return out


# ---- operations -------------------------------------------------------------------------------

def ser(p) -> bytes:
    return p.SerializeToString(deterministic=True)


def op_translate(p, fname, eager=False):
    src, _ = script_source_shared(p, fname)
    mod = load_source(src, "s")
    fn = getattr(mod, fname)
    out = {"model": ser(fn.to_model_proto()), "function": ser(fn.to_function_proto())}
    if eager:
        import re

        n = int(re.search(r"FLOAT\[(\d+)\]", src).group(1))
        x = (np.arange(n, dtype=np.float32) - 1.0) / 2
        y = (np.arange(n, dtype=np.float32) * 0.5 + 0.25)
        r = fn(x, y)
        rs = r if isinstance(r, (tuple, list)) else [r]
        out["eager"] = b"".join(np.asarray(getattr(v, "value", v)).tobytes() for v in rs)
    return out


def op_model(t):
    """Run one model operation; returns the serialized result (bytes)."""
    m = gen.build_model(t["template"], t["params"])
    api = t["api"]
    if api == "optimize":
        return ser(onnxscript.optimizer.optimize(m))
    if api == "rewrite":
        rules = RULESETS[t.get("rules", "default")]
        return ser(onnxscript.rewriter.rewrite(m, rules) if rules is not None else onnxscript.rewriter.rewrite(m))
    if api == "rewrite_custom":
        return ser(onnxscript.rewriter.rewrite(m, [CUSTOM_RULES[t["rule"]]]))
    if api == "fold":
        im = ir.serde.deserialize_model(m)
        res = SHARED_FOLD(im)
        # the pass result (modified flag) is part of what the call returns
        return ser(ir.serde.serialize_model(im)), {"modified": str(bool(res.modified)).encode()}
    if api == "convert":
        tv = t["target_version"]
        im = ir.serde.deserialize_model(m)
        if tv not in SHARED_CONVERT:
            SHARED_CONVERT[tv] = onnxscript.version_converter.ConvertVersionPass(target_version=tv)
        res = SHARED_CONVERT[tv](im)
        return ser(ir.serde.serialize_model(im)), {"modified": str(bool(res.modified)).encode()}
    raise ValueError(api)


class _Rec:
    """Recording evaluator (no `eval` attribute)."""

    def eval_op(self, *a, **k):
        raise RuntimeError("vf: recording evaluator invoked")

    def eval_function(self, *a, **k):
        raise RuntimeError("vf: recording evaluator invoked")


def run_history_op(h, i):
    """-> outcome label.  Repository exceptions are part of the history, never errors."""
    name = h["h"]
    if name not in gen.HISTORY_OPS and name not in gen.PLACED_OPS:
        raise ValueError(f"unknown history op {name}")
    try:
        if name == "tr_ok":
            op_translate(h["script"], f"hist_fn_{i}")
        elif name == "tr_refused":
            src = gen.HEADER + gen.refused_script(f"hist_bad_{i}", h["which"])
            src = "from vf.c14_child import SHARED_SCRIPT as _shared_script\n" + src.replace("@script()\n", "@_shared_script\n")
            load_source(src, "r")
            return "accepted"
        elif name == "tr_roles":
            src = gen.HEADER + gen.roles_script(f"hist_roles_{i}", h["which"])
            src = "from vf.c14_child import SHARED_SCRIPT as _shared_script\n" + src.replace("@script()\n", "@_shared_script\n")
            fn = getattr(load_source(src, "q"), f"hist_roles_{i}")
            fn.to_model_proto()
            fn.to_function_proto()
        elif name == "pat_raise":
            def bad_pattern(op, x, y):
                z = op.Add(x, y)
                for _ in range(h.get("after", 0)):
                    z = z * y          # operator overloads go through _pattern_builder
                raise RuntimeError("vf: pattern construction fails")

            onnxscript.rewriter.RewriteRule(bad_pattern, lambda op, x, y: op.Sub(x, y))
        elif name == "eval_raise":
            with evaluator.default_as(_Rec()):
                if h.get("inner_set"):
                    evaluator.set_default(_Rec())
                raise RuntimeError("vf: body of default_as fails")
        else:
            op_model(h["model"])
        return "ok"
    except Exception as e:  # noqa: BLE001 - the repository's exceptions are data here
        return "raised:" + type(e).__name__


def run_job(job):
    out = {"id": job["id"], "hashseed": os.environ.get("PYTHONHASHSEED"), "hist": [], "state_events": []}
    for i, h in enumerate(job.get("history") or []):
        before = snapshot()
        outcome = run_history_op(h, i)
        after = snapshot()
        d = snap_diff(before, after)
        out["hist"].append({"h": h["h"], "outcome": outcome, "diff": d})
    t = job["target"]
    before = snapshot()
    try:
        if t["api"] == "script":
            r = op_translate(t["script"], "target_fn", eager=bool(t.get("eager")))
            blob = r["model"]
            parts = [r["model"], r["function"]] + ([r["eager"]] if "eager" in r else [])
            out["sha_parts"] = {k: hashlib.sha256(v).hexdigest()[:16] for k, v in r.items()}
            digest = hashlib.sha256(b"\x00".join(parts)).hexdigest()
        else:
            r = op_model(t)
            blob, extra = r if isinstance(r, tuple) else (r, {})
            parts = {"model": blob, **extra}
            out["sha_parts"] = {k: hashlib.sha256(v).hexdigest()[:16] for k, v in parts.items()}
            digest = hashlib.sha256(b"\x00".join(parts[k] for k in sorted(parts))).hexdigest()
        out["status"] = "ok"
        out["sha"] = digest
        out["blob"] = base64.b64encode(zlib.compress(blob)).decode()
    except Exception as e:  # noqa: BLE001
        last = traceback.extract_tb(e.__traceback__)[-1].filename
        out["status"] = "harness_error" if os.path.dirname(os.path.abspath(__file__)) == os.path.dirname(last) else "raised"
        out["sha"] = "raised:" + type(e).__name__
        out["error"] = f"{type(e).__name__}: {str(e)[:300]}"
        out["where"] = traceback.format_exc()[-600:]
    out["target_diff"] = snap_diff(before, snapshot())
    return out


def main():
    req = json.loads(sys.stdin.read())
    jobs = req["jobs"]
    sys.stdout.flush()
    if not req.get("fork"):
        for job in jobs:
            print("@@" + json.dumps(run_job(job)), flush=True)
    else:
        for job in jobs:
            r, w = os.pipe()
            pid = os.fork()
            if pid == 0:
                os.close(r)
                code = 0
                try:
                    data = json.dumps(run_job(job)).encode()
                    with os.fdopen(w, "wb") as f:
                        f.write(data)
                except BaseException:  # noqa: BLE001
                    traceback.print_exc()
                    code = 3
                finally:
                    _cleanup()
                    os._exit(code)
            os.close(w)
            with os.fdopen(r, "rb") as f:
                data = f.read()
            _, st = os.waitpid(pid, 0)
            if data:
                print("@@" + data.decode(), flush=True)
            else:
                print("@@" + json.dumps({"id": job["id"], "status": "child_died", "wait_status": st}), flush=True)
    _cleanup()


def _cleanup():
    global _SCRATCH
    if _SCRATCH is not None:
        import shutil

        shutil.rmtree(_SCRATCH, ignore_errors=True)
        _SCRATCH = None


if __name__ == "__main__":
    main()
