"""C08 strata: overload x argument class.  A stratum is (class label, builder(G) -> (args, kwargs), options).

The list of strata of an overload is fixed (it depends only on the overload's ATen schema and the
function's annotation); the seed only picks shapes/values inside a stratum.  Arguments are laid out
the exporter's way: schema-positional arguments by position (trailing defaults may be omitted),
keyword-only arguments by name.
"""
from __future__ import annotations

from . import c08_core as core
from .c08_gen import FLOATS, INTS, G, is_float, is_int  # noqa: F401

DT = core.DTYPES
FAMILIES: dict[str, dict] = {}
_DTSET = set(DT) | {"i8", "i16", "mixed"}


class S:
    __slots__ = ("cls", "build", "mode", "scale")

    def __init__(self, cls, build, mode="value", scale=1.0):
        toks = cls.split("/")
        if len(toks) > 1 and toks[-1] in _DTSET:  # dtype token leads: "f32/alpha/nd" (anchors fnmatch patterns)
            cls = "/".join([toks[-1]] + toks[:-1])
        self.cls, self.build, self.mode, self.scale = cls, build, mode, scale


def reg(family, names, recipe, **kw):
    for qn in ([names] if isinstance(names, str) else names):
        FAMILIES.setdefault(family, {})[qn] = (recipe, kw)


def strata(family, qn):
    recipe, kw = FAMILIES[family][qn]
    return list(recipe(qn, **kw))


# ---------------------------------------------------------------------------------------------
# annotation helpers


def adm(qn, i=0):
    """dtypes (of the 7) that parameter i of the registered function admits for a tensor."""
    E = core.env()
    m = E.metas.get(qn)
    if m is None:
        return []
    params = list(m.function.op_signature.params)
    if i >= len(params) or not isinstance(params[i], E.ir.schemas.Parameter):
        return list(DT)
    allowed = set()
    for t in params[i].type_constraint.allowed_types:
        try:
            allowed.add(t.dtype)
        except Exception:
            pass
    return [d for d in DT if E.core.torch_dtype_to_onnx_dtype(E.tdt[d]) in allowed]


def lead(dts, want=("f32", "i64", "bool")):
    out = []
    for w in want:
        if w in dts:
            out.append(w)
        elif w == "f32":
            f = [d for d in dts if is_float(d)]
            out.extend(f[:1])
        elif w == "i64":
            f = [d for d in dts if is_int(d)]
            out.extend(f[:1])
    return out or list(dts[:1])


SC_SPECIAL = ("0-d", "size0", "size1")

# ---------------------------------------------------------------------------------------------
# F1: elementwise unary


def unary(qn, dom="any", extra=None, kw=None, only=None, scale=1.0, special=False):
    """extra: list of (label, positional tail builder(g, dt)); kw: list of (label, kwargs builder(g, dt))."""
    dts = [d for d in adm(qn) if only is None or d in only]
    variants = [("", lambda g, dt: [], lambda g, dt: {})]
    if extra:
        variants = [(lbl + "/", b, lambda g, dt: {}) for lbl, b in extra]
    if kw:
        variants = [(lbl + "/", lambda g, dt: [], b) for lbl, b in kw]
    for vl, pb, kb in variants:
        for dt in dts:
            yield S(f"{vl}nd/{dt}", (lambda g, dt=dt, pb=pb, kb=kb: ([g.t(g.shape("nd"), dt, dom)] + pb(g, dt), kb(g, dt))), scale=scale)
        for dt in lead(dts):
            for sc in SC_SPECIAL:
                yield S(f"{vl}{sc}/{dt}", (lambda g, dt=dt, sc=sc, pb=pb, kb=kb: ([g.t(g.shape(sc), dt, dom)] + pb(g, dt), kb(g, dt))), scale=scale)
    if special:
        for dt in dts:
            if is_float(dt):
                yield S(f"nan-inf/{dt}", (lambda g, dt=dt: ([g.t(g.shape("r2"), dt, "special")], {})))


_U = "unary"
for _n in ("abs", "neg", "sign", "relu", "relu6", "ceil", "floor", "round", "trunc", "frac", "sigmoid", "tanh", "sin", "cos",
           "atan", "asinh", "sinh", "cosh", "erf", "erfc", "exp", "exp2", "expm1", "silu", "mish", "selu", "hardsigmoid",
           "hardswish", "log_sigmoid", "deg2rad", "rad2deg", "sinc", "signbit", "logical_not", "bitwise_not",
           "special_erf", "special_erfc", "special_expm1", "special_sinc", "special_erfcx"):
    reg(_U, f"aten::{_n}", unary, dom="small" if _n in ("exp", "exp2", "expm1", "sinh", "cosh", "special_expm1", "special_erfcx") else "any")
for _n in ("log", "log2", "log10", "sqrt", "rsqrt", "reciprocal"):
    reg(_U, f"aten::{_n}", unary, dom="pos")
reg(_U, "aten::log1p", unary, dom="pos")
reg(_U, ["aten::acos", "aten::asin", "aten::atanh"], unary, dom="unit")
reg(_U, "aten::acosh", unary, dom="ge1")
reg(_U, "aten::tan", unary, dom="unit")
reg(_U, "aten::logit", unary, dom="prob", extra=[("eps=omitted", lambda g, dt: []), ("eps=0.25", lambda g, dt: [0.25])])
for _n in ("isnan", "isinf", "isfinite", "isneginf", "isposinf"):
    reg(_U, f"aten::{_n}", unary, special=True)
reg(_U, "aten::gelu", unary, kw=[("approximate=omitted", lambda g, dt: {}), ("approximate=none", lambda g, dt: {"approximate": "none"}),
                                 ("approximate=tanh", lambda g, dt: {"approximate": "tanh"})])
reg(_U, "aten::elu", unary, extra=[("defaults", lambda g, dt: []), ("alpha", lambda g, dt: [g.r.choice((0.5, 2.0))])])
reg("unary_elu_pos", "aten::elu", unary, dom="pos", extra=[("alpha-scale-input_scale/positive-input", lambda g, dt: [g.r.choice((0.5, 2.0)), 1.5, 0.5]),
                                                          ("alpha-scale/positive-input", lambda g, dt: [g.r.choice((0.5, 2.0)), 1.5])])
reg("unary_elu_neg", "aten::elu", unary, dom="neg", extra=[("alpha-scale-input_scale/negative-input", lambda g, dt: [g.r.choice((0.5, 2.0)), 1.5, 0.5]),
                                                          ("alpha-scale/negative-input", lambda g, dt: [g.r.choice((0.5, 2.0)), 1.5])])
reg(_U, "aten::celu", unary, extra=[("alpha=omitted", lambda g, dt: []), ("alpha", lambda g, dt: [g.r.choice((0.5, 2.0))])])
reg(_U, "aten::leaky_relu", unary, extra=[("slope=omitted", lambda g, dt: []), ("slope=0.2", lambda g, dt: [0.2]), ("slope=f32-exact", lambda g, dt: [g.r.choice((0.5, 2.0))])])
reg(_U, "aten::softplus", unary, extra=[("defaults", lambda g, dt: []), ("beta", lambda g, dt: [2.0]), ("beta-threshold", lambda g, dt: [0.5, 1.0])])
reg(_U, "aten::hardtanh", unary, extra=[("defaults", lambda g, dt: []), ("min-max", lambda g, dt: [-0.5, 2.0] if is_float(dt) else [-1, 2])])
reg(_U, "aten::round.decimals", unary, dom="nonint", kw=[("decimals=0", lambda g, dt: {"decimals": 0}), ("decimals=1", lambda g, dt: {"decimals": 1}),
                                                          ("decimals=-1", lambda g, dt: {"decimals": -1})])
for _n in ("abs", "neg", "ceil", "floor", "round", "sin", "cos", "tanh", "atan", "asinh", "sinh", "cosh", "erf", "exp"):
    reg(_U, f"prims::{_n}", unary, dom="small" if _n in ("exp", "sinh", "cosh") else "any")
reg(_U, ["prims::log", "prims::sqrt"], unary, dom="pos")
reg(_U, ["prims::acos", "prims::asin", "prims::atanh", "prims::tan"], unary, dom="unit")
reg(_U, "prims::acosh", unary, dom="ge1")

# ---------------------------------------------------------------------------------------------
# F2/F3: elementwise binary, comparison, logical, bitwise


def _rhs_scalar(g, dt, dom, kind):
    return g.scalar(dt, dom, kind)


# integer results of these are exact in the integer type (no overflow for the magnitudes generated: sums stay below 2^63)
_EXACT_INT_BINARY = {"floor_divide", "div", "divide", "remainder", "fmod", "maximum", "minimum", "sub", "subtract", "add"}


def binary(qn, dom=("any", "any"), kw=None, only=None, tensor_rhs=True, py_rhs=True, py_lhs=False, tensor_lhs=True, scale=1.0,
           pyfloat_on_int=False, tail=None):
    """Tensor-Tensor overloads (python scalars are legal operands there too) and *.Scalar overloads.

    kw: list of (label, builder(g, dt) -> kwargs); tail: list of (label, builder -> extra positional args)."""
    da, db = dom
    if qn.startswith("prims::"):
        py_rhs = py_lhs = False  # prims take tensors only (and of one shape: no broadcast strata below)
    dts = [d for d in adm(qn, 0 if tensor_lhs else 1) if only is None or d in only]
    variants = [("", lambda g, dt: [], lambda g, dt: {})]
    if kw:
        variants = [(lbl + "/", lambda g, dt: [], b) for lbl, b in kw]
    if tail:
        variants = [(lbl + "/", b, lambda g, dt: {}) for lbl, b in tail]
    for vl, tb, kb in variants:
        if tensor_lhs and tensor_rhs:
            for dt in dts:
                def b_same(g, dt=dt, tb=tb, kb=kb):
                    sh = g.shape("nd")
                    return [g.t(sh, dt, da), g.t(sh, dt, db)] + tb(g, dt), kb(g, dt)
                yield S(f"{vl}same-shape/{dt}", b_same, scale=scale)
                if dt in ("i32", "i64") and qn.split("::")[1].split(".")[0] in _EXACT_INT_BINARY:
                    # integer operands beyond 2^24 / 2^53 (exact in the integer type, not in float32 / float64)
                    def b_big(g, dt=dt, tb=tb, kb=kb):
                        sh = [g.r.randint(3, 6)]
                        return [g.t(sh, dt, "big"), g.t(sh, dt, "big_nz" if db == "nz" else "big")] + tb(g, dt), kb(g, dt)
                    yield S(f"{vl}big-ints/{dt}", b_big, scale=scale)
            for dt in (lead(dts) if not qn.startswith("prims::") else []):
                def b_bc(g, dt=dt, tb=tb, kb=kb):
                    sa, sb = g.bcast_pair()
                    return [g.t(sa, dt, da), g.t(sb, dt, db)] + tb(g, dt), kb(g, dt)
                yield S(f"{vl}broadcast/{dt}", b_bc, scale=scale)
                yield S(f"{vl}0-d-rhs/{dt}", (lambda g, dt=dt, tb=tb, kb=kb: ([g.t(g.shape("nd"), dt, da), g.t([], dt, db)] + tb(g, dt), kb(g, dt))), scale=scale)
                yield S(f"{vl}0-d-lhs/{dt}", (lambda g, dt=dt, tb=tb, kb=kb: ([g.t([], dt, da), g.t(g.shape("nd"), dt, db)] + tb(g, dt), kb(g, dt))), scale=scale)
                yield S(f"{vl}0-d-both/{dt}", (lambda g, dt=dt, tb=tb, kb=kb: ([g.t([], dt, da), g.t([], dt, db)] + tb(g, dt), kb(g, dt))), scale=scale)
                def b_e(g, dt=dt, tb=tb, kb=kb):
                    sa, sb = g.r.choice([([0], [0]), ([2, 0], [2, 0]), ([0, 3], [1, 3]), ([2, 0, 3], [3]), ([0], [])])
                    return [g.t(sa, dt, da), g.t(sb, dt, db)] + tb(g, dt), kb(g, dt)
                yield S(f"{vl}size0/{dt}", b_e, scale=scale)
            for dt in (lead(dts) if qn.startswith("prims::") else []):
                yield S(f"{vl}0-d-both/{dt}", (lambda g, dt=dt, tb=tb, kb=kb: ([g.t([], dt, da), g.t([], dt, db)] + tb(g, dt), kb(g, dt))), scale=scale)
                yield S(f"{vl}size0/{dt}", (lambda g, dt=dt, tb=tb, kb=kb: ([g.t([2, 0], dt, da), g.t([2, 0], dt, db)] + tb(g, dt), kb(g, dt))), scale=scale)
        if tensor_lhs and py_rhs:
            for dt in lead(dts):
                kinds = ["int"] if not is_float(dt) else ["int", "float"]
                if dt == "bool":
                    kinds = ["bool"]
                if pyfloat_on_int and is_int(dt):
                    kinds.append("float")
                for kind in kinds:
                    yield S(f"{vl}py{kind}-rhs/{dt}", (lambda g, dt=dt, kind=kind, tb=tb, kb=kb: ([g.t(g.shape("nd"), dt, da), g.scalar(dt, db, kind)] + tb(g, dt), kb(g, dt))), scale=scale)
                    yield S(f"{vl}py{kind}-rhs-0-d/{dt}", (lambda g, dt=dt, kind=kind, tb=tb, kb=kb: ([g.t([], dt, da), g.scalar(dt, db, kind)] + tb(g, dt), kb(g, dt))), scale=scale)
        if py_lhs:
            dts_r = [d for d in adm(qn, 1) if only is None or d in only]
            for dt in lead(dts_r):
                kinds = ["int"] if not is_float(dt) else ["int", "float"]
                if dt == "bool":
                    kinds = ["bool"]
                for kind in kinds:
                    yield S(f"{vl}py{kind}-lhs/{dt}", (lambda g, dt=dt, kind=kind, tb=tb, kb=kb: ([g.scalar(dt, da, kind), g.t(g.shape("nd"), dt, db)] + tb(g, dt), kb(g, dt))), scale=scale)
                    yield S(f"{vl}py{kind}-lhs-0-d/{dt}", (lambda g, dt=dt, kind=kind, tb=tb, kb=kb: ([g.scalar(dt, da, kind), g.t([], dt, db)] + tb(g, dt), kb(g, dt))), scale=scale)


def _alpha_kw(g, dt):
    return {"alpha": g.r.choice((2, -1, 3)) if not is_float(dt) else g.r.choice((2, -1.5, 0.5))}


_ALPHA_KW = [("alpha=omitted", lambda g, dt: {}), ("alpha", _alpha_kw)]
_ALPHA_TAIL = [("alpha=omitted", lambda g, dt: []), ("alpha", lambda g, dt: [_alpha_kw(g, dt)["alpha"]])]
_B = "binary"
reg(_B, ["aten::add.Tensor", "aten::sub.Tensor", "aten::subtract.Tensor"], binary, kw=_ALPHA_KW)
reg(_B, ["aten::add.Scalar", "aten::sub.Scalar", "aten::subtract.Scalar"], binary, tensor_rhs=False, tail=_ALPHA_TAIL)
reg(_B, ["aten::mul.Tensor", "aten::multiply.Tensor", "aten::maximum", "aten::minimum", "prims::add", "prims::sub", "prims::mul"], binary)
reg(_B, ["aten::div.Tensor", "aten::divide.Tensor", "aten::true_divide.Tensor", "prims::div"], binary, dom=("any", "nz"))
reg(_B, ["aten::div.Scalar", "aten::divide.Scalar", "aten::true_divide.Scalar"], binary, dom=("any", "nz"), tensor_rhs=False)
_MODES = [("mode=None", lambda g, dt: {"rounding_mode": None}), ("mode=floor", lambda g, dt: {"rounding_mode": "floor"}),
          ("mode=trunc", lambda g, dt: {"rounding_mode": "trunc"})]
reg(_B, "aten::div.Tensor_mode", binary, dom=("any", "nz"), kw=_MODES)
reg(_B, "aten::div.Scalar_mode", binary, dom=("any", "nz"), kw=_MODES, tensor_rhs=False)
reg(_B, ["aten::floor_divide", "aten::fmod.Tensor", "aten::remainder.Tensor", "prims::remainder"], binary, dom=("any", "nz"))
reg(_B, ["aten::fmod.Scalar", "aten::remainder.Scalar"], binary, dom=("any", "nz"), tensor_rhs=False)
reg(_B, "aten::remainder.Scalar_Tensor", binary, dom=("any", "nz"), tensor_lhs=False, py_rhs=False, py_lhs=True)
reg(_B, ["aten::logaddexp", "aten::logaddexp2"], binary, dom=("small", "small"), py_rhs=False)
reg(_B, "aten::atan2", binary, dom=("nz", "nz"), py_rhs=False)


def atan2_axes(qn):
    """points on the axes (atan2(0, x<0) = pi, atan2(0, 0) = 0, atan2(y, 0) = +-pi/2) live in their own strata."""
    E = core.env()
    for dt in [d for d in adm(qn) if is_float(d)]:
        T = lambda v, dt=dt: E.torch.tensor(v, dtype=E.tdt[dt])
        yield S(f"y=0-x<0/{dt}", (lambda g, T=T: ([T([0.0, 0.0, 0.0]), T([-0.5, -2.0, -1.0])], {})))
        yield S(f"y=0-x>0/{dt}", (lambda g, T=T: ([T([0.0, 0.0]), T([0.5, 2.0])], {})))
        yield S(f"y!=0-x=0/{dt}", (lambda g, T=T: ([T([1.5, -0.5]), T([0.0, 0.0])], {})))
        yield S(f"y=0-x=0/{dt}", (lambda g, T=T: ([T([0.0]), T([0.0])], {})))


reg("binary_axes", "aten::atan2", atan2_axes)
reg(_B, "aten::xlogy.Tensor", binary, dom=("any", "pos"), py_rhs=False)
reg(_B, "aten::xlogy.Scalar_Other", binary, dom=("any", "pos"), tensor_rhs=False)
reg(_B, "aten::xlogy.Scalar_Self", binary, dom=("any", "pos"), tensor_lhs=False, py_rhs=False, py_lhs=True)
reg(_B, "aten::heaviside", binary, py_rhs=False)
reg(_B, ["aten::pow.Tensor_Tensor", "prims::pow"], binary, dom=("pos", "small"), only=FLOATS, py_rhs=False)
reg(_B, "aten::pow.Tensor_Scalar", binary, dom=("pos", "small"), only=FLOATS, tensor_rhs=False)
reg(_B, "aten::pow.Scalar", binary, dom=("pos", "small"), only=FLOATS, tensor_lhs=False, py_rhs=False, py_lhs=True)


def pow_int(qn, form):
    """integer bases with non-negative integer exponents (no overflow: |base|<=3, exp<=3)."""
    E = core.env()
    for dt in ("i32", "i64", "u8"):
        def tt(g, dt=dt):
            sh = g.shape("nd")
            base = g.torch.tensor([g.r.randint(0 if dt == "u8" else -3, 3) for _ in range(_numel(sh))], dtype=E.tdt[dt]).reshape(sh)
            ex = g.torch.tensor([g.r.randint(0, 3) for _ in range(_numel(sh))], dtype=E.tdt[dt]).reshape(sh)
            if form == "tt":
                return [base, ex], {}
            if form == "ts":
                return [base, g.r.randint(0, 3)], {}
            return [g.r.randint(1, 3), ex], {}
        yield S(f"int-base-int-exp/{dt}", tt)
    if form == "ts":
        for dt in ("f32", "f64"):
            yield S(f"neg-base-int-exp/{dt}", (lambda g, dt=dt: ([g.t(g.shape("nd"), dt, "nz"), g.r.choice((2, 3, -1, -2, 0))], {})))
            yield S(f"exp=0.5/{dt}", (lambda g, dt=dt: ([g.t(g.shape("nd"), dt, "pos"), 0.5], {})))
        yield S("int-base-float-exp/i64", (lambda g: ([g.t(g.shape("nd"), "i64", "pos"), g.r.choice((0.5, 2.0, 1.5))], {})))


def _numel(sh):
    n = 1
    for d in sh:
        n *= d
    return n


reg("binary_powint", "aten::pow.Tensor_Tensor", pow_int, form="tt")
reg("binary_powint", "aten::pow.Tensor_Scalar", pow_int, form="ts")
reg("binary_powint", "aten::pow.Scalar", pow_int, form="st")

_C = "compare"
reg(_C, ["aten::eq.Tensor", "aten::ne.Tensor", "aten::lt.Tensor", "aten::le.Tensor", "aten::gt.Tensor", "aten::ge.Tensor",
         "aten::less.Tensor", "aten::less_equal.Tensor", "aten::greater.Tensor", "aten::greater_equal.Tensor",
         "prims::eq", "prims::ne", "prims::lt", "prims::le", "prims::gt", "prims::ge"], binary, dom=("small", "small"))
reg(_C, ["aten::eq.Scalar", "aten::ne.Scalar", "aten::lt.Scalar", "aten::le.Scalar", "aten::gt.Scalar", "aten::ge.Scalar"],
    binary, dom=("small", "small"), tensor_rhs=False, pyfloat_on_int=True)
reg(_C, ["aten::logical_and", "aten::logical_or", "aten::logical_xor"], binary, dom=("small", "small"), py_rhs=False)
reg(_C, ["aten::bitwise_and.Tensor", "aten::bitwise_or.Tensor", "aten::bitwise_xor.Tensor"], binary, only=INTS + ("bool",), py_rhs=False)
reg(_C, ["aten::bitwise_and.Scalar", "aten::bitwise_or.Scalar", "aten::bitwise_xor.Scalar"], binary, only=INTS + ("bool",), tensor_rhs=False)
reg(_C, ["aten::bitwise_and.Scalar_Tensor", "aten::bitwise_or.Scalar_Tensor", "aten::bitwise_xor.Scalar_Tensor"], binary,
    only=INTS + ("bool",), tensor_lhs=False, py_rhs=False, py_lhs=True)


def shifts(qn, form, right):
    E = core.env()
    for dt in ("i32", "i64", "u8"):
        for sc in ("nd", "0-d"):
            def b(g, dt=dt, sc=sc):
                sh = g.shape(sc)
                n = _numel(sh)
                lo = 0 if (dt == "u8" or not right) else -20
                a = g.torch.tensor([g.r.randint(lo, 20) for _ in range(n)], dtype=E.tdt[dt]).reshape(sh)
                s = g.torch.tensor([g.r.randint(0, 3) for _ in range(n)], dtype=E.tdt[dt]).reshape(sh)
                if form == "tt":
                    return [a, s], {}
                if form == "ts":
                    return [a, g.r.randint(0, 3)], {}
                return [g.r.randint(lo, 20), s], {}
            yield S(f"{'neg-ok' if right else 'nonneg'}-{sc}/{dt}", b)


reg(_C, "aten::bitwise_left_shift.Tensor", shifts, form="tt", right=False)
reg(_C, "aten::bitwise_right_shift.Tensor", shifts, form="tt", right=True)
reg(_C, ["aten::bitwise_left_shift.Tensor_Scalar", "aten::__lshift__.Scalar"], shifts, form="ts", right=False)
reg(_C, ["aten::bitwise_right_shift.Tensor_Scalar", "aten::__rshift__.Scalar"], shifts, form="ts", right=True)
reg(_C, "aten::bitwise_left_shift.Scalar_Tensor", shifts, form="st", right=False)
reg(_C, "aten::bitwise_right_shift.Scalar_Tensor", shifts, form="st", right=True)


def isclose(qn):
    for dt in adm(qn):
        def b(g, dt=dt, kw=False):
            sh = g.shape("nd")
            a = g.t(sh, dt, "small")
            bb = a.clone() if g.r.random() < 0.5 else g.t(sh, dt, "small")
            return [a, bb], {}
        yield S(f"defaults/{dt}", b)
    for dt in lead(adm(qn), ("f32",)):
        def b2(g, dt=dt):
            sh = g.shape("r2")
            a = g.t(sh, dt, "small")
            return [a, a + 0.25, 0.5, 0.125], {}
        yield S(f"rtol-atol/{dt}", b2)
        def b3(g, dt=dt, en=True):
            E = core.env()
            nan, inf = float("nan"), float("inf")
            a = E.torch.tensor([nan, nan, 1.0, inf, -inf, inf], dtype=E.tdt[dt])
            bb = E.torch.tensor([nan, 1.0, nan, inf, -inf, -inf], dtype=E.tdt[dt])
            return [a, bb, 1e-5, 1e-8, en], {}
        yield S(f"equal_nan=True-nan-inf/{dt}", b3)
        yield S(f"equal_nan=False-nan-inf/{dt}", (lambda g, b3=b3: b3(g, en=False)))
        yield S(f"0-d/{dt}", (lambda g, dt=dt: ([g.t([], dt, "small"), g.t([], dt, "small")], {})))
        yield S(f"size0/{dt}", (lambda g, dt=dt: ([g.t([0, 2], dt, "small"), g.t([0, 2], dt, "small")], {})))


reg(_C, ["aten::isclose", "aten::allclose"], isclose)


def equal(qn):
    for dt in adm(qn):
        def b(g, dt=dt):
            sh = g.shape("nd")
            a = g.t(sh, dt, "small")
            return [a, a.clone() if g.r.random() < 0.5 else g.t(sh, dt, "small")], {}
        yield S(f"same-shape/{dt}", b)
    for dt in lead(adm(qn)):
        yield S(f"0-d/{dt}", (lambda g, dt=dt: ([g.t([], dt, "small"), g.t([], dt, "small")], {})))
        yield S(f"size0/{dt}", (lambda g, dt=dt: ([g.t([0], dt), g.t([0], dt)], {})))


reg(_C, "aten::equal", equal)

# ---------------------------------------------------------------------------------------------
# F4: reductions


def _red_shape(g, shapeclass):
    """-> (shape, axis that will be among the reduced ones, or None)."""
    r = g.r
    if shapeclass == "0-d":
        return [], None
    rank = r.randint(2, 4) if shapeclass != "r1" else 1
    shape = g.dims(rank)
    ax = r.randrange(rank)
    if shapeclass == "size0-reduced":
        shape[ax] = 0
    elif shapeclass == "size1-reduced":
        shape[ax] = 1
    elif shapeclass == "size0-other":
        other = (ax + 1) % rank
        shape[other] = 0
    return shape, ax


def _red_dims(g, dimclass, rank, ax):
    """-> list of dims for the class (ax, when given, must be reduced)."""
    if dimclass == "None":
        return None
    if dimclass == "[]":
        return []
    if rank == 0:
        return {"0": [0], "-1": [-1]}[dimclass]
    if dimclass == "-rank":
        return [-rank]
    if dimclass == "last":
        return [rank - 1]
    if dimclass == "-1":
        return [-1]
    if dimclass == "first":
        return [0]
    if dimclass == "ax":
        return [ax]
    if dimclass == "ax-neg":
        return [ax - rank]
    if dimclass == "multi":
        return sorted({0, rank - 1})
    if dimclass == "multi-neg-unsorted":
        return [-1, 0] if rank > 1 else [-1]
    if dimclass == "all":
        return list(range(rank))
    if dimclass == "multi-neg-pair":      # two NEGATIVE axes: an implementation that reduces one axis at a time must not let
        return [-2, -1] if rank > 1 else [-1]   # the first removal shift what the second index means
    if dimclass == "multi-mixed":         # a non-negative and a negative axis naming different dims, highest index first
        return [rank - 1, -rank] if rank > 1 else [-1]
    raise ValueError(dimclass)


def reduction(qn, dimtype, keepdim=True, dtype_kw=False, dom="any", mode="value", scale=4.0, pre=None, post=None,
              dtypes_kw=("f64", "i64", "f32"), only=None, none_ok=True, maxel=None, dim_kw=False):
    """dimtype: 'ints' (int[]), 'ints1' (required int[1]), 'ints_opt' (int[]? may be None), 'int', 'int_opt', None (full).
    pre(g, dt) -> extra positional args between self and dim; post(g, dt) -> extra positional after keepdim."""
    dts = [d for d in adm(qn) if only is None or d in only]
    if dimtype is None:
        dimclasses = [None]
    elif dimtype in ("int", "int_opt"):
        dimclasses = ["-rank", "last", "-1", "first"] + (["None"] if dimtype == "int_opt" else [])
    else:
        dimclasses = ["-rank", "last", "-1", "first", "multi", "multi-neg-unsorted", "multi-neg-pair", "multi-mixed", "all", "[]"] + \
            (["None"] if dimtype == "ints_opt" else [])

    def mk(dt, dimclass, kd, shapeclass, dkw=None, omit_kd=False):
        def b(g):
            shape, ax = _red_shape(g, shapeclass)
            if shapeclass == "n-by-3":
                shape, ax = [g.r.randint(2, 4), 3], 1
            if maxel:
                while _numel(shape) > maxel:
                    shape[shape.index(max(shape))] -= 1
            rank = len(shape)
            x = g.t(shape, dt, dom)
            if shapeclass == "n-by-3" and dt != "bool":
                x[0] = core.env().torch.tensor([1, 0, 0], dtype=x.dtype)  # a row whose mean (1/3) is inexact in every float type
            args = [x] + (pre(g, dt) if pre else [])
            if dimclass is not None:
                dc = dimclass
                if shapeclass in ("size0-reduced", "size1-reduced") and dc not in ("None", "[]", "all"):
                    dc = "ax" if dimclass in ("last", "first") else "ax-neg"
                if shapeclass == "size0-other" and dc not in ("None", "[]", "all"):
                    dc = "ax"
                d = _red_dims(g, dc, rank, ax)
                if dimtype in ("int", "int_opt") and d is not None:
                    d = d[0]
                args.append(d)
            if keepdim and not omit_kd:
                args.append(bool(kd))
                if post:
                    args += post(g, dt)
            kw = {}
            if dkw:
                kw["dtype"] = core.env().tdt[dkw]
            return args, kw
        return b

    for dt in dts:
        dc0 = None if dimtype is None else "-1"
        yield S(f"dim={dc0}/kd=omitted/nd/{dt}", mk(dt, dc0, 0, "nd", omit_kd=True), mode=mode, scale=scale)
    for dt in lead(dts):
        for dc in dimclasses:
            for kd in ((0, 1) if keepdim else (0,)):
                yield S(f"dim={dc}/kd={kd}/nd/{dt}", mk(dt, dc, kd, "nd"), mode=mode, scale=scale)
        # special shapes
        z = {None: [None], "int": ["0", "-1"], "int_opt": ["0", "-1", "None"], "ints": ["0", "-1", "[]"],
             "ints1": ["0", "-1", "[]"], "ints_opt": ["0", "-1", "[]", "None"]}[dimtype]
        for dc in z:
            for kd in ((0, 1) if keepdim else (0,)):
                yield S(f"dim={dc}/kd={kd}/0-d/{dt}", mk(dt, dc, kd, "0-d"), mode=mode, scale=scale)
        for sc in ("size0-reduced", "size1-reduced", "size0-other", "r1"):
            for dc in ([None] if dimtype is None else ["last", "-1"] + (["None"] if dimtype in ("int_opt", "ints_opt") else [])):
                if sc == "r1" and dc == "last":
                    continue
                for kd in ((0, 1) if keepdim else (0,)):
                    yield S(f"dim={dc}/kd={kd}/{sc}/{dt}", mk(dt, dc, kd, sc), mode=mode, scale=scale)
    if dtype_kw:
        for dt in lead(dts, ("f32", "i64", "bool")) + [d for d in ("f16", "i32") if d in dts]:
            for dk in dtypes_kw:
                if is_float(dt) and not is_float(dk):
                    continue  # float -> int casts of non-integral values are not generated
                dc = None if dimtype is None else "-1"
                yield S(f"dtype={dk}/dim={dc}/n-by-3/{dt}", mk(dt, dc, 0, "n-by-3", dkw=dk), mode=mode, scale=scale)
            yield S(f"dtype=None/dim={'full' if dimtype is None else '-1'}/n-by-3/{dt}",
                    (lambda g, dt=dt: (lambda a: (a[0], {"dtype": None}))(mk(dt, None if dimtype is None else "-1", 0, "n-by-3")(g))), mode=mode, scale=scale)


_R = "reduce"
reg(_R, "aten::sum", reduction, dimtype=None, keepdim=False, dtype_kw=True)
reg(_R, "aten::sum.dim_IntList", reduction, dimtype="ints_opt", dtype_kw=True)
reg(_R, "aten::mean", reduction, dimtype=None, keepdim=False, dtype_kw=True, dtypes_kw=("f64", "f32"))
reg(_R, "aten::mean.dim", reduction, dimtype="ints_opt", dtype_kw=True, dtypes_kw=("f64", "f32"))
reg(_R, "aten::prod", reduction, dimtype=None, keepdim=False, dtype_kw=True, dom="small", maxel=12)
reg(_R, "aten::prod.dim_int", reduction, dimtype="int", dtype_kw=True, dom="small", maxel=24)
reg(_R, ["aten::amax", "aten::amin"], reduction, dimtype="ints")
reg(_R, ["aten::max", "aten::min"], reduction, dimtype=None, keepdim=False)
reg(_R, ["aten::max.dim", "aten::min.dim"], reduction, dimtype="int", dom="distinct")
reg(_R, ["aten::all", "aten::any"], reduction, dimtype=None, keepdim=False, dom="prob")
reg(_R, ["aten::all.dim", "aten::any.dim"], reduction, dimtype="int", dom="prob")
reg(_R, ["aten::all.dims", "aten::any.dims"], reduction, dimtype="ints_opt", dom="prob")
reg(_R, ["aten::argmax", "aten::argmin"], reduction, dimtype="int_opt", dom="distinct")
reg(_R, "aten::logsumexp", reduction, dimtype="ints1", dom="small")
reg(_R, "prims::sum", reduction, dimtype="ints_opt", keepdim=False)


def ties(qn):
    """first-occurrence rule for index-returning reductions when the extreme value repeats."""
    for dt in lead(adm(qn), ("f32", "i64")):
        def b(g, dt=dt):
            shape = g.dims(2, 3, 5)
            x = g.t(shape, dt, "small")
            return [x, g.r.choice((0, 1, -1))], {}
        yield S(f"ties/{dt}", b)


reg("reduce_ties", ["aten::argmax", "aten::argmin", "aten::max.dim", "aten::min.dim"], ties)


def vector_norm(qn):
    for dt in adm(qn):
        yield S(f"defaults/nd/{dt}", (lambda g, dt=dt: ([g.t(g.shape("nd"), dt, "any")], {})), scale=4.0)
    for dt in lead(adm(qn), ("f32",)):
        for o in (2, 1, 0, 3, float("inf"), float("-inf"), 0.5, -1):
            for dimc in ("None", "last", "-rank", "multi"):
                for kd in (0, 1):
                    def b(g, dt=dt, o=o, dimc=dimc, kd=kd):
                        shape = g.dims(g.r.randint(2, 3))
                        d = _red_dims(g, dimc, len(shape), 0)
                        return [g.t(shape, dt, "nz"), o, d, bool(kd)], {}
                    yield S(f"ord={o}/dim={dimc}/kd={kd}/nd/{dt}", b, scale=4.0)
            yield S(f"ord={o}/0-d/{dt}", (lambda g, dt=dt, o=o: ([g.t([], dt, "nz"), o], {})), scale=4.0)
        yield S(f"dtype=f64/{dt}", (lambda g, dt=dt: ([g.t(g.shape("r2"), dt, "nz"), 2, None, False], {"dtype": core.env().tdt["f64"]})), scale=4.0)
        yield S(f"size0-reduced/{dt}", (lambda g, dt=dt: ([g.t([2, 0], dt), 2, [1], False], {})), scale=4.0)


reg(_R, "aten::linalg_vector_norm", vector_norm)


def prims_var(qn):
    for dt in [d for d in adm(qn) if is_float(d)]:
        for corr in (1, 0, 2):
            for dimc in ("last", "-rank", "multi", "all"):
                def b(g, dt=dt, corr=corr, dimc=dimc):
                    shape = g.dims(g.r.randint(2, 3), 3, 5)
                    return [g.t(shape, dt, "any"), _red_dims(g, dimc, len(shape), 0), corr], {}
                yield S(f"corr={corr}/dim={dimc}/{dt}", b, scale=10.0)


reg(_R, "prims::var", prims_var)


def cumulative(qn, dom="any", dtype_kw=True, scale=4.0):
    dts = adm(qn)
    for dt in dts:
        yield S(f"dim=-1/nd/{dt}", (lambda g, dt=dt: ([g.t(g.shape("nd"), dt, dom), -1], {})), scale=scale)
    for dt in lead(dts, ("f32", "i64")):
        for dimc in ("-rank", "first", "last"):
            def b(g, dt=dt, dimc=dimc):
                shape = g.dims(g.r.randint(2, 4))
                return [g.t(shape, dt, dom), _red_dims(g, dimc, len(shape), 0)[0]], {}
            yield S(f"dim={dimc}/nd/{dt}", b, scale=scale)
        for d in (0, -1):
            yield S(f"dim={d}/0-d/{dt}", (lambda g, dt=dt, d=d: ([g.t([], dt, dom), d], {})), scale=scale)
        yield S(f"size0-axis/{dt}", (lambda g, dt=dt: ([g.t([2, 0, 3], dt), 1], {})), scale=scale)
        yield S(f"size0-other/{dt}", (lambda g, dt=dt: ([g.t([0, 3], dt), 1], {})), scale=scale)
        yield S(f"size1-axis/{dt}", (lambda g, dt=dt: ([g.t([3, 1], dt, dom), 1], {})), scale=scale)
        if dtype_kw:
            for dk in ("f64", "i64", "f32"):
                if is_float(dt) and not is_float(dk):
                    continue
                yield S(f"dtype={dk}/{dt}", (lambda g, dt=dt, dk=dk: ([g.t(g.shape("r2"), dt, dom), 1], {"dtype": core.env().tdt[dk]})), scale=scale)
            yield S(f"dtype=None/{dt}", (lambda g, dt=dt: ([g.t(g.shape("r2"), dt, dom), 0], {"dtype": None})), scale=scale)
    if "i32" in dts and dtype_kw:
        yield S("dtype=omitted-int-promotes/i32", (lambda g: ([g.t(g.shape("r2"), "i32", dom), 0], {})), scale=scale)


reg(_R, "aten::cumsum", cumulative)
reg(_R, "aten::logcumsumexp", cumulative, dom="small", dtype_kw=False)


def topk_sort(qn, kind):
    dts = [d for d in adm(qn) if d != "bool"]
    for dt in dts:
        def b(g, dt=dt):
            shape = g.dims(g.r.randint(1, 3), 3, 5)
            x = g.t(shape, dt, "distinct")
            if kind == "topk":
                return [x, g.r.randint(1, shape[-1])], {}
            return [x], {}
        yield S(f"defaults/nd/{dt}", b)
    for dt in lead(dts, ("f32", "i64")):
        for dimc in ("-rank", "first", "last"):
            for flag in (True, False):
                def b2(g, dt=dt, dimc=dimc, flag=flag):
                    shape = g.dims(g.r.randint(2, 3), 3, 5)
                    d = _red_dims(g, dimc, len(shape), 0)[0]
                    x = g.t(shape, dt, "distinct")
                    if kind == "topk":
                        return [x, g.r.randint(1, shape[d]), d, flag], {}
                    return [x, d, flag], {}
                yield S(f"dim={dimc}/{'largest' if kind == 'topk' else 'descending'}={int(flag)}/{dt}", b2)
        if kind == "topk":
            yield S(f"k=0/{dt}", (lambda g, dt=dt: ([g.t([3, 4], dt, "distinct"), 0], {})))
            yield S(f"k=full/{dt}", (lambda g, dt=dt: ([g.t([3, 4], dt, "distinct"), 4], {})))
            yield S(f"0-d/{dt}", (lambda g, dt=dt: ([g.t([], dt), 1], {})))
            yield S(f"sorted=False/{dt}", (lambda g, dt=dt: ([g.t([3, 4], dt, "distinct"), 4, -1, True, False], {})), mode="shape_only")
        else:
            yield S(f"0-d/{dt}", (lambda g, dt=dt: ([g.t([], dt)], {})))
            yield S(f"size0/{dt}", (lambda g, dt=dt: ([g.t([2, 0], dt)], {})))
            yield S(f"size1/{dt}", (lambda g, dt=dt: ([g.t([3, 1], dt, "distinct")], {})))


reg(_R, "aten::topk", topk_sort, kind="topk")
reg(_R, "aten::sort", topk_sort, kind="sort")

# ---------------------------------------------------------------------------------------------
# F5: softmax family


def softmax(qn, form):
    """form: 'int' (self, dim, dtype=None positional-with-default), 'kwdtype' (dtype keyword-only), 'half' (self, dim, half_to_float)."""
    dts = adm(qn)
    tdt = core.env().tdt

    def args(g, dt, shape, dim, extra=None):
        a = [g.t(shape, dt, "small"), dim]
        kw = {}
        if form == "half":
            a.append(bool(extra))
        elif extra is not None:
            if form == "int":
                a.append(tdt[extra] if extra != "None" else None)
            else:
                kw["dtype"] = tdt[extra] if extra != "None" else None
        return a, kw

    for dt in dts:
        yield S(f"dim=-1/nd/{dt}", (lambda g, dt=dt: args(g, dt, g.shape("nd"), -1)), scale=4.0)
    for dt in lead(dts, ("f32",)):
        for dimc in ("-rank", "first", "last", "mid"):
            def b(g, dt=dt, dimc=dimc):
                shape = g.dims(g.r.randint(2, 4))
                d = 1 if dimc == "mid" else _red_dims(g, dimc, len(shape), 0)[0]
                return args(g, dt, shape, d)
            yield S(f"dim={dimc}/nd/{dt}", b, scale=4.0)
        for d in (0, -1):
            yield S(f"dim={d}/0-d/{dt}", (lambda g, dt=dt, d=d: args(g, dt, [], d)), scale=4.0)
        yield S(f"size0-axis/{dt}", (lambda g, dt=dt: args(g, dt, [2, 0], 1)), scale=4.0)
        yield S(f"size0-other/{dt}", (lambda g, dt=dt: args(g, dt, [2, 0], 0)), scale=4.0)
        yield S(f"size1-axis/{dt}", (lambda g, dt=dt: args(g, dt, [3, 1], -1)), scale=4.0)
        yield S(f"r1/{dt}", (lambda g, dt=dt: args(g, dt, [5], 0)), scale=4.0)
    if form == "half":
        if "f16" in dts:
            yield S("half_to_float=1/f16", (lambda g: args(g, "f16", g.shape("r2"), -1, True)), scale=4.0)
    else:
        for dt in [d for d in ("f32", "f16") if d in dts]:
            for dk in ("f64", "f32", "None"):
                yield S(f"dtype={dk}/{dt}", (lambda g, dt=dt, dk=dk: args(g, dt, g.shape("r2"), -1, dk)), scale=4.0)


_SM = "softmax"
reg(_SM, ["aten::softmax.int", "aten::log_softmax.int", "aten::special_softmax"], softmax, form="int")
reg(_SM, "aten::special_log_softmax", softmax, form="kwdtype")
reg(_SM, ["aten::_softmax", "aten::_log_softmax"], softmax, form="half")

# ---------------------------------------------------------------------------------------------
# F6: normalisations


def layer_norm(qn, native):
    dts = [d for d in adm(qn) if is_float(d)]
    for dt in dts:
        for wb in ("wb", "w", "none"):
            for nd in (1, 2):
                def b(g, dt=dt, wb=wb, nd=nd):
                    shape = g.dims(g.r.randint(nd, 3) if nd < 3 else 3, 2, 4)
                    if len(shape) < nd:
                        shape = g.dims(nd, 2, 4)
                    ns = shape[-nd:]
                    x = g.t(shape, dt, "any")
                    w = g.t(ns, dt, "nz") if wb in ("wb", "w") else None
                    bb = g.t(ns, dt, "any") if wb == "wb" else None
                    eps = g.r.choice((1e-5, 1e-3))
                    if native:
                        return [x, ns, w, bb, eps], {}
                    if wb == "none" and g.r.random() < 0.5:
                        return [x, ns], {}
                    return [x, ns, w, bb, eps], {}
                yield S(f"affine={wb}/normalized_dims={nd}/{dt}", b, scale=20.0 if dt != "f64" else 1e4)
    for dt in lead(dts, ("f32",)):
        yield S(f"size0-batch/{dt}", (lambda g, dt=dt: ([g.t([0, 3], dt), [3], g.t([3], dt, "nz"), g.t([3], dt), 1e-5], {})), scale=20.0)
        yield S(f"normalized=all-dims/{dt}", (lambda g, dt=dt: ([g.t([2, 3], dt), [2, 3], g.t([2, 3], dt, "nz"), g.t([2, 3], dt), 1e-5], {})), scale=20.0)
        yield S(f"normalized-size1/{dt}", (lambda g, dt=dt: ([g.t([3, 1], dt), [1], g.t([1], dt, "nz"), g.t([1], dt), 1e-5], {})), scale=20.0)


_N = "norm"
reg(_N, "aten::layer_norm", layer_norm, native=False)
reg(_N, "aten::native_layer_norm", layer_norm, native=True)


def group_norm(qn, native):
    dts = [d for d in adm(qn) if is_float(d)]
    for dt in dts:
        for wb in ("wb", "w", "none"):
            for gc in ("groups=1", "groups=C", "groups=mid"):
                for rank in (2, 3, 4):
                    def b(g, dt=dt, wb=wb, gc=gc, rank=rank):
                        C = g.r.choice((2, 4, 6))
                        G_ = {"groups=1": 1, "groups=C": C, "groups=mid": 2}[gc]
                        N = g.r.randint(1, 3)
                        sp = g.dims(rank - 2, 2, 3)
                        x = g.t([N, C] + sp, dt, "any")
                        w = g.t([C], dt, "nz") if wb in ("wb", "w") else None
                        bb = g.t([C], dt, "any") if wb == "wb" else None
                        eps = 1e-5
                        if native:
                            return [x, w, bb, N, C, _numel(sp), G_, eps], {}
                        if wb == "none" and g.r.random() < 0.5:
                            return [x, G_], {}
                        return [x, G_, w, bb, eps], {}
                    yield S(f"affine={wb}/{gc}/rank={rank}/{dt}", b, scale=20.0 if dt != "f64" else 1e4)


reg(_N, "aten::group_norm", group_norm, native=False)
reg(_N, "aten::native_group_norm", group_norm, native=True)


def batch_norm(qn, form):
    """form: 'native' (input,w,b,rm,rv,training,momentum,eps), 'legit' (same, stats required), 'no_stats', 'no_training',
    'functional', 'instance'."""
    dts = [d for d in adm(qn) if is_float(d)]
    for dt in dts:
        for wb in ("wb", "none"):
            for training in ((False,) if form == "no_training" else (True,) if form == "no_stats" else (False, True)):
                for rank in (2, 3, 4):
                    def b(g, dt=dt, wb=wb, training=training, rank=rank):
                        C = g.r.randint(2, 4)
                        N = g.r.randint(2, 3)
                        x = g.t([N, C] + g.dims(rank - 2, 2, 3), dt, "any")
                        w = g.t([C], dt, "nz") if wb == "wb" else None
                        bb = g.t([C], dt, "any") if wb == "wb" else None
                        rm, rv = g.t([C], dt, "any"), g.t([C], dt, "pos")
                        mom, eps = 0.1, 1e-5
                        if form in ("native", "legit", "functional"):
                            return [x, w, bb, rm, rv, training, mom, eps], {}
                        if form == "no_stats":
                            return [x, w, bb, training, mom, eps], {}
                        if form == "no_training":
                            return [x, w, bb, rm, rv, mom, eps], {}
                        if form == "instance":
                            use_input_stats = training
                            return [x, w, bb, None if use_input_stats else rm, None if use_input_stats else rv, use_input_stats, mom, eps, False], {}
                        raise ValueError(form)
                    # training mode returns batch statistics (save_mean / save_invstd) whose definition differs per backend:
                    # values of the normalised output only
                    # outputs 1.. are save_mean / save_invstd (+ running stats): backend-specific residue (CPU eager returns
                    # empty tensors in inference mode, the definition of invstd differs in training) -> only out[0] is judged
                    mode = {"skip": [1, 2, 3, 4]} if form != "instance" else "value"
                    yield S(f"affine={wb}/training={int(training)}/rank={rank}/{dt}", b, mode=mode, scale=20.0 if dt != "f64" else 1e4)


reg(_N, "aten::native_batch_norm", batch_norm, form="native")
reg(_N, "aten::_native_batch_norm_legit", batch_norm, form="legit")
reg(_N, "aten::_native_batch_norm_legit.no_stats", batch_norm, form="no_stats")
reg(_N, "aten::_native_batch_norm_legit_no_training", batch_norm, form="no_training")
reg(_N, "aten::_native_batch_norm_legit_functional", batch_norm, form="functional")
reg(_N, "aten::instance_norm", batch_norm, form="instance")

# ---------------------------------------------------------------------------------------------
# F7: matmul family


def matmul(qn):
    dts = adm(qn)
    combos = {"1x1": lambda k, m, n, b: ([k], [k]), "2x2": lambda k, m, n, b: ([m, k], [k, n]), "1x2": lambda k, m, n, b: ([k], [k, n]),
              "2x1": lambda k, m, n, b: ([m, k], [k]), "3x3": lambda k, m, n, b: ([b, m, k], [b, k, n]),
              "3x2": lambda k, m, n, b: ([b, m, k], [k, n]), "2x3": lambda k, m, n, b: ([m, k], [b, k, n]),
              "3x1": lambda k, m, n, b: ([b, m, k], [k]), "1x3": lambda k, m, n, b: ([k], [b, k, n]),
              "4x3-bcast": lambda k, m, n, b: ([2, b, m, k], [1, k, n]), "4x4-bcast1": lambda k, m, n, b: ([2, 1, m, k], [1, b, k, n]),
              "k=0": lambda k, m, n, b: ([m, 0], [0, n]), "m=0": lambda k, m, n, b: ([0, k], [k, n]), "k=1": lambda k, m, n, b: ([m, 1], [1, n])}
    for dt in dts:
        yield S(f"2x2/{dt}", (lambda g, dt=dt: (lambda s: ([g.t(s[0], dt, "small"), g.t(s[1], dt, "small")], {}))(combos["2x2"](g.r.randint(2, 4), g.r.randint(2, 4), g.r.randint(2, 4), 2))), scale=10.0)
    for dt in lead(dts, ("f32", "i64")):
        for name, f in combos.items():
            if name == "2x2":
                continue
            def b(g, dt=dt, f=f):
                sa, sb = f(g.r.randint(2, 4), g.r.randint(2, 4), g.r.randint(2, 4), g.r.randint(2, 3))
                return [g.t(sa, dt, "small"), g.t(sb, dt, "small")], {}
            yield S(f"{name}/{dt}", b, scale=10.0)


def mm_like(qn, ranks):
    """mm (2x2), bmm (3x3), mv (2x1), dot (1x1)."""
    dts = adm(qn)
    def shapes(g, variant):
        k, m, n, b = g.r.randint(2, 4), g.r.randint(2, 4), g.r.randint(2, 4), g.r.randint(2, 3)
        if variant == "k=0":
            k = 0
        if variant == "m=0":
            m = 0
        if variant == "k=1":
            k = 1
        if variant == "b=0":
            b = 0
        return {"2x2": ([m, k], [k, n]), "3x3": ([b, m, k], [b, k, n]), "2x1": ([m, k], [k]), "1x1": ([k], [k])}[ranks]
    for dt in dts:
        yield S(f"plain/{dt}", (lambda g, dt=dt: (lambda s: ([g.t(s[0], dt, "small"), g.t(s[1], dt, "small")], {}))(shapes(g, "plain"))), scale=10.0)
    for dt in lead(dts, ("f32", "i64")):
        for v in ("k=0", "m=0", "k=1") + (("b=0",) if ranks == "3x3" else ()):
            if ranks == "1x1" and v == "m=0":
                continue
            yield S(f"{v}/{dt}", (lambda g, dt=dt, v=v: (lambda s: ([g.t(s[0], dt, "small"), g.t(s[1], dt, "small")], {}))(shapes(g, v))), scale=10.0)


_M = "matmul"
reg(_M, "aten::matmul", matmul)
reg(_M, "aten::mm", mm_like, ranks="2x2")
reg(_M, "aten::bmm", mm_like, ranks="3x3")
reg(_M, "aten::mv", mm_like, ranks="2x1")
reg(_M, "aten::dot", mm_like, ranks="1x1")


def addmm_like(qn, kind):
    """addmm: self + mat1[m,k]@mat2[k,n]; baddbmm: batch; addbmm: sum over batch; addmv: mat@vec; addr: outer."""
    dts = adm(qn)

    def shapes(g, bias):
        k, m, n, b = g.r.randint(2, 4), g.r.randint(2, 4), g.r.randint(2, 4), g.r.randint(2, 3)
        if kind == "addmm":
            out, a, c = [m, n], [m, k], [k, n]
        elif kind == "baddbmm":
            out, a, c = [b, m, n], [b, m, k], [b, k, n]
        elif kind == "addbmm":
            out, a, c = [m, n], [b, m, k], [b, k, n]
        elif kind == "addmv":
            out, a, c = [m], [m, k], [k]
        else:
            out, a, c = [m, n], [m], [n]
        if bias == "full":
            s = out
        elif bias == "0-d":
            s = []
        elif bias == "row":
            s = out[-1:]
        elif bias == "ones":
            s = [1] * len(out)
        else:
            s = out[:-1] + [1] if len(out) > 1 else [1]
        return s, a, c

    def kwf(g, dt, which):
        if which == "omitted":
            return {}
        fl = is_float(dt)
        v = {"beta-alpha": {"beta": 0.5 if fl else 2, "alpha": -1.5 if fl else 3}, "beta=0": {"beta": 0, "alpha": 2 if not fl else 2.0},
             "alpha-only": {"alpha": 0.5 if fl else 2}, "beta-only": {"beta": 2.0 if fl else 2}, "int-on-float": {"beta": 2, "alpha": 3}}[which]
        return v

    for dt in dts:
        yield S(f"bias=full/scalars=omitted/{dt}", (lambda g, dt=dt: (lambda s: ([g.t(s[0], dt, "small"), g.t(s[1], dt, "small"), g.t(s[2], dt, "small")], {}))(shapes(g, "full"))), scale=10.0)
    for dt in lead(dts, ("f32", "i64")):
        for bias in ("full", "0-d", "row", "ones", "col"):
            for which in ("omitted", "beta-alpha", "beta=0", "alpha-only", "beta-only") + (("int-on-float",) if is_float(dt) else ()):
                if bias == "full" and which == "omitted":
                    continue
                if bias not in ("full", "row") and which not in ("omitted", "beta-alpha"):
                    continue
                def b(g, dt=dt, bias=bias, which=which):
                    s = shapes(g, bias)
                    return [g.t(s[0], dt, "small"), g.t(s[1], dt, "small"), g.t(s[2], dt, "small")], kwf(g, dt, which)
                yield S(f"bias={bias}/scalars={which}/{dt}", b, scale=10.0)


reg(_M, "aten::addmm", addmm_like, kind="addmm")
reg(_M, "aten::baddbmm", addmm_like, kind="baddbmm")
reg(_M, "aten::addbmm", addmm_like, kind="addbmm")
reg(_M, "aten::addmv", addmm_like, kind="addmv")
reg(_M, "aten::addr", addmm_like, kind="addr")


def linear(qn):
    dts = adm(qn)
    for dt in dts:
        for bias in ("bias", "None", "omitted"):
            for rank in (1, 2, 3, 4):
                def b(g, dt=dt, bias=bias, rank=rank):
                    i, o = g.r.randint(2, 4), g.r.randint(2, 4)
                    x = g.t(g.dims(rank - 1, 2, 3) + [i], dt, "small")
                    w = g.t([o, i], dt, "small")
                    if bias == "omitted":
                        return [x, w], {}
                    return [x, w, g.t([o], dt, "small") if bias == "bias" else None], {}
                yield S(f"bias={bias}/rank={rank}/{dt}", b, scale=10.0)
    for dt in lead(dts, ("f32",)):
        yield S(f"size0-batch/{dt}", (lambda g, dt=dt: ([g.t([0, 3], dt), g.t([2, 3], dt, "small"), g.t([2], dt, "small")], {})), scale=10.0)
        yield S(f"out=1/{dt}", (lambda g, dt=dt: ([g.t([4, 3], dt, "small"), g.t([1, 3], dt, "small"), g.t([1], dt, "small")], {})), scale=10.0)


reg(_M, "aten::linear", linear)

# ---------------------------------------------------------------------------------------------
# F8: view / shape family


def _all_dts(qn, i=0):
    return adm(qn, i)


def one_tensor(qn, variants, dom="any", lead_only=None, generic=None):
    """variants: list of (label, builder(g, dt) -> (args, kwargs)); each is run for the lead dtypes; `generic` (label) for all."""
    dts = adm(qn)
    generic = generic or variants[0][0]
    for lbl, b in variants:
        use = dts if lbl == generic else lead(dts, lead_only or ("f32", "i64", "bool"))
        for dt in use:
            yield S(f"{lbl}/{dt}", (lambda g, dt=dt, b=b: b(g, dt)))


def _reshape_variants(copy=False):
    def to(g, dt, src, dst):
        return [g.t(src, dt), list(dst)], {}
    return [
        ("nd", lambda g, dt: (lambda a, b, c: to(g, dt, [a, b, c], g.r.choice(([a * b, c], [a, b * c], [c, b, a], [a * b * c]))))(*g.dims(3, 2, 4))),
        ("minus1", lambda g, dt: (lambda a, b, c: to(g, dt, [a, b, c], g.r.choice(([-1, c], [a, -1], [-1], [a, -1, c]))))(*g.dims(3, 2, 4))),
        ("to-0-d", lambda g, dt: to(g, dt, g.r.choice(([1], [1, 1])), [])),
        ("from-0-d", lambda g, dt: to(g, dt, [], g.r.choice(([1], [1, 1])))),
        ("from-0-d-minus1", lambda g, dt: to(g, dt, [], [-1])),
        ("0-d-to-0-d", lambda g, dt: to(g, dt, [], [])),
        ("size0-zero-stays-in-place", lambda g, dt: to(g, dt, [2, 0, 3], g.r.choice(([6, 0], [3, 0, 2])))),
        ("size0-zero-moves", lambda g, dt: to(g, dt, [2, 0, 3], g.r.choice(([0, 3], [0], [0, 6])))),
        ("size0-minus1", lambda g, dt: to(g, dt, [2, 0, 3], g.r.choice(([0, -1], [-1, 0])))),
        ("size1", lambda g, dt: to(g, dt, [3, 1, 4], g.r.choice(([3, 4], [1, 12], [12, 1, 1])))),
        ("same", lambda g, dt: (lambda s: to(g, dt, s, s))(g.dims(2))),
    ]


_V = "view"
reg(_V, ["aten::view", "aten::reshape", "aten::_unsafe_view", "aten::view_copy", "prims::reshape"], one_tensor, variants=_reshape_variants())


def _expand_variants(with_implicit):
    def ex(g, dt, src, dst, kw=None):
        return [g.t(src, dt), list(dst)], (kw or {})
    v = [
        ("nd", lambda g, dt: (lambda a, b: ex(g, dt, [a, 1], [a, b]))(*g.dims(2))),
        ("prepend-dims", lambda g, dt: (lambda a, b, c: ex(g, dt, [b], [c, a, b]))(*g.dims(3, 2, 4))),
        ("minus1", lambda g, dt: (lambda a, b: ex(g, dt, [a, 1], [-1, b]))(*g.dims(2))),
        ("minus1-and-prepend", lambda g, dt: (lambda a, b, c: ex(g, dt, [a, 1], [c, -1, b]))(*g.dims(3, 2, 4))),
        ("from-0-d", lambda g, dt: ex(g, dt, [], g.dims(g.r.randint(1, 3)))),
        ("0-d-to-0-d", lambda g, dt: ex(g, dt, [], [])),
        ("same", lambda g, dt: (lambda s: ex(g, dt, s, s))(g.dims(2))),
        ("to-size0", lambda g, dt: ex(g, dt, [1, 3], [0, 3])),
        ("size0", lambda g, dt: ex(g, dt, [0, 1], [0, 4])),
        ("size1-to-size1", lambda g, dt: ex(g, dt, [1], [1, 1])),
    ]
    if with_implicit:
        v.append(("implicit=True", lambda g, dt: (lambda a, b: ex(g, dt, [a, 1], [a, b], {"implicit": True}))(*g.dims(2))))
    return v


reg(_V, "aten::expand", one_tensor, variants=_expand_variants(True))
reg(_V, "aten::broadcast_to", one_tensor, variants=_expand_variants(False))


def two_tensor_shape(qn, kind):
    dts = adm(qn)
    for dt in dts:
        def b(g, dt=dt):
            a, bb = g.dims(2)
            if kind == "expand_as":
                return [g.t([a, 1], dt), g.t([3, a, bb], dt)], {}
            return [g.t([a, bb], dt), g.t([bb, a], dt)], {}
        yield S(f"nd/{dt}", b)
    for dt in lead(dts):
        if kind == "expand_as":
            yield S(f"from-0-d/{dt}", (lambda g, dt=dt: ([g.t([], dt), g.t(g.dims(2), dt)], {})))
            yield S(f"0-d-both/{dt}", (lambda g, dt=dt: ([g.t([], dt), g.t([], dt)], {})))
            yield S(f"to-size0/{dt}", (lambda g, dt=dt: ([g.t([1, 2], dt), g.t([0, 2], dt)], {})))
        else:
            yield S(f"to-0-d/{dt}", (lambda g, dt=dt: ([g.t([1], dt), g.t([], dt)], {})))
            yield S(f"size0/{dt}", (lambda g, dt=dt: ([g.t([0, 3], dt), g.t([3, 0], dt)], {})))
        other = "i64" if dt != "i64" else "f32"
        yield S(f"other-dtype-differs/{dt}", (lambda g, dt=dt, other=other: ([g.t([2, 1] if kind == "expand_as" else [2, 3], dt), g.t([2, 3] if kind == "expand_as" else [3, 2], other)], {})))


reg(_V, "aten::expand_as", two_tensor_shape, kind="expand_as")
reg(_V, "aten::view_as", two_tensor_shape, kind="view_as")


def _perm(g, rank, neg=False):
    p = list(range(rank))
    g.r.shuffle(p)
    if neg:
        p = [d - rank if g.r.random() < 0.6 else d for d in p]
    return p


reg(_V, ["aten::permute", "prims::transpose"], one_tensor, variants=[
    ("nd", lambda g, dt: (lambda s: ([g.t(s, dt), _perm(g, len(s))], {}))(g.dims(g.r.randint(2, 4)))),
    ("negative-dims", lambda g, dt: (lambda s: ([g.t(s, dt), _perm(g, len(s), True)], {}))(g.dims(g.r.randint(2, 4)))),
    ("0-d", lambda g, dt: ([g.t([], dt), []], {})),
    ("r1", lambda g, dt: ([g.t([4], dt), [0]], {})),
    ("r1-negative", lambda g, dt: ([g.t([4], dt), [-1]], {})),
    ("size0", lambda g, dt: ([g.t([2, 0, 3], dt), _perm(g, 3)], {})),
    ("identity", lambda g, dt: ([g.t([2, 3], dt), [0, 1]], {})),
])
reg(_V, "aten::transpose.int", one_tensor, variants=[
    ("nd", lambda g, dt: (lambda s: ([g.t(s, dt)] + g.r.sample(range(len(s)), 2), {}))(g.dims(g.r.randint(2, 4)))),
    ("negative-dims", lambda g, dt: (lambda s: ([g.t(s, dt), -len(s), -1], {}))(g.dims(g.r.randint(2, 4)))),
    ("same-dim", lambda g, dt: ([g.t([2, 3], dt), 1, 1], {})),
    ("mixed-sign-same", lambda g, dt: ([g.t([2, 3], dt), 1, -1], {})),
    ("0-d", lambda g, dt: ([g.t([], dt), g.r.choice((0, -1)), g.r.choice((0, -1))], {})),
    ("r1", lambda g, dt: ([g.t([3], dt), 0, -1], {})),
    ("size0", lambda g, dt: ([g.t([2, 0], dt), 0, 1], {})),
])
reg(_V, "aten::t", one_tensor, variants=[
    ("r2", lambda g, dt: ([g.t(g.dims(2), dt)], {})), ("r1", lambda g, dt: ([g.t([3], dt)], {})), ("0-d", lambda g, dt: ([g.t([], dt)], {})),
    ("size0", lambda g, dt: ([g.t([0, 2], dt)], {})),
])
reg(_V, ["aten::mT", "aten::mH"], one_tensor, variants=[
    ("r2", lambda g, dt: ([g.t(g.dims(2), dt)], {})), ("r3", lambda g, dt: ([g.t(g.dims(3), dt)], {})), ("r4", lambda g, dt: ([g.t(g.dims(4), dt)], {})),
    ("size0", lambda g, dt: ([g.t([2, 0, 3], dt)], {})),
])
reg(_V, "aten::squeeze", one_tensor, variants=[
    ("nd-with-ones", lambda g, dt: ([g.t(g.r.choice(([1, 3, 1], [2, 1], [1, 1, 4, 1], [3, 1, 2])), dt)], {})),
    ("no-ones", lambda g, dt: ([g.t(g.dims(2), dt)], {})), ("all-ones", lambda g, dt: ([g.t([1, 1], dt)], {})),
    ("0-d", lambda g, dt: ([g.t([], dt)], {})), ("size0", lambda g, dt: ([g.t([1, 0, 1], dt)], {})),
])
reg(_V, "aten::squeeze.dim", one_tensor, variants=[
    ("dim-is-one", lambda g, dt: ([g.t([3, 1, 2], dt), 1], {})), ("negative-dim", lambda g, dt: ([g.t([3, 1, 2], dt), -2], {})),
    ("dim=-rank", lambda g, dt: ([g.t([1, 3, 2], dt), -3], {})), ("dim-not-one", lambda g, dt: ([g.t([3, 1, 2], dt), g.r.choice((0, 2, -1))], {})),
    ("0-d", lambda g, dt: ([g.t([], dt), g.r.choice((0, -1))], {})), ("size0-dim", lambda g, dt: ([g.t([0, 1], dt), 0], {})),
    ("size0-other", lambda g, dt: ([g.t([0, 1], dt), 1], {})), ("r1-to-0-d", lambda g, dt: ([g.t([1], dt), 0], {})),
])
reg(_V, "prims::squeeze", one_tensor, variants=[
    ("one-dim", lambda g, dt: ([g.t([3, 1, 2], dt), [1]], {})), ("two-dims", lambda g, dt: ([g.t([1, 3, 1], dt), [0, 2]], {})),
    ("empty-dims", lambda g, dt: ([g.t([3, 1], dt), []], {})), ("to-0-d", lambda g, dt: ([g.t([1], dt), [0]], {})),
])
reg(_V, "aten::unsqueeze", one_tensor, variants=[
    ("nd", lambda g, dt: (lambda s: ([g.t(s, dt), g.r.randint(0, len(s))], {}))(g.dims(g.r.randint(1, 3)))),
    ("dim=-1", lambda g, dt: ([g.t(g.dims(2), dt), -1], {})),
    ("dim=-rank-1", lambda g, dt: (lambda s: ([g.t(s, dt), -len(s) - 1], {}))(g.dims(g.r.randint(1, 3)))),
    ("dim=rank", lambda g, dt: (lambda s: ([g.t(s, dt), len(s)], {}))(g.dims(g.r.randint(1, 3)))),
    ("0-d", lambda g, dt: ([g.t([], dt), g.r.choice((0, -1))], {})), ("size0", lambda g, dt: ([g.t([0, 2], dt), g.r.choice((0, 1, 2, -1))], {})),
])
reg(_V, "aten::flatten.using_ints", one_tensor, variants=[
    ("defaults", lambda g, dt: ([g.t(g.dims(g.r.randint(2, 4)), dt)], {})),
    ("start-end", lambda g, dt: ([g.t(g.dims(4), dt), 1, 2], {})),
    ("negative", lambda g, dt: ([g.t(g.dims(4), dt), -3, -2], {})),
    ("start=-rank", lambda g, dt: ([g.t(g.dims(3), dt), -3, 1], {})),
    ("start=end", lambda g, dt: ([g.t(g.dims(3), dt), 1, 1], {})),
    ("start-only", lambda g, dt: ([g.t(g.dims(3), dt), 1], {})),
    ("0-d", lambda g, dt: ([g.t([], dt)], {})), ("0-d-explicit", lambda g, dt: ([g.t([], dt), 0, -1], {})),
    ("r1", lambda g, dt: ([g.t([4], dt)], {})), ("size0", lambda g, dt: ([g.t([2, 0, 3], dt)], {})),
    ("size0-partial", lambda g, dt: ([g.t([2, 0, 3], dt), 0, 1], {})),
])
reg(_V, "aten::unflatten.int", one_tensor, variants=[
    ("nd", lambda g, dt: ([g.t([2, 6, 3], dt), 1, [2, 3]], {})), ("minus1", lambda g, dt: ([g.t([2, 6], dt), 1, [-1, 2]], {})),
    ("negative-dim", lambda g, dt: ([g.t([2, 6], dt), -1, [3, 2]], {})), ("dim=-rank", lambda g, dt: ([g.t([6, 2], dt), -2, [3, 2]], {})),
    ("single", lambda g, dt: ([g.t([4], dt), 0, [4]], {})), ("size0", lambda g, dt: ([g.t([0, 4], dt), 1, [2, 2]], {})),
    ("three", lambda g, dt: ([g.t([8], dt), 0, [2, 2, 2]], {})),
])
reg(_V, "prims::broadcast_in_dim", one_tensor, variants=[
    ("nd", lambda g, dt: (lambda a, b, c: ([g.t([a, 1], dt), [c, a, b], [1, 2]], {}))(*g.dims(3, 2, 4))),
    ("from-0-d", lambda g, dt: ([g.t([], dt), g.dims(2), []], {})),
    ("non-adjacent", lambda g, dt: (lambda a, b, c: ([g.t([a, c], dt), [a, b, c], [0, 2]], {}))(*g.dims(3, 2, 4))),
    ("same", lambda g, dt: ([g.t([2, 3], dt), [2, 3], [0, 1]], {})),
    ("to-size0", lambda g, dt: ([g.t([1], dt), [0, 2], [0]], {})),
])
for _n in ("aten::alias", "aten::detach", "aten::clone", "aten::contiguous", "aten::lift_fresh_copy", "aten::_conj", "aten::conj",
           "aten::resolve_conj", "aten::resolve_neg"):
    reg(_V, _n, unary)
reg(_V, "aten::clone", unary, kw=[("memory_format=omitted", lambda g, dt: {}), ("memory_format=contiguous", lambda g, dt: {"memory_format": core.env().torch.contiguous_format}),
                                  ("memory_format=preserve", lambda g, dt: {"memory_format": core.env().torch.preserve_format})])


def casts(qn, form):
    """dtype conversions restricted to value-safe pairs (no float->int of non-integral/out-of-range, no negative->u8)."""
    tdt = core.env().tdt
    dts = adm(qn)
    for src in dts:
        for dst in DT:
            def b(g, src=src, dst=dst):
                if dst == "bool":
                    dom = "small"
                elif is_float(src) and is_int(dst):
                    dom = "pos"  # drawn then made integral below
                else:
                    dom = "pos" if dst == "u8" else "any"
                x = g.t(g.shape("nd"), src, dom)
                if is_float(src) and is_int(dst):
                    x = x.round()
                if form == "to_copy":
                    return [x], {"dtype": tdt[dst]}
                if form == "prims":
                    return [x, tdt[dst]], {}
                return [x, g.t([2], dst)], {}
            yield S(f"to={dst}/{src}", b)
    for src in lead(dts):
        if form == "to_copy":
            yield S(f"dtype=omitted/{src}", (lambda g, src=src: ([g.t(g.shape("nd"), src)], {})))
            yield S(f"dtype=None/{src}", (lambda g, src=src: ([g.t(g.shape("nd"), src)], {"dtype": None})))
        yield S(f"0-d/{src}", (lambda g, src=src: (lambda x: ([x], {"dtype": tdt["f64"]}) if form == "to_copy" else ([x, tdt["f64"]], {}) if form == "prims" else ([x, g.t([], "f64")], {}))(g.t([], src, "pos"))))
        yield S(f"size0/{src}", (lambda g, src=src: (lambda x: ([x], {"dtype": tdt["f32"]}) if form == "to_copy" else ([x, tdt["f32"]], {}) if form == "prims" else ([x, g.t([0], "f32")], {}))(g.t([0, 2], src))))


reg(_V, "aten::_to_copy", casts, form="to_copy")
reg(_V, "prims::convert_element_type", casts, form="prims")
reg(_V, "aten::type_as", casts, form="type_as")

# ---------------------------------------------------------------------------------------------
# F9: cat / stack / split / slice / select / gather / scatter / where / masked_fill / tri / flip / roll / repeat


def cat_like(qn, stack):
    dts = adm(qn)

    def mk(dt, variant):
        def b(g):
            rank = g.r.randint(1, 3)
            shape = g.dims(rank)
            n = g.r.randint(2, 3)
            d = g.r.randrange(rank + (1 if stack else 0))
            if variant == "dim=omitted":
                d = None
            elif variant == "dim=negative":
                d = d - (rank + (1 if stack else 0))
            elif variant == "dim=-rank":
                d = -(rank + (1 if stack else 0))
            elif variant == "dim=last":
                d = rank - (0 if stack else 1)
            ts = []
            for _ in range(n):
                s = list(shape)
                if not stack and d is not None:
                    s[d] = g.r.randint(1, 3)
                elif not stack:
                    s[0] = g.r.randint(1, 3)
                ts.append(g.t(s, dt))
            if variant == "single":
                ts = ts[:1]
            return ([ts] if d is None else [ts, d]), {}
        return b

    for dt in dts:
        yield S(f"dim=given/{dt}", mk(dt, "dim=given"))
    for dt in lead(dts):
        for v in ("dim=omitted", "dim=negative", "dim=-rank", "dim=last", "single"):
            yield S(f"{v}/{dt}", mk(dt, v))
        if stack:
            yield S(f"0-d-inputs/{dt}", (lambda g, dt=dt: ([[g.t([], dt), g.t([], dt), g.t([], dt)], g.r.choice((0, -1))], {})))
            yield S(f"size0-inputs/{dt}", (lambda g, dt=dt: ([[g.t([0, 2], dt), g.t([0, 2], dt)], 1], {})))
        else:
            yield S(f"size0-along-dim/{dt}", (lambda g, dt=dt: ([[g.t([2, 0], dt), g.t([2, 3], dt)], 1], {})))
            yield S(f"all-size0-along-dim/{dt}", (lambda g, dt=dt: ([[g.t([2, 0], dt), g.t([2, 0], dt)], 1], {})))
            yield S(f"size0-other-dim/{dt}", (lambda g, dt=dt: ([[g.t([0, 2], dt), g.t([0, 3], dt)], 1], {})))
            yield S(f"legacy-empty-1d-skipped/{dt}", (lambda g, dt=dt: ([[g.t([0], dt), g.t([2, 3], dt), g.t([1, 3], dt)], 0], {})))


_I = "index"
reg(_I, ["aten::cat", "aten::concat", "aten::concatenate"], cat_like, stack=False)
reg(_I, "aten::stack", cat_like, stack=True)


def split_like(qn, kind):
    """kind: 'size' (split.Tensor / unsafe_split: int split_size), 'sizes' (split_with_sizes / split: int[]), 'chunk', 'unbind'."""
    dts = adm(qn)

    def mk(dt, v):
        def b(g):
            rank = g.r.randint(1, 3)
            shape = g.dims(rank, 3, 5)
            d = g.r.randrange(rank)
            L = shape[d]
            if v == "size0-along-dim":
                shape[d] = L = 0
            if v == "size0-other":
                shape = [0] + shape
                d += 1
                rank += 1
            dd = {"dim=negative": d - rank, "dim=-rank": -rank, "dim=omitted": None}.get(v, d)
            if v == "dim=-rank":
                d = 0
                L = shape[0]
            if v == "dim=omitted":
                d, L = 0, shape[0]
            x = g.t(shape, dt)
            if kind == "size":
                k = {"even": None, "uneven": None, "size>=len": L + g.r.randint(0, 2), "size=1": 1}.get(v)
                if v == "even":
                    k = g.r.choice([q for q in range(1, L + 1) if L % q == 0]) if L else 1
                elif k is None:
                    cands = [q for q in range(2, L) if L % q != 0]
                    k = g.r.choice(cands) if cands else max(1, L - 1) if L > 1 else 1
                a = [x, k]
            elif kind == "sizes":
                if L == 0:
                    sizes = [0] if v != "sizes-with-0" else [0, 0]
                else:
                    cut = sorted(g.r.sample(range(1, L), min(L - 1, g.r.randint(1, 2)))) if L > 1 else []
                    sizes = [b_ - a_ for a_, b_ in zip([0] + cut, cut + [L])]
                    if v == "sizes-with-0":
                        sizes.insert(g.r.randrange(len(sizes) + 1), 0)
                    if v == "single":
                        sizes = [L]
                a = [x, sizes]
            elif kind == "chunk":
                c = {"chunks=1": 1, "chunks>len": L + 2, "chunks=len": max(L, 1)}.get(v)
                if c is None and L > 0:
                    # (L, chunks) pairs by arithmetic class: ceil(L/c)*c == L | c chunks, last smaller | fewer than c chunks
                    pairs = {"even": [(4, 2), (3, 3), (4, 4), (6, 3), (6, 2)], "last-smaller": [(5, 2), (5, 3), (3, 2), (7, 3)],
                             "fewer-chunks": [(4, 3), (5, 4), (6, 4), (6, 5)]}["even" if v not in ("last-smaller", "fewer-chunks") else v]
                    L2, c = g.r.choice(pairs)
                    shape[d] = L2
                    x = g.t(shape, dt)
                elif c is None:
                    c = 2
                a = [x, c]
            else:
                a = [x]
            if dd is not None:
                a.append(dd)
            return a, {}
        return b

    base = {"size": ["uneven", "even", "size>=len", "size=1"], "sizes": ["plain", "sizes-with-0", "single"],
            "chunk": ["even", "last-smaller", "fewer-chunks", "chunks=1", "chunks>len", "chunks=len"], "unbind": ["plain"]}[kind]
    for dt in dts:
        yield S(f"{base[0]}/{dt}", mk(dt, base[0]))
    for dt in lead(dts):
        for v in base[1:] + ["dim=negative", "dim=-rank", "dim=omitted", "size0-other"] + (["size0-along-dim"] if kind != "chunk" else []):
            yield S(f"{v}/{dt}", mk(dt, v))


reg(_I, ["aten::split.Tensor", "aten::unsafe_split.Tensor"], split_like, kind="size")
reg(_I, ["aten::split_with_sizes", "aten::split"], split_like, kind="sizes")
reg(_I, "aten::chunk", split_like, kind="chunk")
reg(_I, "aten::unbind.int", split_like, kind="unbind")


def slice_(qn):
    dts = adm(qn)
    V = {
        "defaults": lambda L: [],
        "dim-only": lambda L: ["D"],
        "start-end": lambda L: ["D", 1, L - 1],
        "start=None": lambda L: ["D", None, L - 1],
        "end=None": lambda L: ["D", 1, None],
        "both-None": lambda L: ["D", None, None],
        "negative-start": lambda L: ["D", -2, None],
        "negative-end": lambda L: ["D", 0, -1],
        "negative-both": lambda L: ["D", -3, -1],
        "end>len": lambda L: ["D", 1, L + 5],
        "end=int64max": lambda L: ["D", 0, 9223372036854775807],
        "start>len": lambda L: ["D", L + 2, L + 5],
        "start<-len": lambda L: ["D", -L - 3, 2],
        "start>=end": lambda L: ["D", 2, 1],
        "start=end": lambda L: ["D", 1, 1],
        "step=2": lambda L: ["D", 0, L, 2],
        "step=3-offset": lambda L: ["D", 1, None, 3],
        "step>len": lambda L: ["D", 0, None, L + 1],
    }

    def mk(dt, v, dimc):
        def b(g):
            rank = g.r.randint(1, 3)
            shape = g.dims(rank, 3, 5)
            d = {"any": g.r.randrange(rank), "negative": g.r.randrange(rank) - rank, "-rank": -rank, "last": rank - 1}[dimc]
            L = shape[d]
            a = [d if q == "D" else q for q in V[v](L)]
            return [g.t(shape, dt)] + a, {}
        return b

    for dt in dts:
        yield S(f"start-end/dim=any/{dt}", mk(dt, "start-end", "any"))
    for dt in lead(dts):
        for v in V:
            yield S(f"{v}/dim=any/{dt}" if v != "start-end" else f"{v}/dim=last/{dt}", mk(dt, v, "any" if v != "start-end" else "last"))
        for dimc in ("negative", "-rank"):
            yield S(f"start-end/dim={dimc}/{dt}", mk(dt, "start-end", dimc))
        yield S(f"size0-along-dim/{dt}", (lambda g, dt=dt: ([g.t([2, 0], dt), 1, 0, 5], {})))
        yield S(f"size0-other/{dt}", (lambda g, dt=dt: ([g.t([0, 4], dt), 1, 1, 3], {})))


reg(_I, "aten::slice.Tensor", slice_)


def select_narrow(qn, kind):
    dts = adm(qn)

    def mk(dt, v):
        def b(g):
            rank = g.r.randint(1, 3)
            shape = g.dims(rank, 3, 5)
            d = g.r.randrange(rank)
            if v == "dim=negative":
                d -= rank
            if v == "dim=-rank":
                d = -rank
            L = shape[d]
            x = g.t(shape, dt)
            if kind == "select":
                i = {"index=0": 0, "index=last": L - 1, "index=-1": -1, "index=-len": -L}.get(v, g.r.randrange(L))
                return [x, d, i], {}
            st, ln = {"start=0-full": (0, L), "length=0": (1, 0), "length=1": (L - 1, 1), "negative-start": (-2, 2), "start=len-length=0": (L, 0)}.get(v, (1, L - 2 if L > 2 else 1))
            return [x, d, st, ln], {}
        return b

    vs = ["plain", "dim=negative", "dim=-rank"] + (["index=0", "index=last", "index=-1", "index=-len"] if kind == "select" else
                                                   ["start=0-full", "length=0", "length=1", "negative-start", "start=len-length=0"])
    for dt in dts:
        yield S(f"plain/{dt}", mk(dt, "plain"))
    for dt in lead(dts):
        for v in vs[1:]:
            yield S(f"{v}/{dt}", mk(dt, v))
        if kind == "select":
            yield S(f"r1-to-0-d/{dt}", (lambda g, dt=dt: ([g.t([4], dt), 0, g.r.randrange(4)], {})))
            yield S(f"size0-other/{dt}", (lambda g, dt=dt: ([g.t([0, 3], dt), 1, 2], {})))
        else:
            yield S(f"size0-other/{dt}", (lambda g, dt=dt: ([g.t([0, 3], dt), 1, 1, 2], {})))


reg(_I, "aten::select.int", select_narrow, kind="select")
reg(_I, "aten::narrow", select_narrow, kind="narrow")


def index_select(qn):
    dts = adm(qn)

    def mk(dt, v, idt="i64"):
        def b(g):
            rank = g.r.randint(1, 3)
            shape = g.dims(rank, 2, 5)
            d = g.r.randrange(rank)
            L = shape[d]
            dd = d - rank if v == "dim=negative" else (-rank if v == "dim=-rank" else d)
            if v == "dim=-rank":
                L = shape[0]
            n = {"index-size0": 0, "index-size1": 1}.get(v, g.r.randint(2, 4))
            idx = g.index([n] if v != "index-0-d" else [], L, idt)
            return [g.t(shape, dt), dd, idx], {}
        return b

    for dt in dts:
        yield S(f"plain/{dt}", mk(dt, "plain"))
    for dt in lead(dts):
        for v in ("dim=negative", "dim=-rank", "index-size0", "index-size1", "index-0-d"):
            yield S(f"{v}/{dt}", mk(dt, v))
        yield S(f"index-i32/{dt}", mk(dt, "plain", "i32"))
        yield S(f"self-0-d/{dt}", (lambda g, dt=dt: ([g.t([], dt), 0, g.index([1], 1)], {})))
        yield S(f"self-size0-other/{dt}", (lambda g, dt=dt: ([g.t([0, 3], dt), 1, g.index([2], 3)], {})))


reg(_I, "aten::index_select", index_select)


def gather_scatter(qn, kind):
    """gather(self, dim, index); scatter.src/scatter_add(self, dim, index, src); scatter.value(self, dim, index, value);
    scatter_reduce.two(self, dim, index, src, reduce, *, include_self)."""
    dts = adm(qn)

    def mk(dt, v, reduce=None, include_self=True, idt="i64", dup=None):
        def b(g):
            rank = g.r.randint(1, 3)
            shape = g.dims(rank, 2, 4)
            d = g.r.randrange(rank)
            if v.startswith("src-larger"):
                rank, shape, d = 2, g.dims(2, 2, 4), (0 if v.endswith("dim=0") else 1)
            dd = d - rank if v == "dim=negative" else (-rank if v == "dim=-rank" else d)
            if v == "dim=-rank":
                d = 0
            ishape = list(shape)
            if dup == "dup":
                ishape[d] = shape[d] + 1  # pigeonhole: at least one index repeats along dim
            if v == "index-smaller":
                ishape = [max(1, s - 1) for s in shape]
            if v == "index-size0":
                ishape[g.r.randrange(rank)] = 0
            if v == "index-longer-along-dim" and kind == "gather":
                ishape[d] = shape[d] + 2
            x = g.t(shape, dt, "small" if reduce == "prod" else "any")
            if kind in ("scatter.src", "scatter.value") or dup == "nodup":
                # duplicates make plain scatter nondeterministic: use distinct indices along dim
                import itertools

                idx = core.env().torch.zeros(ishape, dtype=core.env().tdt[idt])
                for pos in itertools.product(*[range(s) for s in ishape[:d] + ishape[d + 1:]]):
                    perm = g.r.sample(range(shape[d]), min(ishape[d], shape[d]))
                    for j, pv in enumerate(perm):
                        full = list(pos[:d]) + [j] + list(pos[d:])
                        idx[tuple(full)] = pv
            else:
                idx = g.index(ishape, shape[d], idt, neg=False)
            if kind == "gather":
                return [x, dd, idx], {}
            if kind == "scatter.value":
                return [x, dd, idx, g.scalar(dt, "any")], {}
            src = g.t(ishape if not v.startswith("src-larger") else [s + 1 for s in ishape], dt, "small" if reduce == "prod" else ("distinct" if reduce == "mean" else "any"))
            if reduce == "mean":
                src = src * 4  # spread: the mean of a group of distinct values is then not one of its members
            if kind == "scatter_reduce":
                return [x, dd, idx, src, reduce], ({"include_self": include_self} if include_self is not True or g.r.random() < 0.5 else {})
            return [x, dd, idx, src], {}
        return b

    if kind == "scatter_reduce":
        for dt in dts:
            yield S(f"reduce=sum/plain/{dt}", mk(dt, "plain", "sum"), scale=4.0)
        for dt in lead(dts, ("f32", "i64")):
            for red in ("sum", "prod", "mean", "amax", "amin"):
                for inc in (True, False):
                    for dup in ("dup", "nodup"):
                        yield S(f"reduce={red}/include_self={int(inc)}/{dup}/{dt}", mk(dt, "plain", red, inc, dup=dup), scale=4.0)
            for v in ("dim=negative", "dim=-rank", "index-smaller", "index-size0", "src-larger-dim=0", "src-larger-dim=1"):
                yield S(f"reduce=amax/{v}/{dt}", mk(dt, v, "amax"), scale=4.0)
            yield S(f"reduce=sum/0-d/{dt}", (lambda g, dt=dt: ([g.t([], dt), 0, g.index([], 1), g.t([], dt), "sum"], {})), scale=4.0)
        return
    for dt in dts:
        yield S(f"plain/{dt}", mk(dt, "plain"), scale=4.0)
    for dt in lead(dts):
        for v in ["dim=negative", "dim=-rank", "index-smaller", "index-size0"] + (["src-larger-dim=0", "src-larger-dim=1"] if kind in ("scatter.src", "scatter_add") else []) + \
                 (["index-longer-along-dim"] if kind == "gather" else []):
            yield S(f"{v}/{dt}", mk(dt, v), scale=4.0)
        yield S(f"index-i32/{dt}", mk(dt, "plain", idt="i32"), scale=4.0)
        if kind == "gather":
            yield S(f"0-d-self-0-d-index/{dt}", (lambda g, dt=dt: ([g.t([], dt), 0, g.index([], 1)], {})))
            yield S(f"0-d-self-r1-index/{dt}", (lambda g, dt=dt: ([g.t([], dt), 0, g.index([1], 1)], {})))
            yield S(f"r1-self-0-d-index/{dt}", (lambda g, dt=dt: ([g.t([4], dt), 0, g.index([], 4)], {})))
        elif kind == "scatter.value":
            yield S(f"0-d/{dt}", (lambda g, dt=dt: ([g.t([], dt), 0, g.index([], 1), g.scalar(dt)], {})))
        else:
            yield S(f"0-d/{dt}", (lambda g, dt=dt: ([g.t([], dt), 0, g.index([], 1), g.t([], dt)], {})))


reg(_I, "aten::gather", gather_scatter, kind="gather")
reg(_I, "aten::scatter.src", gather_scatter, kind="scatter.src")
reg(_I, "aten::scatter.value", gather_scatter, kind="scatter.value")
reg(_I, "aten::scatter_add", gather_scatter, kind="scatter_add")
reg(_I, "aten::scatter_reduce.two", gather_scatter, kind="scatter_reduce")


def where_(qn, form):
    """form: which of (self, other) are python scalars: 'tt', 'ts', 'st', 'ss'."""
    dts = adm(qn, 1) if form[0] == "t" else (adm(qn, 2) if form[1] == "t" else ["f32", "i64", "bool"])

    def mk(dt, v):
        def b(g):
            if v == "broadcast":
                sc, sa = g.bcast_pair()
                sb = sa
            elif v == "broadcast-3way":
                a, bb = g.dims(2)
                sc, sa, sb = [a, 1], [1, bb], [1]
            elif v == "0-d-cond":
                sc, sa, sb = [], g.dims(2), None
                sb = sa
            elif v == "0-d-operands":
                sc, sa, sb = g.dims(2), [], []
            elif v == "0-d-all":
                sc, sa, sb = [], [], []
            elif v == "size0":
                sc, sa, sb = [0, 3], [0, 3], [1, 3]
            else:
                sc = sa = sb = g.shape("nd")
            cond = g.t(sc, "bool")
            A = g.t(sa, dt) if form[0] == "t" else g.scalar(dt)
            B = g.t(sb, dt) if form[1] == "t" else g.scalar(dt)
            return [cond, A, B], {}
        return b

    for dt in dts:
        yield S(f"same-shape/{dt}", mk(dt, "same"))
    for dt in lead(dts):
        for v in ("broadcast", "broadcast-3way", "0-d-cond", "0-d-operands", "0-d-all", "size0"):
            yield S(f"{v}/{dt}", mk(dt, v))


reg(_I, ["aten::where.self", "prims::where"], where_, form="tt")
reg(_I, "aten::where.ScalarOther", where_, form="ts")
reg(_I, "aten::where.ScalarSelf", where_, form="st")
reg(_I, "aten::where.Scalar", where_, form="ss")


def masked_fill(qn, tensor_value):
    dts = adm(qn)

    def mk(dt, v, kind=None):
        def b(g):
            if v == "mask-broadcast":
                a, bb = g.dims(2)
                ss, sm = [a, bb], g.r.choice(([bb], [a, 1], [1, 1]))
            elif v == "0-d-self":
                ss, sm = [], []
            elif v == "0-d-mask":
                ss, sm = g.dims(2), []
            elif v == "size0":
                ss, sm = [0, 2], [0, 2]
            else:
                ss = sm = g.shape("nd")
            val = g.t([], dt) if tensor_value else g.scalar(dt, "any", kind)
            return [g.t(ss, dt), g.t(sm, "bool"), val], {}
        return b

    for dt in dts:
        yield S(f"same-shape/{dt}", mk(dt, "same"))
    for dt in lead(dts):
        for v in ("mask-broadcast", "0-d-self", "0-d-mask", "size0"):
            yield S(f"{v}/{dt}", mk(dt, v))
        if not tensor_value and is_float(dt):
            yield S(f"pyint-value/{dt}", mk(dt, "same", "int"))


reg(_I, "aten::masked_fill.Scalar", masked_fill, tensor_value=False)
reg(_I, "aten::masked_fill.Tensor", masked_fill, tensor_value=True)


def tri(qn):
    dts = adm(qn)

    def mk(dt, v):
        def b(g):
            m, n = g.r.randint(2, 5), g.r.randint(2, 5)
            shape = {"batch": [2, m, n], "batch2": [2, 1, m, n], "row": [1, n], "col": [m, 1], "size0": [0, n], "size0-batch": [0, m, n]}.get(v, [m, n])
            k = {"diag>0": g.r.randint(1, 2), "diag<0": -g.r.randint(1, 2), "diag>=n": max(m, n) + 1, "diag<=-m": -max(m, n) - 1, "diag=0": 0}.get(v)
            x = g.t(shape, dt, "nz" if dt != "bool" else "any")
            return ([x] if k is None else [x, k]), {}
        return b

    for dt in dts:
        yield S(f"diag=omitted/{dt}", mk(dt, "omitted"))
    for dt in lead(dts):
        for v in ("diag=0", "diag>0", "diag<0", "diag>=n", "diag<=-m", "batch", "batch2", "row", "col", "size0", "size0-batch"):
            yield S(f"{v}/{dt}", mk(dt, v))


reg(_I, ["aten::tril", "aten::triu"], tri)


def flip_roll(qn, kind):
    dts = adm(qn)

    def mk(dt, v):
        def b(g):
            rank = g.r.randint(2, 3) if v not in ("r1",) and not v.startswith("0-d") else (1 if v == "r1" else 0)
            shape = g.dims(rank, 2, 5)
            if v == "size0":
                shape[0] = 0
            x = g.t(shape, dt)
            if kind == "flip":
                dims = {"one-dim": [g.r.randrange(rank)] if rank else [], "negative": [-1], "-rank": [-rank] if rank else [], "two-dims": [0, -1],
                        "all-dims": list(range(rank)), "empty-dims": [], "r1": [0], "0-d": [], "0-d-dims=[0]": [0], "0-d-dims=[-1]": [-1], "size0": [0]}[v]
                return [x, dims], {}
            if v == "flat":
                return [x, [g.r.randint(1, 4)]], {}
            sh, dims = {"one-dim": ([1], [rank - 1 if rank else 0]), "negative-shift": ([-2], [0]), "negative-dim": ([1], [-1]), "-rank": ([1], [-rank if rank else 0]),
                        "shift>len": ([shape[0] + 2 if rank else 1], [0]), "two-dims": ([1, 2], [0, 1]), "shift=0": ([0], [0]), "same-dim-twice": ([1, 1], [0, 0]),
                        "r1": ([2], [0]), "0-d": ([1], [0]), "size0": ([1], [0])}[v]
            return [x, sh, dims], {}
        return b

    vs = ["one-dim", "negative", "-rank", "two-dims", "all-dims", "empty-dims", "r1", "0-d", "0-d-dims=[0]", "0-d-dims=[-1]", "size0"] if kind == "flip" else \
         ["one-dim", "negative-shift", "negative-dim", "-rank", "shift>len", "two-dims", "shift=0", "same-dim-twice", "flat", "r1", "size0"]
    for dt in dts:
        yield S(f"{vs[0]}/{dt}", mk(dt, vs[0]))
    for dt in lead(dts):
        for v in vs[1:]:
            yield S(f"{v}/{dt}", mk(dt, v))


reg(_I, "aten::flip", flip_roll, kind="flip")
reg(_I, "aten::roll", flip_roll, kind="roll")


def repeat_tile(qn, kind):
    dts = adm(qn)

    def mk(dt, v):
        def b(g):
            rank = {"0-d": 0, "r1": 1}.get(v, 2)
            shape = g.dims(rank, 2, 3)
            if v == "size0-self":
                shape = [0, 2]
            if v == "size0-self-more-dims":     # an empty input AND more repeats than dims: the prepended 1s shift every position
                shape = g.r.choice([[0, 3], [2, 0]])
            reps = {"same-rank": [g.r.randint(1, 3) for _ in range(rank)], "more-dims": [2] + [g.r.randint(1, 2) for _ in range(rank)],
                    "fewer-dims": [2], "ones": [1] * rank, "zero-rep": [2, 0], "empty-reps": [], "0-d": [g.r.randint(1, 3)], "r1": [2, 3],
                    "size0-self": [2, 2], "0-d-empty-reps": [], "size0-self-more-dims": [2, 1, 1]}[v if v != "0-d-empty-reps" else v]
            if v == "0-d-empty-reps":
                shape = []
            return [g.t(shape, dt), reps], {}
        return b

    vs = ["same-rank", "more-dims", "ones", "zero-rep", "0-d", "r1", "size0-self", "0-d-empty-reps", "size0-self-more-dims"] + \
         (["fewer-dims", "empty-reps"] if kind == "tile" else [])
    for dt in dts:
        yield S(f"{vs[0]}/{dt}", mk(dt, vs[0]))
    for dt in lead(dts):
        for v in vs[1:]:
            yield S(f"{v}/{dt}", mk(dt, v))


reg(_I, "aten::repeat", repeat_tile, kind="repeat")
reg(_I, "aten::tile", repeat_tile, kind="tile")


def diagonal(qn):
    dts = adm(qn)
    V = {"defaults": lambda: ([3, 4], []), "offset>0": lambda: ([3, 4], [1]), "offset<0": lambda: ([4, 3], [-1]), "dims-swapped": lambda: ([3, 4], [0, 1, 0]),
         "r3-dims": lambda: ([2, 3, 4], [0, 1, 2]), "negative-dims": lambda: ([2, 3, 4], [0, -2, -1]), "dim=-rank": lambda: ([2, 3, 4], [0, -3, -1]),
         "offset-out-of-range": lambda: ([2, 3], [5]), "r3-offset": lambda: ([2, 3, 3], [1, 0, 2]), "size0": lambda: ([0, 3], [0])}
    for dt in dts:
        yield S(f"defaults/{dt}", (lambda g, dt=dt: ([g.t([3, 4], dt)], {})))
    for dt in lead(dts):
        for v, f in V.items():
            if v == "defaults":
                continue
            yield S(f"{v}/{dt}", (lambda g, dt=dt, f=f: (lambda sa: ([g.t(sa[0], dt)] + sa[1], {}))(f())))


reg(_I, ["aten::diagonal", "aten::diagonal_copy"], diagonal)


def embedding(qn):
    dts = adm(qn)
    for dt in dts:
        yield S(f"plain/{dt}", (lambda g, dt=dt: ([g.t([5, 3], dt), g.index(g.dims(g.r.randint(1, 2)), 5)], {})))
    for dt in lead(dts, ("f32",)):
        yield S(f"index-0-d/{dt}", (lambda g, dt=dt: ([g.t([5, 3], dt), g.index([], 5)], {})))
        yield S(f"index-size0/{dt}", (lambda g, dt=dt: ([g.t([5, 3], dt), g.index([0], 5)], {})))
        yield S(f"index-i32/{dt}", (lambda g, dt=dt: ([g.t([5, 3], dt), g.index([4], 5, "i32")], {})))
        yield S(f"padding_idx/{dt}", (lambda g, dt=dt: ([g.t([5, 3], dt), g.index([4], 5), 1], {})))
        yield S(f"all-args/{dt}", (lambda g, dt=dt: ([g.t([5, 3], dt), g.index([2, 2], 5), -1, False, False], {})))


reg(_I, "aten::embedding", embedding)


def index_tensor(qn):
    dts = adm(qn)
    torch = core.env().torch
    V = {
        "one-index-dim0": lambda g, x: [g.index([3], x.shape[0])],
        "None-then-index": lambda g, x: [None, g.index([3], x.shape[1])],
        "two-adjacent": lambda g, x: [g.index([3], x.shape[0]), g.index([3], x.shape[1])],
        "two-broadcast": lambda g, x: [g.index([3, 1], x.shape[0]), g.index([2], x.shape[1])],
        "index-None-index": lambda g, x: [g.index([2], x.shape[0]), None, g.index([2], x.shape[2])],
        "negative-index": lambda g, x: [g.index([3], x.shape[0], neg=True)],
        "r2-index": lambda g, x: [g.index([2, 2], x.shape[0])],
        "0-d-index": lambda g, x: [g.index([], x.shape[0])],
        "size0-index": lambda g, x: [g.index([0], x.shape[0])],
        "bool-mask-dim0": lambda g, x: [g.t([x.shape[0]], "bool")],
        "bool-mask-full": lambda g, x: [g.t(list(x.shape), "bool")],
        "trailing-None": lambda g, x: [g.index([2], x.shape[0]), None],
    }
    for dt in dts:
        yield S(f"one-index-dim0/{dt}", (lambda g, dt=dt: (lambda x: ([x, V["one-index-dim0"](g, x)], {}))(g.t(g.dims(2, 3, 4), dt))))
    for dt in lead(dts, ("f32", "i64")):
        for v, f in V.items():
            if v == "one-index-dim0":
                continue
            yield S(f"{v}/{dt}", (lambda g, dt=dt, f=f: (lambda x: ([x, f(g, x)], {}))(g.t(g.dims(3, 3, 4), dt))))


reg(_I, ["aten::index.Tensor", "aten::_unsafe_index.Tensor"], index_tensor)

# ---------------------------------------------------------------------------------------------
# F10: creation ops (sizes are python ints, dtype keyword-only)

_SIZES = {"r1": lambda g: [g.r.randint(2, 5)], "r2": lambda g: g.dims(2), "r3": lambda g: g.dims(3), "0-d": lambda g: [], "size0": lambda g: [0, 3],
          "size1": lambda g: [1, 1]}


def creation(qn, form, mode="value"):
    """form: 'size' (zeros/ones/empty/rand/randn), 'full' (size, fill), 'like' (self), 'full_like' (self, fill),
    'new' (self, size), 'new_full' (self, size, fill), 'randint' (high, size), 'randint_low' (low, high, size),
    'randint_like' / 'randint_like_low'."""
    tdt = core.env().tdt
    floats_only = any(k in qn for k in ("rand", "randn")) and "randint" not in qn
    ints_only = "randint" in qn

    def kw(dk):
        if dk == "omitted":
            return {}
        return {"dtype": None if dk == "None" else tdt[dk]}

    def fill(g, dk, src=None):
        d = dk if dk not in ("omitted", "None") else (src or "f32")
        if d == "bool":
            return g.r.random() < 0.5
        return g.scalar(d, "pos" if d == "u8" else "any")

    dks = ["omitted", "None"] + [d for d in DT if not (floats_only and not is_float(d)) and not (ints_only and not (is_int(d) or is_float(d)))]
    if form in ("size", "full", "randint", "randint_low"):
        for dk in dks:
            for sc in (("r2",) if dk not in ("omitted", "f32") else tuple(_SIZES)):
                def b(g, dk=dk, sc=sc):
                    size = _SIZES[sc](g)
                    if form == "size":
                        return [size], kw(dk)
                    if form == "full":
                        return [size, fill(g, dk)], kw(dk)
                    if form == "randint":
                        return [g.r.randint(2, 9), size], kw(dk)
                    lo = g.r.randint(-5, 3)
                    return [lo, lo + g.r.randint(1, 6), size], kw(dk)
                yield S(f"dtype={dk}/{sc}", b, mode=mode)
        if form == "full":
            yield S("fill=pyint/dtype=omitted", (lambda g: ([g.dims(2), g.r.randint(-5, 5)], {})), mode=mode)
            yield S("fill=pyfloat/dtype=omitted", (lambda g: ([g.dims(2), 2.5], {})), mode=mode)
            yield S("fill=pybool/dtype=omitted", (lambda g: ([g.dims(2), True], {})), mode=mode)
            yield S("fill=pyfloat/dtype=i64-integral", (lambda g: ([g.dims(2), 3.0], kw("i64"))), mode=mode)
            yield S("fill=pyint/dtype=f16", (lambda g: ([g.dims(2), 3], kw("f16"))), mode=mode)
        return
    # *_like / new_* take a tensor
    dts = adm(qn)
    for src in dts:
        def b0(g, src=src):
            x = g.t(g.shape("nd"), src)
            return _like_args(g, form, x, src, "omitted", fill, kw)
        yield S(f"dtype=omitted/{src}", b0, mode=mode)
    for src in lead(dts):
        for dk in dks[1:]:
            yield S(f"dtype={dk}/{src}", (lambda g, src=src, dk=dk: _like_args(g, form, g.t(g.shape("r2"), src), src, dk, fill, kw)), mode=mode)
        for sc in SC_SPECIAL:
            yield S(f"self-{sc}/{src}", (lambda g, src=src, sc=sc: _like_args(g, form, g.t(g.shape(sc), src), src, "omitted", fill, kw)), mode=mode)
        if form in ("new", "new_full"):
            for sc in ("0-d", "size0", "r3"):
                yield S(f"size-{sc}/{src}", (lambda g, src=src, sc=sc: _like_args(g, form, g.t([2], src), src, "omitted", fill, kw, _SIZES[sc](g))), mode=mode)


def _like_args(g, form, x, src, dk, fill, kw, size=None):
    size = size if size is not None else g.dims(2)
    if form == "like":
        return [x], kw(dk)
    if form == "full_like":
        return [x, fill(g, dk, src)], kw(dk)
    if form == "new":
        return [x, size], kw(dk)
    if form == "new_full":
        return [x, size, fill(g, dk, src)], kw(dk)
    if form == "randint_like":
        return [x, g.r.randint(2, 9)], kw(dk)
    if form == "randint_like_low":
        return [x, -3, 4], kw(dk)
    raise ValueError(form)


_K = "creation"
reg(_K, ["aten::zeros", "aten::ones"], creation, form="size")
reg(_K, "aten::full", creation, form="full")
reg(_K, ["aten::zeros_like", "aten::ones_like"], creation, form="like")
reg(_K, "aten::full_like", creation, form="full_like")
reg(_K, ["aten::new_zeros", "aten::new_ones"], creation, form="new")
reg(_K, "aten::new_full", creation, form="new_full")
reg(_K, ["aten::empty.memory_format", "aten::rand", "aten::randn"], creation, form="size", mode="shape_only")
reg(_K, ["aten::empty_like", "aten::rand_like", "aten::randn_like"], creation, form="like", mode="shape_only")
reg(_K, "aten::new_empty", creation, form="new", mode="shape_only")
reg(_K, "aten::randint", creation, form="randint", mode="shape_only")
reg(_K, "aten::randint.low", creation, form="randint_low", mode="shape_only")
reg(_K, "aten::randint_like", creation, form="randint_like", mode="shape_only")
reg(_K, "aten::randint_like.low_dtype", creation, form="randint_like_low", mode="shape_only")


def arange(qn, form):
    tdt = core.env().tdt
    V = {"int": lambda g: (g.r.randint(-3, 2), g.r.randint(3, 9), g.r.randint(1, 3)),
         "float": lambda g: (g.r.randint(-8, 4) / 4.0, g.r.randint(8, 20) / 4.0, g.r.choice((0.5, 0.75, 1.5))),
         "int-negative-step": lambda g: (g.r.randint(5, 9), g.r.randint(-3, 2), -g.r.randint(1, 3)),
         "float-negative-step": lambda g: (2.5, -1.0, -0.5),
         "empty": lambda g: (3, 3, 1), "mixed-int-float": lambda g: (1, 4.5, 1)}
    for v, f in V.items():
        for dk in ("omitted", "None", "f32", "f64", "i64", "i32", "f16"):
            if dk in ("i64", "i32") and "float" in v:
                continue  # float -> int conversion of non-integral points is not generated
            if form == "end" and "negative-step" in v:
                continue
            if form == "start" and "negative-step" in v:
                continue
            def b(g, f=f, dk=dk):
                st, en, step = f(g)
                a = {"end": [en], "start": [st, en], "start_step": [st, en, step]}[form]
                if form == "end" and en == 3 and st == 3:
                    a = [0]
                return a, ({} if dk == "omitted" else {"dtype": None if dk == "None" else tdt[dk]})
            yield S(f"{v}/dtype={dk}", b, scale=4.0)
    if form == "start_step":
        yield S("step=omitted/int", (lambda g: ([1, 6], {})))


reg(_K, "aten::arange", arange, form="end")
reg(_K, "aten::arange.start", arange, form="start")
reg(_K, "aten::arange.start_step", arange, form="start_step")


def scalar_tensor(qn):
    tdt = core.env().tdt
    for kind, val in (("pyint", lambda g: g.r.randint(0, 5)), ("pyfloat", lambda g: g.r.randint(-8, 8) / 4.0), ("pybool", lambda g: True)):
        for dk in ["omitted", "None"] + list(DT):
            if kind == "pyfloat" and (dk in INTS):
                continue
            yield S(f"{kind}/dtype={dk}", (lambda g, val=val, dk=dk: ([val(g)], {} if dk == "omitted" else {"dtype": None if dk == "None" else tdt[dk]})))


reg(_K, "aten::scalar_tensor", scalar_tensor)


def fill_(qn, tensor_value):
    dts = adm(qn)
    for dt in dts:
        yield S(f"nd/{dt}", (lambda g, dt=dt: ([g.t(g.shape("nd"), dt), g.t([], dt) if tensor_value else g.scalar(dt)], {})))
    for dt in lead(dts):
        for sc in SC_SPECIAL:
            yield S(f"{sc}/{dt}", (lambda g, dt=dt, sc=sc: ([g.t(g.shape(sc), dt), g.t([], dt) if tensor_value else g.scalar(dt)], {})))
        if not tensor_value and is_float(dt):
            yield S(f"pyint-value/{dt}", (lambda g, dt=dt: ([g.t(g.shape("nd"), dt), g.r.randint(-4, 4)], {})))


reg(_K, "aten::fill.Scalar", fill_, tensor_value=False)
reg(_K, "aten::fill.Tensor", fill_, tensor_value=True)


def linspace(qn):
    tdt = core.env().tdt
    for v, f in {"float": lambda g: (-1.5, 2.5, g.r.randint(2, 6)), "int-ends": lambda g: (0, 10, g.r.choice((5, 11))), "steps=1": lambda g: (1.0, 3.0, 1),
                 "steps=0": lambda g: (0.0, 1.0, 0), "descending": lambda g: (3.0, -1.0, 5), "start=end": lambda g: (2.0, 2.0, 3)}.items():
        for dk in ("omitted", "f32", "f64", "f16") + (("i64",) if v == "int-ends" else ()):
            yield S(f"{v}/dtype={dk}", (lambda g, f=f, dk=dk: (list(f(g)), {} if dk == "omitted" else {"dtype": tdt[dk]})), scale=4.0)


reg(_K, "aten::linspace", linspace)

# ---------------------------------------------------------------------------------------------
# F11: clamp family


def clamp(qn, form):
    """form: 'scalar' (self, min?, max?), 'tensor' (self, min?, max?), 'min'/'max' scalar, 'min_t'/'max_t' tensor."""
    dts = adm(qn)

    def bound(g, dt, tensor, shape=None, lo=True):
        if tensor:
            return g.t(shape if shape is not None else [], dt, "small")
        v = g.scalar(dt, "small")
        return v

    def mk(dt, v, shape_class="nd", kind=None):
        def b(g):
            shape = g.shape(shape_class)
            x = g.t(shape, dt)
            tensor = form in ("tensor", "min_t", "max_t")
            bs = shape if (tensor and v not in ("0-d-bounds", "broadcast-bounds")) else ([] if v != "broadcast-bounds" else shape[-1:])
            if tensor and v == "0-d-self":
                bs = g.dims(2)
            def sc(which):
                if tensor:
                    return g.t(bs, dt, "small")
                val = g.scalar(dt, "small", kind)
                return val
            lo, hi = sc("lo"), sc("hi")
            if not tensor:
                lo, hi = (min(lo, hi), max(lo, hi)) if v != "min>max" else (max(lo, hi) + 1, min(lo, hi))
            if form in ("min", "min_t"):
                return [x, lo], {}
            if form in ("max", "max_t"):
                return [x, hi], {}
            if v == "min-only":
                return [x, lo], {}
            if v == "max-only":
                return [x, None, hi], {}
            if v == "min-None-max-None":
                return [x, None, None], {}
            return [x, lo, hi], {}
        return b

    both = form in ("scalar", "tensor")
    for dt in dts:
        yield S(f"{'both' if both else 'plain'}/nd/{dt}", mk(dt, "both"))
    for dt in lead(dts, ("f32", "i64")):
        if both:
            for v in ("min-only", "max-only"):
                yield S(f"{v}/nd/{dt}", mk(dt, v))
            if form == "scalar":
                yield S(f"min>max/nd/{dt}", mk(dt, "min>max"))
        for sc in SC_SPECIAL:
            yield S(f"{'both' if both else 'plain'}/{sc}/{dt}", mk(dt, "both" if sc != "0-d" else "0-d-self" if False else "both", sc))
        if form in ("tensor", "min_t", "max_t"):
            yield S(f"0-d-bounds/nd/{dt}", mk(dt, "0-d-bounds"))
            yield S(f"broadcast-bounds/nd/{dt}", mk(dt, "broadcast-bounds", "r2"))
        elif is_float(dt):
            yield S(f"pyint-bounds/nd/{dt}", mk(dt, "both", kind="int"))
        else:
            yield S(f"pyfloat-bounds/nd/{dt}", mk(dt, "both", kind="float"))


_CL = "clamp"
reg(_CL, "aten::clamp", clamp, form="scalar")
reg(_CL, "aten::clamp.Tensor", clamp, form="tensor")
reg(_CL, "aten::clamp_min", clamp, form="min")
reg(_CL, "aten::clamp_max", clamp, form="max")
reg(_CL, "aten::clamp_min.Tensor", clamp, form="min_t")
reg(_CL, "aten::clamp_max.Tensor", clamp, form="max_t")

# ---------------------------------------------------------------------------------------------
# F12: pad / pool / conv subset (+ dropout)


def pad_nd(qn, form):
    """constant_pad_nd(self, pad, value=0); pad(self, pad, mode='constant', value=None)."""
    dts = adm(qn)

    def mk(dt, v):
        def b(g):
            rank = {"r1": 1, "0-d": 0}.get(v, g.r.randint(2, 4))
            shape = g.dims(rank, 2, 4)
            if v == "size0":
                shape[0] = 0
            x = g.t(shape, dt)
            npairs = {"last-dim": 1, "two-dims": min(2, rank), "all-dims": rank, "r1": 1, "negative-crop": 1, "zero-pad": 1, "size0": 1,
                      "value": 1, "value-int-on-float": 1, "empty-pad": 0}.get(v, 1)
            pad = []
            for _ in range(npairs):
                pad += [g.r.randint(0, 2), g.r.randint(1, 2)]
            if v == "negative-crop":
                pad = [-1, g.r.randint(0, 1)]
            if v == "zero-pad":
                pad = [0, 0]
            a = [x, pad]
            if form == "constant_pad_nd":
                if v == "value":
                    a.append(g.scalar(dt, "any"))
                if v == "value-int-on-float":
                    a.append(g.r.randint(1, 5))
            else:
                if v in ("value", "value-int-on-float"):
                    a += ["constant", float(g.r.randint(1, 5)) if v == "value" or not is_float(dt) else g.r.randint(1, 5)]
                elif v == "mode-explicit":
                    a += ["constant"]
            return a, {}
        return b

    vs = ["last-dim", "two-dims", "all-dims", "r1", "negative-crop", "zero-pad", "size0", "value", "empty-pad"] + \
         (["mode-explicit"] if form == "pad" else [])
    for dt in dts:
        yield S(f"last-dim/{dt}", mk(dt, "last-dim"))
    for dt in lead(dts):
        for v in vs[1:]:
            yield S(f"{v}/{dt}", mk(dt, v))
        if is_float(dt):
            yield S(f"value-int-on-float/{dt}", mk(dt, "value-int-on-float"))


_P = "padpoolconv"
reg(_P, "aten::constant_pad_nd", pad_nd, form="constant_pad_nd")
reg(_P, "aten::pad", pad_nd, form="pad")


def pad_modes(qn):
    """aten::pad with reflect / replicate / circular."""
    for mode_ in ("reflect", "replicate", "circular"):
        for dt in ("f32", "f64", "f16"):
            for nsp in (1, 2):
                def b(g, mode_=mode_, dt=dt, nsp=nsp):
                    shape = [g.r.randint(1, 2), g.r.randint(1, 3)] + g.dims(nsp, 3, 5)
                    pad = []
                    for _ in range(nsp):
                        pad += [g.r.randint(0, 2), g.r.randint(1, 2)]
                    return [g.t(shape, dt), pad, mode_], {}
                yield S(f"mode={mode_}/spatial={nsp}/{dt}", b)


reg(_P + "_modes", "aten::pad", pad_modes)


def refl_repl_pad(qn, nsp):
    dts = adm(qn)

    def mk(dt, v):
        def b(g):
            batch = [] if v == "unbatched" else [g.r.randint(1, 2)]
            shape = batch + [g.r.randint(1, 3)] + g.dims(nsp, 3, 5)
            pad = []
            for _ in range(nsp):
                pad += [g.r.randint(0, 2), g.r.randint(1, 2)]
            if v == "zero-pad":
                pad = [0] * (2 * nsp)
            if v == "one-side":
                pad = [0, 2] + [0] * (2 * nsp - 2)
            return [g.t(shape, dt), pad], {}
        return b

    for dt in dts:
        yield S(f"batched/{dt}", mk(dt, "batched"))
    for dt in lead(dts, ("f32",)):
        for v in ("unbatched", "zero-pad", "one-side"):
            yield S(f"{v}/{dt}", mk(dt, v))


reg(_P, ["aten::reflection_pad1d", "aten::replication_pad1d"], refl_repl_pad, nsp=1)
reg(_P, ["aten::reflection_pad2d", "aten::replication_pad2d"], refl_repl_pad, nsp=2)


def pool(qn, nsp, kind, with_indices=False):
    """max_pool{n}d(self, kernel, stride=[], padding=0, dilation=1, ceil_mode=False);
    avg_pool{n}d(self, kernel, stride=[], padding=0, ceil_mode=False, count_include_pad=True[, divisor_override=None])."""
    dts = [d for d in adm(qn) if is_float(d)]

    def mk(dt, v):
        def b(g):
            batch = [] if v == "unbatched" else [g.r.randint(1, 2)]
            sp = g.dims(nsp, 5, 7)
            x = g.t(batch + [g.r.randint(1, 3)] + sp, dt, "distinct" if with_indices else "any")
            k = [g.r.randint(2, 3) for _ in range(nsp)]
            if v == "kernel-only":
                return [x, k], {}
            st = [g.r.randint(1, 2) for _ in range(nsp)]
            if v == "stride=[]":
                return [x, k, []], {}
            if v == "stride":
                return [x, k, st], {}
            pd = [1] * nsp
            if v == "padding":
                return [x, k, st, pd], {}
            # per-axis arguments that differ between the spatial axes (ONNX lays pads out as all-begins-then-all-ends,
            # torch per axis; a symmetric argument cannot tell the two layouts apart)
            if v == "padding-asym-10":
                return [x, [3] * nsp, [1] * nsp, [1] + [0] * (nsp - 1)], {}
            if v == "padding-asym-01":
                return [x, [3] * nsp, st, [0] * (nsp - 1) + [1]], {}
            if v == "asym-all":
                return [x, [3, 2][:nsp], [2, 1][:nsp], [1, 0][:nsp]], {}
            if v == "asym-no-include-pad":
                return [x, [2, 3][:nsp], [1, 2][:nsp], [0, 1][:nsp], False, False], {}
            if kind == "max":
                if v == "dilation":
                    return [x, k, st, [0] * nsp, [2] * nsp], {}
                if v == "ceil_mode":
                    return [x, [2] * nsp, [2] * nsp, [0] * nsp, [1] * nsp, True], {}
                if v == "ceil_mode-padding":
                    return [x, [3] * nsp, [2] * nsp, [1] * nsp, [1] * nsp, True], {}
            else:
                if v == "ceil_mode":
                    return [x, [2] * nsp, [2] * nsp, [0] * nsp, True], {}
                if v == "ceil_mode-padding":
                    return [x, [3] * nsp, [2] * nsp, [1] * nsp, True], {}
                if v == "count_include_pad=False":
                    return [x, k, st, pd, False, False], {}
                if v == "ceil-no-include-pad":
                    return [x, [3] * nsp, [2] * nsp, [1] * nsp, True, False], {}
                if v == "divisor_override":
                    return [x, k, st, pd, False, True, 3], {}
            return [x, k], {}
        return b

    vs = ["kernel-only", "stride", "stride=[]", "padding", "unbatched", "ceil_mode", "ceil_mode-padding"] + \
         (["padding-asym-10", "padding-asym-01", "asym-all"] + ([] if kind == "max" else ["asym-no-include-pad"]) if nsp >= 2 else []) + \
         (["dilation"] if kind == "max" else ["count_include_pad=False", "ceil-no-include-pad"] + (["divisor_override"] if nsp >= 2 else []))
    for dt in dts:
        yield S(f"kernel-only/{dt}", mk(dt, "kernel-only"), scale=4.0)
    for dt in lead(dts, ("f32",)):
        for v in vs[1:]:
            yield S(f"{v}/{dt}", mk(dt, v), scale=4.0)


reg(_P, "aten::max_pool1d", pool, nsp=1, kind="max")
reg(_P, "aten::max_pool2d", pool, nsp=2, kind="max")
reg(_P, "aten::max_pool1d_with_indices", pool, nsp=1, kind="max", with_indices=True)
reg(_P, "aten::max_pool2d_with_indices", pool, nsp=2, kind="max", with_indices=True)
reg(_P, "aten::avg_pool1d", pool, nsp=1, kind="avg")
reg(_P, "aten::avg_pool2d", pool, nsp=2, kind="avg")


def conv(qn, nsp, general=False):
    """conv{n}d(input, weight, bias=None, stride=1, padding=0, dilation=1, groups=1);
    convolution(input, weight, bias, stride, padding, dilation, transposed, output_padding, groups)."""
    dts = [d for d in adm(qn) if is_float(d)]

    def mk(dt, v):
        def b(g):
            groups = 2 if v == "groups" else 1
            cin, cout = 2 * g.r.randint(1, 2), 2 * g.r.randint(1, 2)
            batch = [] if v == "unbatched" else [g.r.randint(1, 2)]
            sp = g.dims(nsp, 5, 7)
            k = [g.r.randint(1, 3) for _ in range(nsp)]
            x = g.t(batch + [cin] + sp, dt, "small")
            transposed = v.startswith("transposed")
            w = g.t(([cin, cout // groups] if transposed else [cout, cin // groups]) + k, dt, "small")
            bias = g.t([cout], dt, "small") if v not in ("no-bias", "bias-omitted") else None
            st = [2] * nsp if v in ("stride", "transposed-stride-outpad") else [1] * nsp
            pd = [1] * nsp if v in ("padding", "transposed-padding") else [0] * nsp
            dl = [2] * nsp if v == "dilation" else [1] * nsp
            if general:
                op_ = [1] * nsp if v == "transposed-stride-outpad" else [0] * nsp
                return [x, w, bias, st, pd, dl, transposed, op_, groups], {}
            if v == "bias-omitted":
                return [x, w], {}
            if v in ("plain", "no-bias", "unbatched") and g.r.random() < 0.5:
                return [x, w, bias], {}
            return [x, w, bias, st, pd, dl, groups], {}
        return b

    vs = ["plain", "no-bias", "stride", "padding", "dilation", "groups", "unbatched"] + (["transposed", "transposed-padding", "transposed-stride-outpad"] if general else ["bias-omitted"])
    for dt in dts:
        yield S(f"plain/{dt}", mk(dt, "plain"), scale=20.0)
    for dt in lead(dts, ("f32",)):
        for v in vs[1:]:
            yield S(f"{v}/{dt}", mk(dt, v), scale=20.0)


reg(_P, "aten::conv1d", conv, nsp=1)
reg(_P, "aten::conv2d", conv, nsp=2)
reg(_P + "_general", "aten::convolution", conv, nsp=2, general=True)
reg(_P + "_general1d", "aten::convolution", conv, nsp=1, general=True)


def dropout(qn, native):
    for dt in [d for d in adm(qn) if is_float(d)]:
        for train in (False, True):
            for p in ((0.0, 0.5) if train else (0.0, 0.5, 1.0)):  # ONNX Dropout's ratio domain is [0, 1)
                mode = "value" if (not train or p == 0.0) else "shape_only"
                yield S(f"train={int(train)}/p={p}/{dt}", (lambda g, dt=dt, train=train, p=p: ([g.t(g.shape("nd"), dt), p, train], {})), mode=mode)
    for dt in lead([d for d in adm(qn) if is_float(d)], ("f32",)):
        for sc in ("0-d", "size1"):  # eager native_dropout on an empty tensor returns an uninitialised float mask: no oracle there
            yield S(f"train=0/{sc}/{dt}", (lambda g, dt=dt, sc=sc: ([g.t(g.shape(sc), dt), 0.5, False], {})))


reg(_P, "aten::dropout", dropout, native=False)
reg(_P, "aten::native_dropout", dropout, native=True)

# ---------------------------------------------------------------------------------------------
# misc elementwise / scatter-like ops of the covered families


def ternary(qn, kind):
    """addcmul/addcdiv(self, t1, t2, *, value=1); lerp.Scalar(self, end, weight: Scalar); lerp.Tensor(self, end, weight)."""
    dts = adm(qn)

    def mk(dt, v):
        def b(g):
            if v == "broadcast":
                a, bb = g.dims(2)
                s0, s1, s2 = [a, bb], [bb], [a, 1]
            elif v == "0-d":
                s0 = s1 = s2 = []
            elif v == "0-d-others":
                s0, s1, s2 = g.dims(2), [], []
            elif v == "size0":
                s0 = s1 = s2 = [0, 3]
            else:
                s0 = s1 = s2 = g.shape("nd")
            x = g.t(s0, dt, "small")
            if kind in ("addcmul", "addcdiv"):
                t1, t2 = g.t(s1, dt, "small"), g.t(s2, dt, "nz" if kind == "addcdiv" else "small")
                kw = {"value=omitted": {}, "value": {"value": 0.5 if is_float(dt) else 2}, "value=pyint": {"value": 3}}.get(v, {})
                return [x, t1, t2], kw
            end = g.t(s1, dt, "small")
            if kind == "lerp_scalar":
                return [x, end, {"weight>1": 1.5, "weight<0": -0.5}.get(v, 0.25)], {}
            return [x, end, g.t(s2, dt, "prob")], {}
        return b

    extra = ["value", "value=pyint"] if kind in ("addcmul", "addcdiv") else (["weight>1", "weight<0"] if kind == "lerp_scalar" else [])
    for dt in dts:
        yield S(f"same-shape/{dt}", mk(dt, "same"), scale=4.0)
    for dt in lead(dts, ("f32", "i64")):
        for v in ["broadcast", "0-d", "0-d-others", "size0"] + extra:
            yield S(f"{v}/{dt}", mk(dt, v), scale=4.0)


_X = "misc"
reg(_X, "aten::addcmul", ternary, kind="addcmul")
reg(_X, "aten::addcdiv", ternary, kind="addcdiv")
reg(_X, "aten::lerp.Scalar", ternary, kind="lerp_scalar")
reg(_X, "aten::lerp.Tensor", ternary, kind="lerp_tensor")


def prelu(qn):
    """aten::prelu takes a 1-D weight ([C] or [1]); aten::_prelu_kernel is what prelu decomposes to: weight already reshaped to
    [1, C, 1, ...] (same rank as self).  A weight of self's full shape is legal for the kernel op too (own class)."""
    kernel = qn == "aten::_prelu_kernel"
    fl = [d for d in adm(qn) if is_float(d)]

    def w(g, dt, c, rank):
        if not kernel:
            return g.t([c], dt, "prob")
        return g.t(([1, c] + [1] * (rank - 2)) if rank >= 2 else ([c] if rank == 1 else []), dt, "prob")

    for dt in fl:
        yield S(f"weight-per-channel/r3/{dt}", (lambda g, dt=dt: (lambda c: ([g.t([2, c, 3], dt), w(g, dt, c, 3)], {}))(g.r.randint(2, 4))))
    for dt in lead(fl, ("f32",)):
        yield S(f"weight-single/r3/{dt}", (lambda g, dt=dt: ([g.t([2, 3, 4], dt), w(g, dt, 1, 3)], {})))
        yield S(f"weight-per-channel/r2/{dt}", (lambda g, dt=dt: ([g.t([3, 4], dt), w(g, dt, 4, 2)], {})))
        yield S(f"weight-per-channel/r4/{dt}", (lambda g, dt=dt: ([g.t([2, 3, 2, 2], dt), w(g, dt, 3, 4)], {})))
        yield S(f"weight-single/r1/{dt}", (lambda g, dt=dt: ([g.t([4], dt), w(g, dt, 1, 1)], {})))
        yield S(f"0-d/{dt}", (lambda g, dt=dt: ([g.t([], dt), g.t([1] if not kernel else [], dt, "prob")], {})))
        yield S(f"size0-batch/{dt}", (lambda g, dt=dt: ([g.t([0, 3, 2], dt), w(g, dt, 3, 3)], {})))
        if kernel:
            yield S(f"weight-full-shape/{dt}", (lambda g, dt=dt: ([g.t([2, 3], dt), g.t([2, 3], dt, "prob")], {})))


reg(_X, ["aten::prelu", "aten::_prelu_kernel"], prelu)
reg(_X, "aten::glu", one_tensor, variants=[
    ("dim=omitted", lambda g, dt: ([g.t([3, 4], dt, "small")], {})), ("dim=0", lambda g, dt: ([g.t([4, 3], dt, "small"), 0], {})),
    ("dim=-rank", lambda g, dt: ([g.t([2, 3, 2], dt, "small"), -3], {})), ("dim=-1", lambda g, dt: ([g.t([2, 6], dt, "small"), -1], {})),
    ("r1", lambda g, dt: ([g.t([6], dt, "small")], {})), ("size0-other", lambda g, dt: ([g.t([0, 4], dt)], {})), ("half=1", lambda g, dt: ([g.t([3, 2], dt, "small")], {})),
], lead_only=("f32",))
reg(_X, "aten::mse_loss", one_tensor, variants=[
    ("reduction=omitted", lambda g, dt: (lambda s: ([g.t(s, dt), g.t(s, dt)], {}))(g.shape("nd"))),
    ("reduction=none", lambda g, dt: (lambda s: ([g.t(s, dt), g.t(s, dt), 0], {}))(g.shape("nd"))),
    ("reduction=mean", lambda g, dt: (lambda s: ([g.t(s, dt), g.t(s, dt), 1], {}))(g.shape("nd"))),
    ("reduction=sum", lambda g, dt: (lambda s: ([g.t(s, dt), g.t(s, dt), 2], {}))(g.shape("nd"))),
    ("0-d", lambda g, dt: ([g.t([], dt), g.t([], dt)], {})), ("broadcast-target", lambda g, dt: ([g.t([3, 4], dt), g.t([4], dt), 2], {})),
], lead_only=("f32",))


def scatter_like(qn, kind):
    dts = adm(qn)
    V = {
        "select_scatter": {"plain": lambda g, dt: ([g.t([3, 4], dt), g.t([4], dt), 0, 1], {}), "dim=1": lambda g, dt: ([g.t([3, 4], dt), g.t([3], dt), 1, 2], {}),
                           "negative-dim": lambda g, dt: ([g.t([3, 4], dt), g.t([3], dt), -1, 0], {}), "negative-index": lambda g, dt: ([g.t([3, 4], dt), g.t([4], dt), 0, -1], {}),
                           "dim=-rank": lambda g, dt: ([g.t([3, 4], dt), g.t([4], dt), -2, 2], {}), "r1-0-d-src": lambda g, dt: ([g.t([4], dt), g.t([], dt), 0, 1], {}),
                           "r3": lambda g, dt: ([g.t([2, 3, 4], dt), g.t([2, 4], dt), 1, 1], {})},
        "slice_scatter": {"plain": lambda g, dt: ([g.t([5, 3], dt), g.t([2, 3], dt), 0, 1, 3], {}), "defaults": lambda g, dt: ([g.t([5, 3], dt), g.t([5, 3], dt)], {}),
                          "dim=1": lambda g, dt: ([g.t([3, 5], dt), g.t([3, 2], dt), 1, 2, 4], {}), "negative-dim": lambda g, dt: ([g.t([3, 5], dt), g.t([3, 2], dt), -1, 0, 2], {}),
                          "step=2": lambda g, dt: ([g.t([6, 2], dt), g.t([3, 2], dt), 0, 0, 6, 2], {}), "negative-start": lambda g, dt: ([g.t([5, 2], dt), g.t([2, 2], dt), 0, -2, None], {}),
                          "start=None-end": lambda g, dt: ([g.t([5, 2], dt), g.t([3, 2], dt), 0, None, 3], {}), "end>len": lambda g, dt: ([g.t([5, 2], dt), g.t([3, 2], dt), 0, 2, 100], {}),
                          "empty-slice": lambda g, dt: ([g.t([5, 2], dt), g.t([0, 2], dt), 0, 2, 2], {})},
        "copy": {"plain": lambda g, dt: (lambda s: ([g.t(s, dt), g.t(s, dt)], {}))(g.shape("nd")), "broadcast-src": lambda g, dt: ([g.t([3, 4], dt), g.t([4], dt)], {}),
                 "0-d-src": lambda g, dt: ([g.t([3, 4], dt), g.t([], dt)], {}), "0-d": lambda g, dt: ([g.t([], dt), g.t([], dt)], {}),
                 "non_blocking": lambda g, dt: ([g.t([2], dt), g.t([2], dt), True], {}), "size0": lambda g, dt: ([g.t([0, 2], dt), g.t([0, 2], dt)], {})},
    }[kind]
    first = next(iter(V))
    for dt in dts:
        yield S(f"{first}/{dt}", (lambda g, dt=dt: V[first](g, dt)))
    for dt in lead(dts):
        for v, f in V.items():
            if v != first:
                yield S(f"{v}/{dt}", (lambda g, dt=dt, f=f: f(g, dt)))
    if kind == "copy":
        for dt in lead(dts):
            other = "i64" if dt != "i64" else "f32"
            yield S(f"src-dtype-differs-integral/{dt}", (lambda g, dt=dt, other=other: ([g.t([3], dt), g.t([3], other, "pos").round() if is_float(other) else g.t([3], other, "prob")], {})))


reg(_X, "aten::select_scatter", scatter_like, kind="select_scatter")
reg(_X, "aten::slice_scatter", scatter_like, kind="slice_scatter")
reg(_X, "aten::copy", scatter_like, kind="copy")


def index_put(qn):
    dts = adm(qn)
    V = {
        "one-index": lambda g, dt: (lambda x: ([x, [g.torch.tensor([0, 2])], g.t([2, 3], dt)], {}))(g.t([4, 3], dt)),
        "one-index-broadcast-values": lambda g, dt: (lambda x: ([x, [g.torch.tensor([0, 2])], g.t([3], dt)], {}))(g.t([4, 3], dt)),
        "scalar-values": lambda g, dt: (lambda x: ([x, [g.torch.tensor([1, 3])], g.t([], dt)], {}))(g.t([4, 3], dt)),
        "two-indices": lambda g, dt: (lambda x: ([x, [g.torch.tensor([0, 2]), g.torch.tensor([1, 0])], g.t([2], dt)], {}))(g.t([4, 3], dt)),
        "None-then-index": lambda g, dt: (lambda x: ([x, [None, g.torch.tensor([0, 2])], g.t([4, 2], dt)], {}))(g.t([4, 3], dt)),
        "accumulate-distinct": lambda g, dt: (lambda x: ([x, [g.torch.tensor([0, 2])], g.t([2, 3], dt), True], {}))(g.t([4, 3], dt)),
        "accumulate-duplicates": lambda g, dt: (lambda x: ([x, [g.torch.tensor([1, 1, 2])], g.t([3, 3], dt, "small"), True], {}))(g.t([4, 3], dt)),
        "negative-index": lambda g, dt: (lambda x: ([x, [g.torch.tensor([-1, 0])], g.t([2, 3], dt)], {}))(g.t([4, 3], dt)),
        "bool-mask": lambda g, dt: (lambda x: ([x, [g.torch.tensor([True, False, True, False])], g.t([3], dt)], {}))(g.t([4, 3], dt)),
        "r1": lambda g, dt: (lambda x: ([x, [g.torch.tensor([3, 0])], g.t([2], dt)], {}))(g.t([5], dt)),
        "empty-index": lambda g, dt: (lambda x: ([x, [g.torch.zeros([0], dtype=g.torch.int64)], g.t([0, 3], dt)], {}))(g.t([4, 3], dt)),
    }
    for dt in dts:
        yield S(f"one-index/{dt}", (lambda g, dt=dt: V["one-index"](g, dt)))
    for dt in lead(dts, ("f32", "i64")):
        for v, f in V.items():
            if v != "one-index":
                yield S(f"{v}/{dt}", (lambda g, dt=dt, f=f: f(g, dt)))


reg(_X, ["aten::index_put", "aten::_unsafe_index_put"], index_put)
reg(_X, "aten::unfold", one_tensor, variants=[
    ("plain", lambda g, dt: ([g.t([6, 3], dt), 0, 2, 2], {})), ("overlap", lambda g, dt: ([g.t([6], dt), 0, 3, 1], {})), ("negative-dim", lambda g, dt: ([g.t([2, 7], dt), -1, 3, 2], {})),
    ("dim=-rank", lambda g, dt: ([g.t([5, 2], dt), -2, 2, 3], {})), ("size=len", lambda g, dt: ([g.t([4], dt), 0, 4, 1], {})), ("step>size", lambda g, dt: ([g.t([7], dt), 0, 2, 3], {})),
    ("0-d", lambda g, dt: ([g.t([], dt), 0, 1, 1], {})), ("r3-middle", lambda g, dt: ([g.t([2, 5, 3], dt), 1, 2, 1], {})),
])
reg(_X, "aten::repeat_interleave.self_int", one_tensor, variants=[
    ("dim=None", lambda g, dt: ([g.t([2, 3], dt), 2], {})), ("dim=0", lambda g, dt: ([g.t([2, 3], dt), 2, 0], {})), ("dim=-1", lambda g, dt: ([g.t([2, 3], dt), 3, -1], {})),
    ("dim=-rank", lambda g, dt: ([g.t([2, 3], dt), 2, -2], {})), ("repeats=1", lambda g, dt: ([g.t([2, 3], dt), 1, 1], {})), ("0-d", lambda g, dt: ([g.t([], dt), 3], {})),
    ("r1", lambda g, dt: ([g.t([3], dt), 2, 0], {})), ("size0", lambda g, dt: ([g.t([0, 2], dt), 2, 1], {})),
    ("output_size", lambda g, dt: ([g.t([2, 3], dt), 2, 0], {"output_size": 4})),
])


def tensor_scalar(qn, kind):
    tdt = core.env().tdt
    val = {"bool": lambda g: g.r.random() < 0.5, "int": lambda g: g.r.randint(-5, 5), "float": lambda g: g.r.randint(-20, 20) / 8.0}[kind]
    for dk in ["omitted", "None"] + list(DT):
        if kind == "float" and dk in INTS:
            continue
        if kind == "int" and dk == "u8":
            continue
        yield S(f"dtype={dk}", (lambda g, dk=dk: ([val(g)], {} if dk == "omitted" else {"dtype": None if dk == "None" else tdt[dk]})))


reg(_X, "aten::tensor.bool", tensor_scalar, kind="bool")
reg(_X, "aten::tensor.int", tensor_scalar, kind="int")
reg(_X, "aten::tensor.float", tensor_scalar, kind="float")
def _cross_variants(positional_dim):
    def d(args, dim):
        return (args + [dim], {}) if positional_dim else (args, {"dim": dim})
    sm = lambda g, s, dt: g.t(s, dt, "small")
    v = [
        ("last-dim", lambda g, dt: ([sm(g, [4, 3], dt), sm(g, [4, 3], dt)], {})),
        ("dim=0", lambda g, dt: d([sm(g, [3, 4], dt), sm(g, [3, 4], dt)], 0)),
        ("dim=-rank", lambda g, dt: d([sm(g, [3, 2], dt), sm(g, [3, 2], dt)], -2)),
        ("r1", lambda g, dt: ([sm(g, [3], dt), sm(g, [3], dt)], {})),
        ("broadcast", lambda g, dt: ([sm(g, [2, 1, 3], dt), sm(g, [4, 3], dt)], {})),
    ]
    if positional_dim:
        v.append(("dim=None-first-size-3", lambda g, dt: ([sm(g, [3, 5, 3], dt), sm(g, [3, 5, 3], dt), None], {})))
    return v


reg(_X, "aten::cross", one_tensor, variants=_cross_variants(True), lead_only=("f32", "i64"))
reg(_X, "aten::linalg_cross", one_tensor, variants=_cross_variants(False), lead_only=("f32", "i64"))
reg(_X, "aten::einsum", one_tensor, variants=[
    ("matmul", lambda g, dt: (["ij,jk->ik", [g.t([2, 3], dt, "small"), g.t([3, 4], dt, "small")]], {})),
    ("transpose", lambda g, dt: (["ij->ji", [g.t([2, 3], dt, "small")]], {})), ("trace-like-sum", lambda g, dt: (["ij->", [g.t([2, 3], dt, "small")]], {})),
    ("batch", lambda g, dt: (["bij,bjk->bik", [g.t([2, 2, 3], dt, "small"), g.t([2, 3, 2], dt, "small")]], {})),
    ("outer", lambda g, dt: (["i,j->ij", [g.t([3], dt, "small"), g.t([4], dt, "small")]], {})),
    ("diagonal", lambda g, dt: (["ii->i", [g.t([3, 3], dt, "small")]], {})), ("implicit-output", lambda g, dt: (["ij,jk", [g.t([2, 3], dt, "small"), g.t([3, 2], dt, "small")]], {})),
    ("ellipsis", lambda g, dt: (["...ij,...jk->...ik", [g.t([2, 2, 3], dt, "small"), g.t([2, 3, 2], dt, "small")]], {})),
], lead_only=("f32", "i64"))
for _k, _n in ((1, "aten::atleast_1d"), (2, "aten::atleast_2d"), (3, "aten::atleast_3d")):
    reg(_X, _n, one_tensor, variants=[("0-d", lambda g, dt: ([g.t([], dt)], {})), ("r1", lambda g, dt: ([g.t([3], dt)], {})), ("r2", lambda g, dt: ([g.t([2, 3], dt)], {})),
                                      ("r3", lambda g, dt: ([g.t([2, 3, 2], dt)], {})), ("r4", lambda g, dt: ([g.t([2, 1, 3, 2], dt)], {})), ("size0", lambda g, dt: ([g.t([0], dt)], {}))], generic="r1")


# ---------------------------------------------------------------------------------------------
# extension modules (families added later live in their own files; each calls reg() on import)
for _ext in ("c08_strata_nn", "c08_strata_misc"):
    try:
        __import__(f"{__package__}.{_ext}")
    except ModuleNotFoundError as _e:
        if _ext not in str(_e):
            raise
