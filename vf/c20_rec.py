"""C20 helper: file-system call recorder / fault injector.

Two independent observers of the same execution:

* patches (what can be *failed*): builtins.open / io.open (the returned file object is wrapped in a
  pass-through proxy whose write/writelines/flush/truncate/close are recorded), os.open, os.fdopen,
  os.dup, os.fsync, os.fdatasync, os.replace, os.rename, os.remove, os.unlink, os.mkdir,
  os.makedirs, os.rmdir, os.truncate, os.ftruncate, os.link, os.symlink;
* sys.addaudithook (ground truth of which open/os.* events happened; cannot be bypassed by code
  that holds a reference to the original function).

Only calls that touch the scratch directory `root` are recorded.  With `fault_at=k` the k-th
recorded call raises OSError(ENOSPC) instead of being executed (`mode="enospc"`), or - for a
write - transfers only the first half of the data and then raises (`mode="short"`), or performs
the real close and then raises (`close` always releases the descriptor).
"""
from __future__ import annotations

import builtins
import errno
import io
import os
import sys

_CURRENT = None          # the active Recorder (at most one)
_HOOK_INSTALLED = False

# audit events that change the file system (or open a file) -> class used in the cross-check
_AUDIT_CLASS = {
    "open": "open", "os.rename": "rename", "os.remove": "remove", "os.mkdir": "mkdir", "os.rmdir": "rmdir",
    "os.truncate": "truncate", "os.link": "link", "os.symlink": "symlink", "os.chmod": "chmod",
    "os.chown": "chown", "os.utime": "utime", "tempfile.mkstemp": "open", "tempfile.mkdtemp": "mkdir",
    "shutil.copyfile": "shutil", "shutil.move": "shutil", "shutil.rmtree": "shutil",
}
_PATCH_CLASS = {
    "open": "open", "os.open": "open", "os.replace": "rename", "os.rename": "rename", "os.remove": "remove",
    "os.unlink": "remove", "os.mkdir": "mkdir", "os.makedirs": "mkdir", "os.rmdir": "rmdir",
    "os.truncate": "truncate", "os.link": "link", "os.symlink": "symlink",
}


def _under(root, p):
    try:
        if isinstance(p, bytes):
            p = os.fsdecode(p)
        if isinstance(p, os.PathLike):
            p = os.fspath(p)
        if not isinstance(p, str):
            return None
        ap = os.path.abspath(p)
        if ap == root or ap.startswith(root + os.sep):
            return ap
        rp = os.path.realpath(ap)
        if rp == root or rp.startswith(root + os.sep):
            return rp
    except Exception:
        return None
    return None


def _audit_hook(event, args):
    rec = _CURRENT
    if rec is None or not rec.active or rec._in_audit:
        return
    if event not in _AUDIT_CLASS:
        return
    rec._in_audit = True
    try:
        paths = []
        npath = 2 if event in ("os.rename", "os.link", "os.symlink", "shutil.copyfile", "shutil.move") else 1
        for a in args[:npath]:
            if isinstance(a, int) and not isinstance(a, bool) and event == "open":
                p = rec.fd_paths.get(a)
                if p:
                    paths.append(p)
                continue
            p = _under(rec.root, a)
            if p:
                paths.append(p)
        if paths:
            mode = args[1] if event == "open" and len(args) > 1 else None
            rec.audit.append({"event": event, "cls": _AUDIT_CLASS[event], "paths": paths,
                              "mode": mode if isinstance(mode, str) else None,
                              "ncalls_before": len(rec.calls)})
    finally:
        rec._in_audit = False


def install_audit_hook():
    global _HOOK_INSTALLED
    if not _HOOK_INSTALLED:
        sys.addaudithook(_audit_hook)
        _HOOK_INSTALLED = True


class InjectedFault(OSError):
    """The OSError the recorder raises (a plain OSError subclass so `except OSError` sees it)."""


class FileProxy:
    """Pass-through proxy of a file object; write/flush/close... are recorded and can be failed."""

    def __init__(self, rec, f, path, mode):
        object.__setattr__(self, "_rec", rec)
        object.__setattr__(self, "_f", f)
        object.__setattr__(self, "_path", path)
        object.__setattr__(self, "_mode", mode)

    # --- recorded operations
    def write(self, b):
        f = self._f
        try:
            mv = memoryview(b).cast("B") if not isinstance(b, str) else None
            n = mv.nbytes if mv is not None else len(b)
        except (TypeError, ValueError):
            mv, n = None, None

        def short():
            half = mv[: n // 2] if mv is not None else (b[: len(b) // 2] if isinstance(b, str) else None)
            if half is not None and len(half):
                f.write(half)
            raise InjectedFault(errno.ENOSPC, "No space left on device (injected after a short write)", self._path)

        return self._rec.invoke("write", self._path, lambda: f.write(b), info={"nbytes": n}, short=short)

    def writelines(self, lines):
        f = self._f
        return self._rec.invoke("writelines", self._path, lambda: f.writelines(lines))

    def flush(self):
        f = self._f
        return self._rec.invoke("flush", self._path, f.flush)

    def truncate(self, *a):
        f = self._f
        return self._rec.invoke("truncate", self._path, lambda: f.truncate(*a))

    def close(self):
        f = self._f
        if f.closed:
            return f.close()

        def fail():
            try:
                fd = f.fileno()
            except Exception:
                fd = None
            try:
                f.close()
            except OSError:
                pass
            self._rec.fd_paths.pop(fd, None)
            raise InjectedFault(errno.ENOSPC, "No space left on device (injected at close)", self._path)

        try:
            fd = f.fileno()
        except Exception:
            fd = None
        r = self._rec.invoke("close", self._path, f.close, fail=fail)
        self._rec.fd_paths.pop(fd, None)
        return r

    # --- plain delegation
    def __enter__(self):
        self._f.__enter__()
        return self

    def __exit__(self, *exc):
        self.close()
        return None

    def __iter__(self):
        return iter(self._f)

    def __next__(self):
        return next(self._f)

    def __getattr__(self, name):
        return getattr(self._f, name)

    def __setattr__(self, name, value):
        setattr(self._f, name, value)

    def __del__(self):
        try:
            f = self._f
            if not f.closed:
                f.close()
        except Exception:
            pass

    def __repr__(self):
        return f"<recorded {self._f!r}>"


for _abc in (io.IOBase, io.RawIOBase, io.BufferedIOBase, io.TextIOBase):
    _abc.register(FileProxy)


class Recorder:
    """Context manager.  `calls` = ordered list of recorded file-system calls touching `root`."""

    def __init__(self, root, fault_at=None, mode="enospc"):
        self.root = os.path.realpath(root)
        self.fault_at = fault_at          # 1-based index into the call sequence, or None
        self.mode = mode                  # "enospc" | "short"
        self.calls: list[dict] = []
        self.audit: list[dict] = []
        self.fd_paths: dict[int, str] = {}
        self.fired = None                 # the call record at which the fault was injected
        self.active = False
        self._in_audit = False
        self._depth = 0
        self._saved = []

    # ------------------------------------------------------------------ core
    def invoke(self, op, path, real, info=None, short=None, fail=None):
        """Record one call and either run it or inject the fault."""
        if not self.active or self._depth > 0:
            return real()
        rec = {"i": len(self.calls) + 1, "op": op, "path": os.path.relpath(path, self.root) if path else None}
        if info:
            rec.update(info)
        self.calls.append(rec)
        if self.fault_at is not None and rec["i"] == self.fault_at and self.fired is None:
            self.fired = rec
            rec["fault"] = self.mode
            if self.mode == "short" and short is not None:
                return short()
            if fail is not None:
                return fail()
            raise InjectedFault(errno.ENOSPC, "No space left on device (injected)", path)
        self._depth += 1
        try:
            return real()
        finally:
            self._depth -= 1

    # ------------------------------------------------------------------ patches
    def _p_open(self, orig):
        rec = self

        def open_(file, mode="r", *a, **k):
            if not rec.active or rec._depth > 0:
                return orig(file, mode, *a, **k)
            if isinstance(file, int) and not isinstance(file, bool):
                path = rec.fd_paths.get(file)
            else:
                path = _under(rec.root, file)
            if path is None:
                return orig(file, mode, *a, **k)
            f = rec.invoke("open", path, lambda: orig(file, mode, *a, **k), info={"mode": mode})
            try:
                rec.fd_paths[f.fileno()] = path
            except Exception:
                pass
            return FileProxy(rec, f, path, mode)

        open_.__wrapped__ = orig
        return open_

    def _p_path(self, name, orig, npaths=1):
        rec = self

        def f(*a, **k):
            if not rec.active or rec._depth > 0:
                return orig(*a, **k)
            paths = [p for p in (_under(rec.root, x) for x in a[:npaths]) if p]
            for kw in ("path", "src", "dst", "name"):
                if kw in k:
                    p = _under(rec.root, k[kw])
                    if p:
                        paths.append(p)
            if not paths:
                return orig(*a, **k)
            info = {"dst": os.path.relpath(paths[1], rec.root)} if len(paths) > 1 else None
            r = rec.invoke(name, paths[0], lambda: orig(*a, **k), info=info)
            if name == "os.open" and isinstance(r, int):
                rec.fd_paths[r] = paths[0]
            return r

        f.__wrapped__ = orig
        return f

    def _p_fd(self, name, orig):
        rec = self

        def f(fd, *a, **k):
            if not rec.active or rec._depth > 0:
                return orig(fd, *a, **k)
            try:
                key = fd if isinstance(fd, int) else fd.fileno()
            except Exception:
                key = None
            path = rec.fd_paths.get(key)
            if path is None:
                return orig(fd, *a, **k)
            r = rec.invoke(name, path, lambda: orig(fd, *a, **k))
            if name == "os.dup" and isinstance(r, int):
                pass  # the duplicate is private to the caller (numpy closes it itself)
            return r

        f.__wrapped__ = orig
        return f

    def __enter__(self):
        global _CURRENT
        install_audit_hook()
        assert _CURRENT is None, "nested recorders are not supported"
        o = builtins.open
        po = self._p_open(o)
        self._saved.append((builtins, "open", o))
        builtins.open = po
        if io.open is o:
            self._saved.append((io, "open", io.open))
            io.open = po
        for name, npaths in (("open", 1), ("replace", 2), ("rename", 2), ("remove", 1), ("unlink", 1), ("mkdir", 1),
                             ("makedirs", 1), ("rmdir", 1), ("truncate", 1), ("link", 2), ("symlink", 2)):
            orig = getattr(os, name)
            self._saved.append((os, name, orig))
            setattr(os, name, self._p_path("os." + name, orig, npaths))
        for name in ("fsync", "fdatasync", "dup", "ftruncate"):
            orig = getattr(os, name)
            self._saved.append((os, name, orig))
            setattr(os, name, self._p_fd("os." + name, orig))
        orig_fdopen = os.fdopen
        self._saved.append((os, "fdopen", orig_fdopen))

        def fdopen(fd, mode="r", *a, **k):
            return builtins.open(fd, mode, *a, **k)

        os.fdopen = fdopen
        _CURRENT = self
        self.active = True
        return self

    def __exit__(self, *exc):
        global _CURRENT
        self.active = False
        _CURRENT = None
        for mod, name, orig in reversed(self._saved):
            setattr(mod, name, orig)
        self._saved.clear()
        return False

    # ------------------------------------------------------------------ cross-check
    def audit_unmatched(self):
        """Audit events touching root that no patched call accounts for (=> enumeration not exhaustive)."""
        avail = {}
        for c in self.calls:
            cls = _PATCH_CLASS.get(c["op"])
            if cls is None:
                continue
            p = os.path.normpath(os.path.join(self.root, c["path"]))
            avail.setdefault(cls, []).append(p)
            if c.get("dst"):
                avail.setdefault(cls, []).append(os.path.normpath(os.path.join(self.root, c["dst"])))
        out = []
        for a in self.audit:
            cands = avail.get(a["cls"], [])
            ok = False
            for p in a["paths"]:
                for c in cands:
                    if c == p or (a["cls"] == "mkdir" and (c + os.sep).startswith(p + os.sep)):
                        ok = True
            if not ok:
                out.append({"event": a["event"], "paths": [os.path.relpath(p, self.root) for p in a["paths"]]})
        return out

    def patched_unaudited(self):
        """Recorded open/rename/... calls that were *executed* but raised no audit event (sanity of the recorder)."""
        seen = {}
        for a in self.audit:
            for p in a["paths"]:
                seen.setdefault(a["cls"], set()).add(p)
        out = []
        for c in self.calls:
            cls = _PATCH_CLASS.get(c["op"])
            if cls is None or c.get("fault"):
                continue
            p = os.path.normpath(os.path.join(self.root, c["path"]))
            if cls == "mkdir":
                continue  # makedirs(exist_ok=True) on an existing dir raises no mkdir event for it
            if p not in seen.get(cls, ()):
                out.append({"op": c["op"], "path": c["path"]})
        return out
