"""C16 — every registered torch_lib overload binds correctly to its ATen schema.

Exhaustive over get_torchlib_ops().  The target is resolved exactly as the exporter does
(`_registration._get_overload`), one tagged sentinel is synthesised per ATen schema argument,
and the sentinels are bound the exporter's way: scripted functions through the exporter's own
binder `_building._construct_named_inputs_and_attrs` (what OpRecorder.eval_function runs),
trace-only functions through Python's own call binding (TracedOnnxFunction.__call__ is
`self.func(*args, **kwargs)`).  The monitor records where each sentinel landed.
"""
from __future__ import annotations

import inspect
import json
import re
import subprocess
import sys

PID = "C16"
LEVEL = "exploration"
RULE = ("exhaustive over (qualified name, function) pairs from get_torchlib_ops(); per pair: exporter's _get_overload, "
        "sentinel per ATen schema argument in 3 variants (all supplied / defaults omitted / optional tensors None), bound by the "
        "exporter's binder (scripted) or Python call binding (trace-only); oracle = rules of the property sentence; "
        "registration observed in a fresh subprocess with Registry.register wrapped; check_function on scripted functions. "
        "non-trivial = pair whose schema has >=1 argument beyond self; distinct = qualified name x real/complex")
ASSUMPTIONS = [
    "torch.onnx._internal.exporter._registration._get_overload and _building._construct_named_inputs_and_attrs of the installed "
    "PyTorch are the exporter's convention",
    "namespaces whose extension is not installed (torchvision) are inconclusive per entry, not violations",
    "aten::getitem is the exporter's documented BC special case (resolved via operator.getitem)",
]
TIMEOUT = 900.0
ALLOWED_DROP = {"generator", "layout", "device", "pin_memory", "memory_format", "requires_grad"}
NAME_RE = re.compile(r"^[a-zA-Z0-9_]+::[a-zA-Z0-9_]+(\.[a-zA-Z0-9._]+)?$")
NCHUNK = 14


def EXHAUSTIVE(tier):
    return True


def thresholds(tier):
    return {"pairs": 400, "sentinels_bound": 1500, "scripted_checked": 40, "registrations": 400}


def cases(tier, seed):
    out = [{"kind": "registration"}]
    for i in range(NCHUNK):
        out.append({"kind": "chunk", "i": i, "n": NCHUNK})
    return out


class S:
    def __init__(self, arg, cls):
        self.arg, self.cls = arg, cls

    def __repr__(self):
        return f"<S:{self.arg}:{self.cls}>"


def _arg_class(a):
    """Classify an ATen schema argument -> (class, is_tensor, is_optional)."""
    c, is_t, opt = _arg_class0(a)
    if c == "ints" and getattr(a, "N", None) != 1:
        c = "ints_unsized"     # `int[] dim` is a genuine list; `int[1] dim` also accepts a bare int
    return c, is_t, opt


def _arg_class0(a):
    t = str(a.real_type)
    opt = t.startswith("Optional[")
    core = t[9:-1] if opt else t
    if core in ("Tensor",):
        return "tensor", True, opt
    if core in ("List[Tensor]", "List[Optional[Tensor]]"):
        return "tensorlist", True, opt
    m = {
        "int": "int", "SymInt": "int", "float": "float", "bool": "bool", "number": "number", "str": "str",
        "ScalarType": "dtype", "Layout": "layout", "Device": "device", "MemoryFormat": "memory_format",
        "Generator": "generator", "List[int]": "ints", "List[SymInt]": "ints", "List[float]": "floats",
        "List[bool]": "bools", "List[number]": "numbers", "List[Optional[int]]": "ints",
    }
    return m.get(core, "other:" + core), False, opt


_ATTR_OK = {
    "int": {"INT", "FLOAT"}, "dtype": {"INT"}, "float": {"FLOAT"}, "bool": {"INT"}, "number": {"FLOAT", "INT"},
    "str": {"STRING"}, "ints": {"INTS"}, "ints_unsized": {"INTS"}, "floats": {"FLOATS"}, "bools": {"INTS"}, "numbers": {"FLOATS", "INTS"},
}
_INPUT_OK = {"int", "float", "bool", "number", "ints", "ints_unsized", "floats", "bools", "numbers"}


def _metas():
    import warnings

    warnings.filterwarnings("ignore")
    from onnxscript._framework_apis import torch_2_5

    return torch_2_5.get_torchlib_ops()


def _ann_kinds(ann, depth=0):
    """Which argument classes a Python annotation admits (trace-only functions)."""
    import typing

    from onnxscript import onnx_types

    if depth > 6 or ann is inspect.Parameter.empty or ann is typing.Any or ann is None:
        return {"any"}
    if ann is type(None):
        return {"none"}
    if isinstance(ann, typing.TypeVar):
        out = set()
        for c in (ann.__constraints__ or ((ann.__bound__,) if ann.__bound__ else ())):
            out |= _ann_kinds(c, depth + 1)
        return out or {"any"}
    if isinstance(ann, type):
        if issubclass(ann, onnx_types.TensorType):
            return {"tensor"}
        if ann is bool:
            return {"bool"}
        if ann is int:
            return {"int"}
        if ann is float:
            return {"float"}
        if ann is str:
            return {"str"}
        if ann in (list, tuple):
            return {"any"}
        return {"any"}
    origin = typing.get_origin(ann)
    args = typing.get_args(ann)
    if origin is typing.Union or (origin is not None and getattr(origin, "__name__", "") == "UnionType"):
        out = set()
        for a in args:
            out |= _ann_kinds(a, depth + 1)
        return out
    if origin is not None:
        try:
            import collections.abc as cabc

            if isinstance(origin, type) and issubclass(origin, (cabc.Sequence, list, tuple)) or origin in (list, tuple):
                out = set()
                for a in args:
                    if a is Ellipsis:
                        continue
                    for k in _ann_kinds(a, depth + 1):
                        out.add({"tensor": "tensorlist", "int": "ints", "float": "floats", "bool": "bools"}.get(k, "any"))
                return out or {"any"}
        except TypeError:
            pass
    return {"any"}


_TRACED_OK = {
    "tensor": {"tensor"}, "tensorlist": {"tensorlist", "tensor"},
    "int": {"int", "float", "tensor"}, "dtype": {"int"}, "float": {"float", "tensor"}, "bool": {"bool", "int", "tensor"},
    "number": {"float", "int", "tensor"}, "str": {"str"}, "ints": {"ints", "int", "tensor", "floats", "tensorlist"}, "ints_unsized": {"ints", "tensor", "floats", "tensorlist"},
    "floats": {"floats", "tensor", "tensorlist"}, "bools": {"bools", "ints", "tensor"}, "numbers": {"floats", "ints", "tensor"},
}


def check_pair(meta, hit, v):
    import onnx
    import torch  # noqa: F401
    from torch.onnx._internal.exporter import _building, _registration

    import onnxscript
    from onnxscript import ir

    qn = meta.qualified_name
    fn = meta.function
    cx = "complex" if meta.is_complex else "real"
    hit("pairs")
    if not NAME_RE.fullmatch(qn) or qn.endswith(".default"):
        v(f"name;{qn}", f"malformed or .default-suffixed name {qn!r}")
    ns = qn.split("::")[0]
    target = _registration._get_overload(qn)
    scripted = isinstance(fn, onnxscript.OnnxFunction)
    if scripted:
        hit("scripted_checked")
        try:
            fp = fn.to_function_proto()
            onnx.checker.check_function(fp)
        except Exception as e:
            v(f"check_function;{qn}", f"{qn} ({fn.name}): FunctionProto fails checker: {type(e).__name__}: {str(e)[:300]}")
        from . import wellformed

        try:
            errs = wellformed.check_function(fn.to_function_proto(), strict_global=True, require_subgraph_outputs_produced=True)
        except Exception as e:  # pragma: no cover
            errs = []
        if errs:
            v(f"walker;{qn}", f"{qn} ({fn.name}): {errs[0]}")
    if target is None:
        if ns == "torchvision":
            hit("unresolvable_namespace_not_installed")
            return None
        if qn == "aten::getitem":
            hit("bc_special_case_getitem")
            return None
        v(f"undefined_overload;{qn}", f"PyTorch defines no operator overload for {qn!r} (exporter's _get_overload returns None)")
        return None
    if not hasattr(target, "_schema"):
        hit("builtin_targets")
        # python builtin (operator.*/math.*): arity check only
        try:
            nparams = len([p for p in fn.op_signature.params])
        except Exception:
            nparams = None
        return {"qn": qn, "target": repr(target), "params": nparams}
    schema = target._schema
    sig = fn.op_signature
    params = {p.name: p for p in sig.params}
    order = [p.name for p in sig.params]
    pyparams = None
    if not scripted:
        pysig = inspect.signature(fn.func)
        pyparams = pysig.parameters
        try:
            import typing

            hints = typing.get_type_hints(fn.func)
        except Exception:
            hints = {}
        has_varkw = any(p.kind == p.VAR_KEYWORD for p in pyparams.values())
        has_varpos = any(p.kind == p.VAR_POSITIONAL for p in pyparams.values())
    args = list(schema.arguments)
    fn_param_names = set(order) if scripted else set(pyparams)
    sample = {"qn": qn, "function": fn.name, "scripted": scripted, "schema": str(schema)[:200], "landed": {}}

    def variant(label, include):
        """include(a) -> bool: whether the FX node carries this argument."""
        pos, kw, sent = [], {}, {}
        stop = False
        for a in args:
            cls, is_t, opt = _arg_class(a)
            if a.kwarg_only:
                if include(a):
                    s = S(a.name, cls)
                    kw[a.name] = s
                    sent[a.name] = (s, a)
            else:
                if stop or not include(a):
                    stop = True  # positional arguments can only be omitted from the tail
                    continue
                s = S(a.name, cls)
                pos.append(s)
                sent[a.name] = (s, a)
        landed = {}
        if scripted:
            try:
                ni, na = _building._construct_named_inputs_and_attrs(sig, pos, kw)
            except Exception as e:
                v(f"bind_raises;{qn};{cx}", f"{qn}: exporter binder raises on {label}: {type(e).__name__}: {str(e)[:200]}")
                return
            for pname, val in list(ni.items()) + list(na.items()):
                vals = val if isinstance(val, tuple) else (val,)
                for x in vals:
                    if isinstance(x, S):
                        landed[x.arg] = pname
            # required parameters left unbound are raised by the binder itself (above)
        else:
            # Python binding, one argument at a time so each failure is attributed
            npos_ok = len([p for p in pyparams.values() if p.kind in (p.POSITIONAL_ONLY, p.POSITIONAL_OR_KEYWORD)])
            use_pos = pos if has_varpos else pos[:npos_ok]
            use_kw = {k: s for k, s in kw.items() if has_varkw or (k in pyparams and pyparams[k].kind != pyparams[k].POSITIONAL_ONLY)}
            try:
                ba = pysig.bind(*use_pos, **use_kw)
            except TypeError as e:
                v(f"bind_raises;{qn};{cx}", f"{qn}: calling {fn.name} the exporter's way ({label}) fails: {e}")
                return
            for pname, val in ba.arguments.items():
                vals = val if isinstance(val, tuple) else (val,)
                if isinstance(val, dict):
                    vals = tuple(val.values())
                for x in vals:
                    if isinstance(x, S):
                        landed[x.arg] = pname
            # required python parameters not bound
            for pname, p in pyparams.items():
                if p.default is inspect.Parameter.empty and p.kind in (p.POSITIONAL_OR_KEYWORD, p.KEYWORD_ONLY, p.POSITIONAL_ONLY) \
                        and pname not in ba.arguments:
                    v(f"unbound_required;{qn};{pname}", f"{qn}: required parameter {pname!r} of {fn.name} is left unbound ({label})")
        for aname, (s, a) in sent.items():
            hit("sentinels_bound")
            cls, is_t, opt = _arg_class(a)
            if aname not in landed:
                if aname in ALLOWED_DROP:
                    hit("dropped_allowed")
                else:
                    mech = "silently dropped by the binder" if scripted else "not accepted by the function (TypeError at export)"
                    v(f"dropped;{qn};{aname}" + (";complex" if meta.is_complex else ""), f"{qn}: schema argument {aname!r} ({a.real_type}) has no parameter in {fn.name}: {mech}")
                continue
            pname = landed[aname]
            p = params.get(pname)
            if label == "all":
                sample["landed"][aname] = pname
            if pname != aname and aname in fn_param_names and not a.kwarg_only:
                v(f"misordered;{qn};{aname}", f"{qn}: positional schema argument {aname!r} is bound to parameter {pname!r} of {fn.name}, "
                  f"which also has a parameter named {aname!r} (parameters in another order than the schema)")
            if aname in ALLOWED_DROP:
                continue
            if not scripted:
                # trace-only: the Python parameter itself receives the value; judge by its annotation
                if pname not in hints:
                    hit("landed_unannotated")
                    continue
                kinds = _ann_kinds(hints[pname])
                if pyparams[pname].kind == pyparams[pname].VAR_POSITIONAL:
                    kinds = {{"tensor": "tensorlist"}.get(k, k) for k in kinds} | kinds
                ok = _TRACED_OK.get(cls)
                if "any" in kinds or ok is None or kinds & ok:
                    hit("annotation_accepts")
                elif is_t:
                    v(f"tensor_to_attr;{qn};{aname}", f"{qn}: tensor argument {aname!r} is bound to parameter {pname!r} of {fn.name} "
                      f"annotated {hints[pname]!r} (not a tensor input)")
                else:
                    v(f"attr_type;{qn};{aname}", f"{qn}: {cls} argument {aname!r} is bound to parameter {pname!r} of {fn.name} "
                      f"annotated {hints[pname]!r}, which does not admit it")
                continue
            if p is None:
                hit("landed_in_var_param")
                continue
            is_input = isinstance(p, ir.schemas.Parameter)
            if is_t and not is_input:
                v(f"tensor_to_attr;{qn};{aname}", f"{qn}: tensor argument {aname!r} is bound to attribute parameter {pname!r} of {fn.name}")
            elif not is_t:
                if is_input:
                    if cls not in _INPUT_OK:
                        v(f"nontensor_to_input;{qn};{aname}", f"{qn}: {cls} argument {aname!r} is bound to input parameter {pname!r} of {fn.name}")
                    else:
                        hit("scalar_to_input")
                else:
                    at = p.type.name if hasattr(p.type, "name") else str(p.type)
                    ok = _ATTR_OK.get(cls)
                    if ok is not None and at not in ok:
                        v(f"attr_type;{qn};{aname}", f"{qn}: {cls} argument {aname!r} is bound to attribute {pname!r} of type {at} in {fn.name}")
                    else:
                        hit("attr_type_ok")

    variant("all", lambda a: True)
    variant("defaults_omitted", lambda a: not a.has_default_value())
    return sample


def run_chunk(i, n):
    metas = _metas()
    try:
        import torch.ao.quantization.fx._decomposed  # noqa: F401  (defines quantized_decomposed::*)
    except Exception:
        pass
    viol, events, samples, sigs = [], {}, [], []

    def hit(k, c=1):
        events[k] = events.get(k, 0) + c

    def v(key, what, **detail):
        viol.append({"key": key, "what": what, "detail": detail})

    if i == 0:
        # (name, real|complex) -> exactly one function
        seen = {}
        for m in metas:
            seen.setdefault((m.qualified_name, m.is_complex), []).append(m.function.name)
        for (qn, cx), fs in seen.items():
            if len(fs) != 1:
                v(f"multi_function;{qn}", f"{qn} ({'complex' if cx else 'real'}) resolves to {len(fs)} functions {fs}")
        events["registry_pairs"] = len(seen)
    for k, m in enumerate(metas):
        if k % n != i:
            continue
        s = check_pair(m, hit, v)
        sigs.append(f"{m.qualified_name}:{m.is_complex}")
        if s and len(samples) < 2 and s.get("landed") and len(s["landed"]) > 2:
            samples.append(s)
    return {"status": "ok", "viol": viol, "events": events, "nontrivial": True, "sig": None,
            "data": {"sigs": sigs}, "sample": samples[0] if samples else None}


_REG_SCRIPT = r'''
import json, sys, warnings
warnings.simplefilter("always")
from onnxscript.function_libs.torch_lib import registration
log = []
orig = registration.Registry.register
def register(self, func, name, *, complex=False):
    log.append([name, bool(complex), getattr(func, "name", repr(func))])
    return orig(self, func, name, complex=complex)
registration.Registry.register = register
with warnings.catch_warnings(record=True) as w:
    warnings.simplefilter("always")
    from onnxscript.function_libs.torch_lib import ops
    dup = [str(x.message) for x in w if "already registered" in str(x.message)]
print("@@" + json.dumps({"log": log, "dup": dup}))
'''


def run_registration():
    r = subprocess.run([sys.executable, "-c", _REG_SCRIPT], capture_output=True, text=True, timeout=600)
    line = [l for l in r.stdout.splitlines() if l.startswith("@@")]
    if not line:
        return {"status": "harness_error", "error": "registration probe produced no output: " + r.stderr[-500:]}
    d = json.loads(line[0][2:])
    viol = []
    seen = {}
    for name, cx, fname in d["log"]:
        seen.setdefault((name, cx), []).append(fname)
    for (name, cx), fs in seen.items():
        if len(fs) > 1 and not name.startswith("internal::"):
            viol.append({"key": f"duplicate_registration;{name}", "what": f"{name} ({'complex' if cx else 'real'}) registered "
                         f"{len(fs)} times: {fs}; only the first is used", "detail": {}})
    for name, cx, fname in d["log"]:
        if name.endswith(".default") or not NAME_RE.fullmatch(name):
            viol.append({"key": f"name;{name}", "what": f"malformed name {name!r} registered", "detail": {}})
    return {"status": "ok", "viol": viol, "events": {"registrations": len(d["log"]), "duplicate_warnings": len(d["dup"])},
            "nontrivial": True, "sig": "registration",
            "sample": {"registrations": len(d["log"]), "first": d["log"][:3], "duplicate_warnings": d["dup"][:3]}}


def run_case(spec):
    if spec["kind"] == "registration":
        return run_registration()
    return run_chunk(spec["i"], spec["n"])


def finalize(ctx):
    for r in ctx.results:
        for s in ((r.get("data") or {}).get("sigs") or []):
            ctx.sigs.add(s)
