"""Monitors shared by all checks.

* AnchorReach: sys.monitoring (3.12) PY_START + LINE events restricted with
  set_local_events to the code objects of the anchor functions of a property.
  Gives, per case, how often each anchor was entered and which of its lines ran.
* wrap_method / wrap_in_container: pass-through wrappers that count and log.
"""
from __future__ import annotations

import functools
import importlib
import sys

TOOL = 4


def _resolve(spec: str):
    modname, qual = spec.split(":")
    obj = importlib.import_module(modname)
    for part in qual.split("."):
        obj = getattr(obj, part)
    obj = getattr(obj, "__func__", obj)
    obj = getattr(obj, "__wrapped__", obj) if not hasattr(obj, "__code__") else obj
    return obj.__code__


class AnchorReach:
    def __init__(self, specs):
        self.codes = {}
        self.calls = {}
        self.lines = {}
        self.unresolved = []
        self._case_calls = {}
        self._case_lines = {}
        self.enabled = False
        if not specs or not hasattr(sys, "monitoring"):
            return
        for s in specs:
            try:
                code = _resolve(s)
            except Exception:
                self.unresolved.append(s)
                continue
            self.codes[code] = s
        if not self.codes:
            return
        mon = sys.monitoring
        try:
            mon.use_tool_id(TOOL, "verif-anchors")
        except ValueError:
            return
        E = mon.events
        mon.register_callback(TOOL, E.PY_START, self._on_start)
        mon.register_callback(TOOL, E.LINE, self._on_line)
        for code in self.codes:
            mon.set_local_events(TOOL, code, E.PY_START | E.LINE)
        self.enabled = True

    def _on_start(self, code, offset):
        s = self.codes.get(code)
        if s is not None:
            self._case_calls[s] = self._case_calls.get(s, 0) + 1

    def _on_line(self, code, line):
        s = self.codes.get(code)
        if s is not None:
            self._case_lines.setdefault(s, set()).add(line)

    def begin(self):
        self._case_calls = {}
        self._case_lines = {}

    def end(self):
        out = {"calls": dict(self._case_calls),
               "lines": {k: sorted(v) for k, v in self._case_lines.items()}}
        if self.unresolved:
            out["unresolved"] = list(self.unresolved)
        return out


def anchor_totals(results):
    """Aggregate the per-case anchor records of pmap results."""
    calls, lines, unresolved = {}, {}, set()
    for r in results:
        a = (r or {}).get("anchors") or {}
        for k, v in (a.get("calls") or {}).items():
            calls[k] = calls.get(k, 0) + v
        for k, v in (a.get("lines") or {}).items():
            lines.setdefault(k, set()).update(v)
        unresolved.update(a.get("unresolved") or [])
    return {"calls": calls, "distinct_lines": {k: len(v) for k, v in lines.items()},
            "unresolved": sorted(unresolved)}


class Counter(dict):
    def hit(self, key, n=1):
        self[key] = self.get(key, 0) + n


def wrap_method(cls, name, before=None, after=None, on_exc=None):
    """Class-level pass-through wrapper.  Returns an undo callable."""
    orig = cls.__dict__[name]
    func = orig.__func__ if isinstance(orig, (staticmethod, classmethod)) else orig

    @functools.wraps(func)
    def wrapper(*a, **k):
        tok = before(*a, **k) if before else None
        try:
            r = func(*a, **k)
        except BaseException as e:
            if on_exc:
                on_exc(tok, e, *a, **k)
            raise
        if after:
            after(tok, r, *a, **k)
        return r

    if isinstance(orig, staticmethod):
        setattr(cls, name, staticmethod(wrapper))
    elif isinstance(orig, classmethod):
        setattr(cls, name, classmethod(wrapper))
    else:
        setattr(cls, name, wrapper)

    def undo():
        setattr(cls, name, orig)

    return undo


def patch_function_everywhere(func, make_wrapper):
    """Replace every module-level alias of `func` (from m import f) by make_wrapper(func)."""
    w = make_wrapper(func)
    sites = []
    for m in list(sys.modules.values()):
        d = getattr(m, "__dict__", None)
        if not d:
            continue
        for k, v in list(d.items()):
            if v is func:
                d[k] = w
                sites.append((m, k))

    def undo():
        for m, k in sites:
            m.__dict__[k] = func

    return len(sites), undo
