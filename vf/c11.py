"""C11 — tensor indexing and slicing mean what they mean in NumPy.

Index expressions are generated as *source text* inside @script functions
(`return X[e1], X[e2], ...`), decorated by the real converter, and evaluated three ways:
  graph : to_model_proto() on ONNX Runtime,
  eager : calling the script function with numpy arrays (Tensor.__getitem__),
  numpy : the same text evaluated on X = arange(prod(s)).reshape(s).
Any exception anywhere is "rejected" (allowed); only a *returned* tensor whose shape or elements differ
from NumPy's is a violation.
"""
from __future__ import annotations

import importlib.util
import linecache
import os
import sys

import numpy as np

from . import c11_gen as G
from . import common

PID = "C11"
LEVEL = "exploration"
RULE = ("index expressions generated as source text in @script functions (bundles of <=16 per function, re-split to "
        "singletons when a bundle is refused on any path); components: ints in [-d,d-1], ':', constant slices with "
        "start/stop in {None,-d-1..d+1} and step in {None,1,2,-1,-2}, scalar INT64 tensor index (graph input swept over "
        "[-d,d-1]), 1-D INT64 tensor index, dynamic slice bounds (8 templates over swept inputs); X=arange(prod(s)).reshape(s) "
        "in int64 and float32; graph (ORT), eager and numpy compared on shape and elements. rank 1, d in 1..4: every "
        "expression (both dtypes, both tiers); rank 2, dims 1..3: thorough = every pair and single over {ints, ':', slices "
        "with step in {None,1,-1,2}} on every shape (dtype alternates per bundle), quick = stratified sample; rank 2/3 with "
        "tensor-valued components and rank 3: stratified over all tuples of 12 component classes, shapes/values drawn inside "
        "each stratum. Excluded (property silent / NumPy's advanced-indexing special cases): >1 one-dimensional tensor index, "
        "a 1-D tensor index separated from a scalar index by a slice, out-of-range scalar indices, ellipsis/newaxis. "
        "non-trivial = at least one of graph/eager returned a tensor that was compared; distinct = (shape, expression text)")
ASSUMPTIONS = [
    "NumPy's basic/advanced indexing on an ndarray with unique elements is the oracle the property names",
    "ONNX Runtime (optimisations off) executes the translated graph; onnx.reference may only dispute a mismatch",
    "a scalar tensor index is read by NumPy as a Python int (basic indexing), a 1-D tensor index as an int64 array",
    "eager results are read from the value returned by calling the script function with numpy arrays",
    "ORT sessions that eager mode creates without options are given 1 thread (harness-side default; results unaffected)",
    "c11_spec (Slice-13/Gather-13/Squeeze-13 transcribed from the operator spec) arbitrates ORT-vs-onnx.reference "
    "disagreements: a dispute by onnx.reference is void when the transcription sides with ORT",
]
ANCHORS = [
    "onnxscript._internal.converter:Converter._translate_subscript_expr",
    "onnxscript.tensor:Tensor.__getitem__",
    "onnxscript._internal.ast_utils:normalize_subscript_expr",
]
TIMEOUT = 600.0
BUNDLE = 16


def EXHAUSTIVE(tier):
    # rank 1 is enumerated completely on both tiers; rank 2 static pairs only on thorough
    return tier == "thorough"


def thresholds(tier):
    if tier == "thorough":
        return {"graph_compared": 60000, "eager_compared": 60000, "exprs": 50000, "distinct_nontrivial": 40000,
                "graph_path:Gather": 80, "graph_path:Slice": 5000, "graph_path:Slice>Squeeze": 2000,
                "graph_path:Slice>Gather": 20, "eager_path:Gather": 70, "eager_path:Slice": 5000,
                "neg_step_default_bound": 2000, "tensor_index_bindings": 2000,
                "anchor:onnxscript._internal.converter:Converter._translate_subscript_expr": 20000,
                "anchor:onnxscript.tensor:Tensor.__getitem__": 20000}
    return {"graph_compared": 2500, "eager_compared": 2500, "exprs": 1500, "distinct_nontrivial": 1200,
            "graph_path:Gather": 30, "graph_path:Slice": 500, "graph_path:Slice>Squeeze": 100,
            "graph_path:Slice>Gather": 10, "eager_path:Gather": 40, "eager_path:Slice": 500,
            "neg_step_default_bound": 200, "tensor_index_bindings": 400,
            "anchor:onnxscript._internal.converter:Converter._translate_subscript_expr": 1500,
            "anchor:onnxscript.tensor:Tensor.__getitem__": 1500}


# ------------------------------------------------------------------ cases
def _bundle(out, shape, dtype, exprs, cap, tag):
    """Group expressions by the set of tensor inputs they use, then cut into bundles."""
    groups = {}
    for e in exprs:
        groups.setdefault(tuple(sorted(G.expr_vars(e))), []).append(e)
    for vars_, es in sorted(groups.items()):
        n = BUNDLE if not vars_ else 8
        for k in range(0, len(es), n):
            out.append({"shape": list(shape), "dtype": dtype, "exprs": es[k:k + n], "cap": cap, "tag": tag})


def cases(tier, seed):
    out = []
    thorough = tier == "thorough"
    # rank 1: everything, both dtypes
    for d in (1, 2, 3, 4):
        for dtype in ("int64", "float32"):
            _bundle(out, [d], dtype, G.rank1_exprs(d), 48 if thorough else 24, "r1")
    # rank 2, static components
    if thorough:
        k = 0
        for d0 in (1, 2, 3):
            for d1 in (1, 2, 3):
                es = list(G.rank2_static_exprs([d0, d1]))
                for j in range(0, len(es), BUNDLE):
                    k += 1
                    out.append({"shape": [d0, d1], "dtype": "int64" if k % 2 else "float32", "exprs": es[j:j + BUNDLE],
                                "cap": 1, "tag": "r2x"})
    # stratified samples (rank 2 and 3; all 12 classes incl. tensor-valued components)
    rnd = common.rng(PID, seed, "sample", tier)
    n2, n3 = (24, 6) if thorough else (10, 2)
    by_shape = {}
    for shape, expr in G.sampled_exprs(2, n2, rnd, [1, 2, 3]):
        by_shape.setdefault((tuple(shape), "r2s"), []).append(expr)
    for shape, expr in G.sampled_exprs(3, n3, rnd, [1, 2, 3, 4]):
        by_shape.setdefault((tuple(shape), "r3s"), []).append(expr)
    k = 0
    for (shape, tag), es in sorted(by_shape.items()):
        # dedupe inside a shape
        seen, uniq = set(), []
        for e in es:
            t = G.expr_text(e)
            if t not in seen:
                seen.add(t)
                uniq.append(e)
        k += 1
        _bundle(out, shape, "int64" if k % 2 else "float32", uniq, 32 if thorough else 12, tag)
    return out


# ------------------------------------------------------------------ worker side
_state = {"dir": None, "n": 0, "eager_ops": None, "eager_paths": None}


def worker_init():
    from onnxscript import tensor as ostensor
    from onnxscript._internal import evaluator

    from . import probes

    _state["dir"] = common.scratch_dir("vf-c11-")
    _single_thread_ort()

    def ev_before(self, op, args, kwargs):
        if _state["eager_ops"] is not None:
            _state["eager_ops"].append(getattr(op, "name", "?"))
        return None

    probes.wrap_method(evaluator.BaseEvaluator, "eval_op", before=ev_before)

    def gi_before(self, index):
        tok = _state["eager_ops"]
        _state["eager_ops"] = []
        return tok

    def gi_after(tok, r, self, index):
        if _state["eager_paths"] is not None:
            _state["eager_paths"].append(">".join(_state["eager_ops"] or []) or "none")
        _state["eager_ops"] = tok

    def gi_exc(tok, e, self, index):
        _state["eager_ops"] = tok

    probes.wrap_method(ostensor.Tensor, "__getitem__", before=gi_before, after=gi_after, on_exc=gi_exc)


def _single_thread_ort():
    """Eager mode builds one InferenceSession per operator call with default options (= one thread pool of ncpu threads
    per call, ~30 ms on a loaded box).  Sessions created *without* options get 1 intra/inter-op thread instead; nothing
    else changes (thread count does not affect results of Slice/Gather/Squeeze/Add)."""
    import onnxruntime as ort

    if getattr(ort.InferenceSession, "_vf_single_thread", False):
        return
    orig = ort.InferenceSession.__init__

    def init(self, path_or_bytes, sess_options=None, *a, **k):
        if sess_options is None:
            sess_options = ort.SessionOptions()
            sess_options.intra_op_num_threads = 1
            sess_options.inter_op_num_threads = 1
            sess_options.log_severity_level = 4
        return orig(self, path_or_bytes, sess_options, *a, **k)

    ort.InferenceSession.__init__ = init
    ort.InferenceSession._vf_single_thread = True


def _import_source(src):
    """Write src to a scratch module and import it (sys.modules before exec_module).  -> module"""
    if _state["dir"] is None:
        _state["dir"] = common.scratch_dir("vf-c11-")
    _state["n"] += 1
    name = f"vf_c11_m{os.getpid()}_{_state['n']}"
    path = os.path.join(_state["dir"], name + ".py")
    with open(path, "w") as f:
        f.write(src)
    spec = importlib.util.spec_from_file_location(name, path)
    mod = importlib.util.module_from_spec(spec)
    sys.modules[name] = mod
    try:
        spec.loader.exec_module(mod)
    finally:
        sys.modules.pop(name, None)
        linecache.cache.pop(path, None)
        try:
            os.unlink(path)
        except OSError:
            pass
    return mod


class Unit:
    """One decorated script function returning a tuple of index expressions."""

    def __init__(self, exprs, dtype, var_names):
        self.exprs, self.dtype, self.var_names = exprs, dtype, var_names
        self.fn = None
        self.error = None
        self.model = None
        self.sess = None
        try:
            mod = _import_source(G.MODULE_HEADER + G.function_source("f", exprs, dtype, var_names))
            self.fn = mod.f
        except Exception as e:  # refusal at decoration
            self.error = f"{type(e).__name__}: {e}"[:300]

    def feeds(self, X, binding):
        d = {"X": X}
        for v in self.var_names:
            d[v] = np.array(binding[v], dtype=np.int64)
        return d

    def graph_prepare(self):
        from . import runner

        self.model = self.fn.to_model_proto()
        self.sess = runner.ort_session(self.model)

    def graph_run(self, X, binding):
        outs = self.sess.run(None, self.feeds(X, binding))
        if len(outs) != len(self.exprs):
            raise RuntimeError(f"graph has {len(outs)} outputs for {len(self.exprs)} expressions")
        return outs

    def eager_run(self, X, binding):
        from . import runner

        f = self.feeds(X, binding)
        r = self.fn(f["X"], *[f[v] for v in self.var_names])
        if len(self.exprs) == 1:
            r = r if isinstance(r, tuple) else (r,)
        if not isinstance(r, (tuple, list)) or len(r) != len(self.exprs):
            raise RuntimeError("eager call returned an unexpected structure")
        return [runner.as_np(x) for x in r]

    def graph_paths(self):
        """Per output: the chain of indexing ops from X to the output (Constant/Concat/Reshape plumbing left out)."""
        prod = {}
        for n in self.model.graph.node:
            for o in n.output:
                prod[o] = n
        paths = []
        for out in self.model.graph.output:
            chain, cur, guard = [], out.name, 0
            while cur in prod and guard < 20:
                guard += 1
                n = prod[cur]
                chain.append(n.op_type)
                cur = n.input[0] if n.input else ""
            paths.append(">".join(reversed(chain)) or "none")
        return paths


def _differs(got, want):
    """-> None | ("shape"|"value", text)"""
    got = np.asarray(got)
    want = np.asarray(want)
    if got.shape != want.shape:
        return "shape", f"shape {got.shape} vs numpy {want.shape}"
    if got.size and not np.array_equal(got.astype(np.float64), want.astype(np.float64)):
        return "value", f"elements {got.ravel().tolist()[:8]} vs numpy {want.ravel().tolist()[:8]}"
    return None


def run_case(spec):
    shape, dtype, exprs = spec["shape"], spec["dtype"], spec["exprs"]
    events, viol = {}, []

    def hit(k, n=1):
        events[k] = events.get(k, 0) + n

    X = G.make_X(shape, dtype)
    var_names = sorted({v for e in exprs for v in G.expr_vars(e)})
    rnd = common.rng(PID, "bind", common.digest([shape, [G.expr_text(e) for e in exprs]]))
    bindings = G.bindings_for(var_names, shape, spec.get("cap", 16), rnd)
    # numpy first: defines the expectation and filters anything NumPy itself refuses (must not happen by construction)
    want = {}
    for bi, b in enumerate(bindings):
        for ei, e in enumerate(exprs):
            try:
                want[(ei, bi)] = np.asarray(G.numpy_eval(e, X, b))
            except Exception:
                hit("numpy_refused")
    hit("exprs", len(exprs))
    hit("bundles")
    if var_names:
        hit("tensor_index_bindings", len(bindings) * len(exprs))
    for e in exprs:
        for a, c in enumerate(e):
            cl = G.comp_class(c)
            hit("class:" + cl)
            if cl.startswith("nslice_d"):
                hit("neg_step_default_bound")

    singles = {}

    def single(ei):
        if ei not in singles:
            singles[ei] = Unit([exprs[ei]], dtype, sorted(G.expr_vars(exprs[ei])))
        return singles[ei]

    compared = set()
    reported = set()
    culprits = {}
    disputed = [0]

    def judge(path, ei, bi, got, unit, oi):
        if (ei, bi) not in want:
            return
        hit(f"{path}_compared")
        compared.add(ei)
        d = _differs(got, want[(ei, bi)])
        if d is None:
            return
        kind, text = d
        # asymmetric trust: onnx.reference may dispute ORT
        if _disputes(path, unit, oi, ei, bi, got):
            disputed[0] += 1
            hit(f"{path}_disputed_by_reference")
            return
        form = G.form_of(exprs[ei], bindings[bi])
        mech = G.explain(path, exprs[ei], X, bindings[bi], got)
        if mech is not None:
            key = f"path={path};cond={mech};kind={kind}"
        else:
            ck = (path, form, kind)
            if ck not in culprits:
                culprits[ck] = _culprit(path, exprs[ei], bindings[bi])
            key = f"path={path};cond=unexplained;form={culprits[ck]};kind={kind}"
        if (key, ei) in reported:
            hit("violating_bindings")
            return
        reported.add((key, ei))
        det = {"shape": shape, "dtype": dtype, "expr": G.expr_text(exprs[ei]), "binding": bindings[bi], "form": form}
        if path == "graph":
            try:
                det["ops"] = unit.graph_paths()[oi]
            except Exception:
                pass
        viol.append({"key": key, "what": f"{path}: {G.expr_text(exprs[ei])} on shape {tuple(shape)} {dtype}"
                     f"{' with ' + str(bindings[bi]) if bindings[bi] else ''}: {text}", "detail": det})

    def _run_single(path, expr, binding):
        u = Unit([expr], dtype, sorted(G.expr_vars(expr)))
        if u.error:
            return None
        try:
            if path == "graph":
                u.graph_prepare()
                return u.graph_run(X, binding)[0]
            return u.eager_run(X, binding)[0]
        except Exception:
            return None

    def _culprit(path, expr, binding):
        """Coarse mechanism predicate for a difference no known deviation explains: replace components by ':' one at a
        time while the (still unexplained) difference persists; what remains are the component classes that are needed
        to provoke it (positions dropped).  Keeps the number of distinct keys small when one defect hits many forms."""
        cur = [list(c) for c in expr]
        for a in range(len(cur)):
            if cur[a][0] == "full":
                continue
            cand = cur[:a] + [["full"]] + cur[a + 1:]
            if all(c[0] == "full" for c in cand):
                continue
            hit("culprit_reduction_runs")
            got2 = _run_single(path, cand, binding)
            if got2 is None:
                continue
            try:
                w2 = G.numpy_eval(cand, X, binding)
            except Exception:
                continue
            if _differs(got2, w2) is None or G.explain(path, cand, X, binding, got2) is not None:
                continue
            cur = cand
        cls = [c for c in G.form_of(cur, binding).split("+") if c != "full"]
        return "+".join(cls) or "full"

    def _disputes(path, unit, oi, ei, bi, got):
        """Asymmetric trust (DESIGN 2.3, external-oracle form): a difference ORT-vs-NumPy is *disputed* when the
        runtime, not the graph, is wrong.  Witnesses: the spec transcription (c11_spec) and onnx.reference.
        spec == ORT  -> the runtime is right, dispute void (onnx.reference's Slice is NumPy slicing and would
                        otherwise 'dispute' exactly the emitted nodes that do not mean what NumPy means);
        spec == NumPy or (spec unavailable and reference == NumPy) -> disputed."""
        from onnxscript._internal import evaluator

        from . import c11_spec, runner

        spec = None
        try:
            if path == "graph":
                spec = c11_spec.run_model(unit.model, unit.feeds(X, bindings[bi]))
            else:
                with evaluator.default_as(c11_spec.make_evaluator()):
                    spec = unit.eager_run(X, bindings[bi])
        except Exception:
            spec = None
        if spec is not None:
            if _differs(spec[oi], got) is None:
                hit(f"{path}_reference_dispute_void_spec_sides_with_ort")
                return False
            if _differs(spec[oi], want[(ei, bi)]) is None:
                return True
        try:
            if path == "graph":
                st, outs = runner.ref_run(unit.model, unit.feeds(X, bindings[bi]))
                if st != "ok":
                    return False
            else:
                with evaluator.default_as(evaluator.OnnxReferenceRuntimeEvaluator()):
                    outs = unit.eager_run(X, bindings[bi])
            return _differs(outs[oi], want[(ei, bi)]) is None
        except Exception:
            return False

    bundle = Unit(exprs, dtype, var_names) if len(exprs) > 1 else None
    if bundle is not None and bundle.error:
        hit("bundle_refused_at_decoration")
        bundle = None

    # ---- graph path
    done_graph = False
    if bundle is not None:
        try:
            bundle.graph_prepare()
            results = [bundle.graph_run(X, b) for b in bindings]
            paths = bundle.graph_paths()
            for oi, p in enumerate(paths):
                hit("graph_path:" + p)
            for bi, outs in enumerate(results):
                for ei in range(len(exprs)):
                    judge("graph", ei, bi, outs[ei], bundle, ei)
            done_graph = True
        except Exception:
            hit("graph_bundle_resplit")
    if not done_graph:
        for ei in range(len(exprs)):
            u = single(ei)
            if u.error:
                hit("graph_rejected:decoration")
                continue
            try:
                u.graph_prepare()
            except Exception:
                hit("graph_rejected:proto_or_load")
                continue
            try:
                hit("graph_path:" + u.graph_paths()[0])
            except Exception:
                pass
            for bi, b in enumerate(bindings):
                try:
                    outs = u.graph_run(X, b)
                except Exception:
                    hit("graph_rejected:run")
                    continue
                judge("graph", ei, bi, outs[0], u, 0)

    # ---- eager path
    done_eager = False
    _state["eager_paths"] = []
    if bundle is not None:
        try:
            results = [bundle.eager_run(X, b) for b in bindings]
            for bi, outs in enumerate(results):
                for ei in range(len(exprs)):
                    judge("eager", ei, bi, outs[ei], bundle, ei)
            done_eager = True
        except Exception:
            hit("eager_bundle_resplit")
            _state["eager_paths"] = []
    if not done_eager:
        for ei in range(len(exprs)):
            u = single(ei)
            if u.error:
                hit("eager_rejected:decoration")
                continue
            for bi, b in enumerate(bindings):
                try:
                    outs = u.eager_run(X, b)
                except Exception:
                    hit("eager_rejected:run")
                    continue
                judge("eager", ei, bi, outs[0], u, 0)
    for p in _state["eager_paths"] or []:
        hit("eager_path:" + p)
    _state["eager_paths"] = None

    nt = sorted(compared)
    sample = None
    if nt:
        e = exprs[nt[0]]
        sample = {"shape": shape, "dtype": dtype, "expr": G.expr_text(e), "form": G.form_of(e),
                  "bindings": len(bindings)}
    return {"status": "ok", "viol": viol, "events": events, "nontrivial": bool(nt), "sig": None,
            "sample": sample, "data": {"nt": nt}}


def finalize(ctx):
    for spec, r in zip(ctx.specs, ctx.results):
        nt = ((r or {}).get("data") or {}).get("nt") or []
        for ei in nt:
            ctx.sigs.add(f"{tuple(spec['shape'])}:{G.expr_text(spec['exprs'][ei])}")
