"""Shared helpers: seeds, tiers, scratch dirs, stable hashing."""
from __future__ import annotations

import atexit
import hashlib
import json
import os
import random
import shutil
import tempfile

VERIF_DIR = os.path.dirname(os.path.dirname(os.path.abspath(__file__)))
REPO_DIR = os.environ.get("VERIF_REPO") or "/repo"


def seed() -> int:
    try:
        return int(os.environ.get("VERIF_SEED", "0"))
    except ValueError:
        return 0


def tier(default: str = "quick") -> str:
    t = os.environ.get("VERIF_TIER", default)
    return t if t in ("quick", "thorough") else default


def h32(*parts) -> int:
    s = "\x1f".join(str(p) for p in parts).encode()
    return int.from_bytes(hashlib.sha256(s).digest()[:4], "big")


def digest(obj, n: int = 12) -> str:
    if isinstance(obj, bytes):
        b = obj
    elif isinstance(obj, str):
        b = obj.encode()
    else:
        b = json.dumps(obj, sort_keys=True, default=str).encode()
    return hashlib.sha256(b).hexdigest()[:n]


def rng(*parts) -> random.Random:
    """A PRNG that depends only on its arguments (never on hash randomisation)."""
    return random.Random(h32(*parts))


_scratch_dirs: list[str] = []


def scratch_dir(prefix: str = "vf-") -> str:
    base = os.environ.get("VERIF_SCRATCH") or tempfile.gettempdir()
    d = tempfile.mkdtemp(prefix=prefix, dir=base)
    _scratch_dirs.append(d)
    return d


@atexit.register
def _cleanup():
    for d in _scratch_dirs:
        shutil.rmtree(d, ignore_errors=True)


def ncpu() -> int:
    try:
        n = int(os.environ.get("VERIF_JOBS", "0"))
    except ValueError:
        n = 0
    if n > 0:
        return n
    return max(1, min(16, (os.cpu_count() or 2) - 1))


def jsonable(x):
    """Best-effort conversion of small objects into JSON-serialisable form."""
    import numpy as np

    if isinstance(x, (str, int, float, bool)) or x is None:
        if isinstance(x, float) and (x != x or x in (float("inf"), float("-inf"))):
            return repr(x)
        return x
    if isinstance(x, bytes):
        return x[:64].hex()
    if isinstance(x, np.ndarray):
        if x.size <= 24:
            return {"dtype": str(x.dtype), "shape": list(x.shape), "data": jsonable(x.tolist())}
        return {"dtype": str(x.dtype), "shape": list(x.shape), "sha": digest(x.tobytes())}
    if isinstance(x, np.generic):
        return jsonable(x.item())
    if isinstance(x, dict):
        return {str(k): jsonable(v) for k, v in x.items()}
    if isinstance(x, (list, tuple, set, frozenset)):
        return [jsonable(v) for v in x]
    return repr(x)[:200]
