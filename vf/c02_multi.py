"""C02, fixed family: programs whose functions are written against DIFFERENT standard opsets.

main (opset A) calls a helper (opset B) directly, through a middle function (opset A) or only inside an if-branch; main
and/or the helper contain one operator whose signature changed between the opsets (Reduce* axes attribute -> input at 18,
Split num_outputs at 18, Squeeze/Unsqueeze axes attribute -> input at 13), written in the form that is valid at the
function's own opset.  Every such program is legal ONNX Script; its ModelProto must import the standard domain once, at a
version under which the main graph's own nodes are valid, and every FunctionProto must import what its body needs."""
from __future__ import annotations

import itertools

OPSETS = [13, 15, 17, 18, 21]
CHAINS = ["direct", "transitive", "in_branch", "in_loop"]
SENSITIVE = ["reduce", "split", "none"]


def _sensitive(kind, v, opname, x):
    """one statement producing `t` (FLOAT[N]) from `x` in the form valid at opset v"""
    if kind == "reduce":
        if v >= 18:
            return f"    t = {opname}.ReduceMean({x}, [0], keepdims=1) + {x}"
        return f"    t = {opname}.ReduceMean({x}, axes=[0], keepdims=1) + {x}"
    if kind == "split":
        if v >= 18:
            return f"    ta, tb = {opname}.Split({x}, num_outputs=2, axis=0)\n    t = {opname}.Concat(tb, ta, axis=0)"
        return f"    ta, tb = {opname}.Split({x}, axis=0)\n    t = {opname}.Concat(tb, ta, axis=0)"
    return f"    t = {opname}.Abs({x})"


def programs():
    """-> list of (label, source, helper names)"""
    out = []
    for a, b, chain, sm, sh in itertools.product(OPSETS, OPSETS, CHAINS, SENSITIVE, SENSITIVE):
        if a == b or (sm == "none" and sh == "none"):
            continue
        if (sm, sh) not in (("reduce", "none"), ("none", "split"), ("split", "reduce"), ("reduce", "reduce"), ("none", "reduce"), ("split", "none")):
            continue
        hdr = ("from onnxscript import script\n"
               f"from onnxscript.onnx_opset import opset{a} as opa\n"
               f"from onnxscript.onnx_opset import opset{b} as opb\n"
               "from onnxscript.onnx_types import FLOAT, BOOL\n\n")
        leaf = "@script(default_opset=opb)\ndef leaf(a: FLOAT[4]) -> FLOAT[4]:\n" + _sensitive(sh, b, "opb", "a") + "\n    return t * 2.0\n\n"
        helpers = ["leaf"]
        callee = "leaf"
        mid = ""
        if chain == "transitive":
            mid = "@script(default_opset=opa)\ndef mid(a: FLOAT[4]) -> FLOAT[4]:\n    u = leaf(a)\n    return opa.Neg(u)\n\n"
            helpers.append("mid")
            callee = "mid"
        body = [_sensitive(sm, a, "opa", "x")]
        if chain == "in_branch":
            body += ["    c = opa.ReduceSum(t, keepdims=0) > 0.0", "    if c:", f"        r = {callee}(t)", "    else:", "        r = opa.Neg(t)"]
        elif chain == "in_loop":
            body += ["    r = opa.Identity(t)", "    for i in range(2):", f"        r = {callee}(r) + t"]
        else:
            body += [f"    r = {callee}(t)"]
        main = "@script(default_opset=opa)\ndef main(x: FLOAT[4]) -> FLOAT[4]:\n" + "\n".join(body) + "\n    return r + x\n"
        out.append((f"A={a};B={b};chain={chain};main={sm};helper={sh}", hdr + leaf + mid + main, helpers))
    return out
