"""C10 — opset version conversion yields a valid, equivalent model at the target version.

System under test: onnxscript.version_converter.convert_version(model, target_version, fallback=...).
One case = one (template, source opset) model and a list of conversions (target, entry, fallback) of it.
Monitors (pass-through wrappers) record which adapter ran / replaced / raised and whether the native or the
C-API (fallback) path was taken; oracles judge the observable result.
"""
from __future__ import annotations

import copy

from . import common

PID = "C10"
LEVEL = "exploration"
RULE = ("templates (DFT with/without axis rank 3/4, +length/inverse; GridSample bilinear/bicubic/nearest; GroupNormalization per-group "
        "static / G==C / scale as input / symbolic channel / input without shape; unchanged ops; If+Loop bodies capturing outer values; "
        "model-local functions incl. ref-attribute and nested; initializers >1000 elements and initializer-inputs; adapted operators ONLY inside If/Loop bodies "
        "under a main graph whose values are named val_0, val_1, ... like exporter output; mix) built at every "
        "source opset s in 18..25 in the form valid at s; conversions (s,t) in [18,25]^2 x entry {ir.Model, ModelProto} x fallback "
        "{default, False, True}: thorough = all, quick = pairwise-covering subset (+ every (template,s) x {same, adapter-crossing, down}) "
        "of ~600. Oracle: declared default-domain opset == t consistently (model, functions, node.version) else model byte-identical; "
        "onnx.checker(full) at the declared version; independent well-formedness walk; graph signature; initializer payloads; ORT "
        "outputs on 3 inputs equal to the original's (onnx.reference may only dispute). "
        "non-trivial = conversion with t != s that returned; distinct = (template, s, t, entry, fallback)")
ASSUMPTIONS = [
    "ONNX Runtime (optimisations off) defines what a model computes at every opset 18..25; onnx.reference can only dispute",
    "the installed onnx marks GroupNormalization-18 deprecated, so onnx.checker rejects every model using it below opset 21: for "
    "those the checker verdict is not used (original: accepted if ORT runs it; result declared < 21: checker skipped, counted)",
    "an exception from convert_version is a permitted refusal provided the model is left byte-identical",
    "node.version None means 'the model's opset' (consistent); only an explicit different version is inconsistent",
]
ANCHORS = [
    "onnxscript.version_converter:convert_version",
    "onnxscript.version_converter:_ConvertVersionPassRequiresInline.call",
    "onnxscript.version_converter._version_converter:_VersionConverter.visit_node",
    "onnxscript.version_converter._version_converter:_VersionConverter.visit_model",
    "onnxscript.version_converter._c_api_utils:call_onnx_api",
]
TIMEOUT = 900.0
VERSIONS = list(range(18, 26))
ENTRIES = ["ir", "proto"]
FALLBACKS = ["default", False, True]


def EXHAUSTIVE(tier):
    # thorough enumerates the whole configuration space (template x s x t x entry x fallback); inputs/weights are sampled
    return tier == "thorough"


def thresholds(tier):
    q = tier != "thorough"
    k = 1 if q else 8
    return {
        "conversions": 100 * k, "returned": 60 * k, "declared_target": 40 * k, "equivalence_compared": 40 * k,
        "checker_run": 30 * k, "path_native": 30 * k, "path_capi": 5 * k,
        "adapter:DFT:19:replaced": 3 * k, "adapter:GridSample:19:replaced": 3 * k, "adapter:GroupNormalization:20:replaced": 2 * k,
        "node_versions_checked": 300 * k,
        "anchor:onnxscript.version_converter:convert_version": 100 * k,
        "anchor:onnxscript.version_converter._version_converter:_VersionConverter.visit_node": 500 * k,
        "distinct_nontrivial": 60 * k,
    }


# ----------------------------------------------------------------------------- case generation
def _all_combos():
    from . import c10_models

    return [(tp, s, t, e, fb) for tp in c10_models.TEMPLATES for s in VERSIONS for t in VERSIONS for e in ENTRIES for fb in FALLBACKS]


def _quick_subset(seed, target=600):
    """Pairwise-covering subset (greedy, seeded) plus fixed strata for every (template, s)."""
    from . import c10_models

    r = common.rng(PID, seed, "quick")
    chosen = set()
    # fixed strata: every (template, s) gets: same version, first adapter-crossing target, max target, one down-conversion
    for ti, tp in enumerate(c10_models.TEMPLATES):
        for s in VERSIONS:
            ts = {s, 25 if s < 25 else 18}
            if s < 20:
                ts.add(20)
            if s < 21:
                ts.add(21)
            if s > 18:
                ts.add(r.choice([v for v in VERSIONS if v < s]))
            if s < 25:
                ts.add(s + 1)
            for k, t in enumerate(sorted(ts)):
                e = ENTRIES[(ti + s + k + seed) % 2]
                fb = FALLBACKS[(ti + 2 * s + k + seed) % 3]
                if t < s and r.random() < 0.7:
                    fb = True       # down-conversion is only attempted with fallback=True
                chosen.add((tp, s, t, e, fb))
    # pairwise completion over the 5 parameters
    params = [c10_models.TEMPLATES, VERSIONS, VERSIONS, ENTRIES, FALLBACKS]
    need = set()
    for i in range(5):
        for j in range(i + 1, 5):
            for a in params[i]:
                for b in params[j]:
                    need.add((i, a, j, b))

    def pairs(c):
        return {(i, c[i], j, c[j]) for i in range(5) for j in range(i + 1, 5)}

    for c in chosen:
        need -= pairs(c)
    while need:
        i, a, j, b = sorted(need, key=repr)[r.randrange(len(need))]
        best, bestn = None, -1
        for _ in range(12):
            c = [r.choice(p) for p in params]
            c[i], c[j] = a, b
            c = tuple(c)
            n = len(pairs(c) & need)
            if n > bestn:
                best, bestn = c, n
        chosen.add(best)
        need -= pairs(best)
    rest = [c for c in _all_combos() if c not in chosen]
    r.shuffle(rest)
    for c in rest:
        if len(chosen) >= target:
            break
        chosen.add(c)
    return chosen


def cases(tier, seed):
    combos = set(_all_combos()) if tier == "thorough" else _quick_subset(seed)
    by = {}
    for tp, s, t, e, fb in combos:
        by.setdefault((tp, s), []).append([t, e, fb])
    out = []
    for (tp, s), convs in sorted(by.items()):
        convs.sort(key=lambda c: (c[0], c[1], str(c[2])))
        out.append({"template": tp, "s": s, "seed": seed, "convs": convs})
    return out


# ----------------------------------------------------------------------------- monitors
LOG: list = []
_INSTALLED = False


def worker_init():
    global _INSTALLED
    if _INSTALLED:
        return
    import logging

    from onnxscript import version_converter as vc
    from onnxscript.version_converter import _c_api_utils, _version_converter as _vc

    from . import probes

    logging.getLogger("onnxscript").setLevel(logging.ERROR)
    logging.getLogger("onnx_ir").setLevel(logging.ERROR)

    # adapters are callables held in a dict: wrap them in the container
    def wrap_adapter(key, fn):
        _, op, ver, _up = key

        def adapter(node, ctx):
            LOG.append(("adapter", op, ver, "invoked"))
            try:
                r = fn(node, ctx)
            except BaseException as e:
                LOG.append(("adapter", op, ver, "raised:" + type(e).__name__))
                raise
            LOG.append(("adapter", op, ver, "replaced" if r is not None else "none"))
            return r

        adapter.__wrapped__ = fn
        return adapter

    for key, fn in list(_vc.registry.op_adapters.items()):
        _vc.registry.op_adapters[key] = wrap_adapter(key, fn)
    probes.wrap_method(_vc._VersionConverter, "visit_node", before=lambda *a, **k: LOG.append(("visit_node",)))
    probes.wrap_method(_vc, "convert_version", before=lambda *a, **k: LOG.append(("path", "native")),
                       on_exc=lambda tok, e, *a, **k: LOG.append(("native_raised", type(e).__name__)))
    probes.wrap_method(_c_api_utils, "call_onnx_api", before=lambda *a, **k: LOG.append(("path", "capi")),
                       on_exc=lambda tok, e, *a, **k: LOG.append(("capi_failed", type(e).__name__)))
    probes.wrap_method(vc._ConvertVersionPassRequiresInline, "call",
                       after=lambda tok, r, *a, **k: LOG.append(("pass_result", bool(r.modified))))
    _INSTALLED = True


# ----------------------------------------------------------------------------- oracle helpers
def _det(p):
    return p.SerializeToString(deterministic=True)


def _strip_defaults(msg):
    """Clear scalar fields that are present but hold their default value (proto2 presence is not meaning), except oneof members."""
    for fd, val in msg.ListFields():
        if fd.type == fd.TYPE_MESSAGE:
            if fd.is_repeated:
                for x in val:
                    _strip_defaults(x)
            else:
                _strip_defaults(val)
        elif not fd.is_repeated and fd.containing_oneof is None and val == fd.default_value:
            msg.ClearField(fd.name)


def _canon(p):
    """Canonical serialisation: default-valued scalar fields dropped, and the unordered collections (initializers,
    value_info) of every graph sorted by name."""
    q = copy.deepcopy(p)
    _strip_defaults(q)
    for g in _walk_graphs(q.graph):
        # a value_info entry that merely restates the type/shape of an initializer of the same graph carries no information
        inits = {t.name: (t.data_type, list(t.dims)) for t in g.initializer}
        keep = []
        for vi in g.value_info:
            tt = vi.type.tensor_type
            dims = [d.dim_value if d.HasField("dim_value") else None for d in tt.shape.dim] if tt.HasField("shape") else None
            if vi.name in inits and inits[vi.name] == (tt.elem_type, dims):
                continue
            keep.append(vi)
        if len(keep) != len(g.value_info):
            keep = [copy.deepcopy(x) for x in keep]
            del g.value_info[:]
            g.value_info.extend(keep)
        for fld in ("initializer", "value_info"):
            items = sorted(getattr(g, fld), key=lambda x: x.name)
            del getattr(g, fld)[:]
            getattr(g, fld).extend(items)
    return _det(q)


def _default_versions(imports):
    return [o.version for o in imports if o.domain in ("", "ai.onnx")]


def _walk_graphs(g):
    import onnx

    yield g
    for n in g.node:
        for a in n.attribute:
            if a.type == onnx.AttributeProto.GRAPH:
                yield from _walk_graphs(a.g)
            elif a.type == onnx.AttributeProto.GRAPHS:
                for sg in a.graphs:
                    yield from _walk_graphs(sg)


def _ops_in(p):
    ops = set()
    for g in _walk_graphs(p.graph):
        for n in g.node:
            ops.add(n.op_type)
    for f in p.functions:
        for n in f.node:
            ops.add(n.op_type)
            for a in n.attribute:
                if a.HasField("g"):
                    for g in _walk_graphs(a.g):
                        ops.update(x.op_type for x in g.node)
    return ops


def _vi_sig(vi):
    tt = vi.type.tensor_type
    dims = None
    if tt.HasField("shape"):
        dims = [d.dim_value if d.HasField("dim_value") else (d.dim_param or "?") for d in tt.shape.dim]
    return (vi.name, tt.elem_type, dims)


def _init_payload(t):
    import onnx

    a = onnx.numpy_helper.to_array(t)
    return (t.data_type, tuple(t.dims), a.tobytes())


def _checker(p):
    import onnx

    try:
        onnx.checker.check_model(p, full_check=True)
    except Exception as e:
        return f"{type(e).__name__}: {e}"[:500]
    return None


def _is_gn_deprecation(msg):
    return msg is not None and "GroupNormalization is deprecated" in msg


ADAPTER_OPS = {"DFT": 20, "GridSample": 20, "GroupNormalization": 21}    # op -> first opset with the new form


def _crossed(ops, s, t):
    """Adapter boundaries an up-conversion s->t has to cross for the ops present."""
    return sorted(op for op, v in ADAPTER_OPS.items() if op in ops and s < v <= t)


def _adapter_summary(log):
    out = {}
    for e in log:
        if e[0] == "adapter" and e[3] != "invoked":
            out.setdefault(e[1], set()).add(e[3].replace("raised:VersionConverterError", "raised"))
    return {k: "+".join(sorted(v)) for k, v in out.items()}


def _culprits(adapters, crossed):
    """Key fragment: the crossed adapter ops that did NOT produce a replacement if there are any, else all crossed ones."""
    prio = ["raised", "none", "not_invoked", "replaced"]

    def worst(x):
        parts = x.split("+")
        return min(parts, key=lambda q: prio.index(q) if q in prio else 0)

    st = {op: worst(adapters.get(op, "not_invoked")) for op in crossed}
    bad = {op: x for op, x in st.items() if x != "replaced"}
    use = bad or st
    return ",".join(f"{k}:{v}" for k, v in sorted(use.items())) or "-"


# ----------------------------------------------------------------------------- one conversion
def _convert(proto0, t, entry, fb):
    """Run convert_version on a fresh copy.  -> dict(result proto or None, exc, before bytes, ir model or None, log)."""
    from onnxscript import ir
    from onnxscript import version_converter as vc

    kwargs = {} if fb == "default" else {"fallback": fb}
    del LOG[:]
    exc = None
    if entry == "ir":
        model = ir.from_proto(copy.deepcopy(proto0))
        before = _det(ir.to_proto(model))
        try:
            vc.convert_version(model, t, **kwargs)
        except Exception as e:  # classified by the caller
            exc = e
        try:
            after = ir.to_proto(model)
        except Exception as e:
            return {"after": None, "ser_error": f"{type(e).__name__}: {e}"[:300], "exc": exc, "before": before, "model": model,
                    "log": list(LOG)}
        return {"after": after, "exc": exc, "before": before, "model": model, "log": list(LOG)}
    p = copy.deepcopy(proto0)
    before = _det(p)
    try:
        vc.convert_version(p, t, **kwargs)
    except Exception as e:
        exc = e
    return {"after": p, "exc": exc, "before": before, "model": None, "log": list(LOG)}


def _node_versions(model, declared, require_set):
    """ir entry: (n checked, nodes whose explicit version != declared, nodes without a version when one is required)."""
    from onnxscript import ir

    bad, unset, n = [], [], 0

    def graph(g, where):
        nonlocal n
        for node in g:
            if node.domain in ("", "ai.onnx"):
                n += 1
                if node.version is None:
                    if require_set:
                        unset.append(f"{where}:{node.op_type}")
                elif node.version != declared:
                    bad.append(f"{where}:{node.op_type}(version={node.version})")
            for a in node.attributes.values():
                if a.is_ref():
                    continue
                if a.type == ir.AttributeType.GRAPH:
                    graph(a.value, where + "/" + node.op_type)
                elif a.type == ir.AttributeType.GRAPHS:
                    for sg in a.value:
                        graph(sg, where + "/" + node.op_type)

    graph(model.graph, "graph")
    for f in model.functions.values():
        graph(f, f"function {f.name}")
    return n, bad, unset


def judge(ctx, t, entry, fb, res):
    """ctx: per-model context (proto0, feeds, ref outputs, ...).  -> (viols, events, info)"""
    from . import compare, runner, wellformed

    s = ctx["s"]
    viol, ev = [], {}

    def hit(k, n=1):
        ev[k] = ev.get(k, 0) + n

    log = res["log"]
    paths = [e[1] for e in log if e[0] == "path"]
    path = "capi" if "capi" in paths else ("native" if "native" in paths else "noop")
    if any(e[0] == "capi_failed" for e in log):
        path = "capi_failed"
    hit("path_" + path)
    for e in log:
        if e[0] == "adapter" and e[3] != "invoked":
            hit(f"adapter:{e[1]}:{e[2]}:{e[3]}")
        elif e[0] == "visit_node":
            hit("visit_node")
    adapters = _adapter_summary(log)
    direction = "same" if t == s else ("up" if t > s else "down")
    crossed = _crossed(ctx["ops"], s, t)
    fbs = str(fb).lower()
    base = f"entry={entry};fb={fbs};dir={direction};path={path}"
    desc = (f"template={ctx['template']} s={s} t={t} entry={entry} fallback={fb} path={path} adapters={adapters or '-'}")

    def v(key, what, **detail):
        if not any(x["key"] == key for x in viol):
            viol.append({"key": key, "what": f"{what} [{desc}]", "detail": dict(detail, t=t, entry=entry, fallback=fb)})

    info = {"path": path, "adapters": adapters, "outcome": None}
    exc = res["exc"]
    after = res.get("after")
    if after is None:
        v(f"entry={entry};kind=unserialisable_after;dir={direction}", f"model cannot be serialised after convert_version: {res.get('ser_error')}")
        info["outcome"] = "unserialisable"
        return viol, ev, info
    after_b = _det(after)
    unchanged = after_b == res["before"]
    if not unchanged:
        import onnx

        b = onnx.ModelProto()
        b.ParseFromString(res["before"])
        if _canon(after) == _canon(b):
            unchanged = True      # only field presence / order of initializers or value_info entries differs
            hit("unchanged_modulo_serialisation")
    declared = _default_versions(after.opset_import)
    dset = set(declared)

    # ---------------- refusal / not converted
    if exc is not None:
        hit("raised")
        hit(f"raised:{type(exc).__name__}")
        info["outcome"] = "raised:" + type(exc).__name__
        if unchanged:
            hit("refused_unchanged")
            return viol, ev, info
        # a refusal must leave the model as it was
        what_changed = _classify_change(ctx, after, s)
        v(f"entry={entry};kind=refused_but_modified;change={what_changed};exc={type(exc).__name__}",
          f"convert_version raised {type(exc).__name__} ({str(exc)[:120]}) but the model is not left as it was: {what_changed}")
        if what_changed == "functions_inlined_only":
            return viol, ev, info
        # fall through: judge what is left
    else:
        hit("returned")
        info["outcome"] = "returned"

    if len(dset) != 1:
        v(f"entry={entry};kind=default_opset_declared_{len(declared)}_times", f"default-domain opset_import entries after conversion: {declared}")
        return viol, ev, info
    d = declared[0]
    repaired = after
    if d != t and exc is None:
        pass_modified = any(e == ("pass_result", True) for e in log)
        if unchanged and not (entry == "proto" and pass_modified):
            hit("not_converted_unchanged")
            info["outcome"] = "not_converted"
            if direction == "up":
                # 18 <= s < t <= 25 is the range the native converter supports: returning silently without converting is not a refusal
                v(f"entry={entry};kind=silently_not_converted;dir=up;path={path}",
                  f"up-conversion inside the supported range returned normally but the model still declares {d}")
            return viol, ev, info
        what_changed = _classify_change(ctx, after, s)
        if entry == "proto" and path in ("native", "capi") and pass_modified:
            # the known mechanism: graph copied back, opset_import left alone
            v("entry=proto;kind=opset_import_not_updated",
              f"ModelProto entry: the conversion pass reports the model converted ({path} path) and the graph is copied back, but "
              f"model.opset_import still declares {d} instead of {t}")
            hit("proto_opset_import_not_updated")
            # keep checking the result *as if* the declaration had been updated, so that defects behind this one stay visible
            repaired = copy.deepcopy(after)
            for o in repaired.opset_import:
                if o.domain in ("", "ai.onnx"):
                    o.version = t
            d = t
            info["outcome"] = "returned_repaired_view"
        elif what_changed == "functions_inlined_only":
            hit("not_converted_inlined_only")
            v(f"entry={entry};kind=not_converted_but_modified;change=functions_inlined_only;path={path}",
              f"conversion was not performed (declared opset stays {d}) yet the model was modified: functions inlined")
            info["outcome"] = "not_converted"
            return viol, ev, info
        else:
            v(f"entry={entry};kind=half_converted;declared_ne_target;path={path};dir={direction}",
              f"returned with declared opset {d} != target {t} and a modified model ({what_changed})")
            info["outcome"] = "half_converted"
    if d == t:
        hit("declared_target")

    # ---------------- consistency of the declaration
    for f in repaired.functions:
        fv = set(_default_versions(f.opset_import))
        if fv and fv != {d}:
            v(f"entry={entry};kind=function_opset_inconsistent", f"function {f.name} declares default opset {sorted(fv)} in a model declaring {d}")
    if res.get("model") is not None and exc is None:
        # the native converter stamps every node it converts (visit_node); nodes of a model that came back from the C API or that
        # was not converted carry no version (= the model's opset), which is consistent
        n, bad, unset = _node_versions(res["model"], d, require_set=(path == "native" and t != s and d == t))
        hit("node_versions_checked", n)
        if bad:
            ops = sorted({b.split(":")[1].split("(")[0] for b in bad})
            v(f"entry=ir;kind=node_version_inconsistent;dir={direction};path={path};ops={'+'.join(ops)[:60]}",
              f"{len(bad)} node(s) carry a version different from the declared opset {d}: {bad[:4]}")
        if unset:
            ops = sorted({b.split(":")[1] for b in unset})
            crossed_ops = [o for o in ops if o in ADAPTER_OPS]
            v(f"entry=ir;kind=node_version_not_set;dir={direction};path={path};ops={'+'.join(crossed_ops) or 'any'}",
              f"{len(unset)} converted node(s) carry no version after a native conversion to {d}: {unset[:4]}")

    # ---------------- validity
    ops_after = _ops_in(repaired)
    if "GroupNormalization" in ops_after and d < 21:
        hit("checker_skipped_gn_deprecated")
    else:
        hit("checker_run")
        msg = _checker(repaired)
        if msg is not None:
            kind = "deprecated_op" if "deprecated" in msg else ("type_or_shape" if "nference" in msg else "invalid")
            v(f"kind=checker_fails;why={kind};dir={direction};path={path};adapters={_culprits(adapters, crossed)}",
              f"onnx.checker rejects the result at opset {d}: {msg[:300]}")
    if not ctx["wf0"]:
        hit("wellformed_run")
        errs = wellformed.check_model(repaired, allow_unknown_ops=False)
        if errs:
            v(f"kind=not_wellformed;dir={direction};path={path};what={_wf_class(errs[0])}", f"structural walk of the result: {errs[0]}")

    # ---------------- signature and initializers
    p0 = ctx["proto0"]
    in0, in1 = [_vi_sig(x) for x in p0.graph.input], [_vi_sig(x) for x in repaired.graph.input]
    out0, out1 = [_vi_sig(x) for x in p0.graph.output], [_vi_sig(x) for x in repaired.graph.output]
    hit("signature_compared")
    if in0 != in1:
        v(f"kind=inputs_changed;path={path};dir={direction}", f"graph inputs changed: {in0} -> {in1}"[:600])
    if [(n, e) for n, e, _ in out0] != [(n, e) for n, e, _ in out1]:
        v(f"kind=outputs_changed;path={path};dir={direction}", f"graph outputs changed: {out0} -> {out1}"[:600])
    i0 = {x.name: _init_payload(x) for x in p0.graph.initializer}
    i1 = {x.name: _init_payload(x) for x in repaired.graph.initializer}
    hit("initializers_compared", len(i0))
    lost = [k for k in i0 if k not in i1]
    diff = [k for k in i0 if k in i1 and i0[k] != i1[k]]
    if lost:
        big = any(len(i0[k][2]) // 4 > 1000 for k in lost)
        v(f"kind=initializers_lost;path={path};dir={direction};big={int(big)}", f"initializers missing after conversion: {lost[:5]}")
    if diff:
        v(f"kind=initializers_changed;path={path};dir={direction}", f"initializer payload changed: {diff[:5]}")
    sub0 = sorted(_init_payload(x) for g in list(_walk_graphs(p0.graph))[1:] for x in g.initializer)
    sub1 = sorted(_init_payload(x) for g in list(_walk_graphs(repaired.graph))[1:] for x in g.initializer)
    if not p0.functions and sub0 != sub1:
        v(f"kind=subgraph_initializers_changed;path={path};dir={direction}", f"{len(sub0)} subgraph initializers before, {len(sub1)} after (payloads differ)")

    # ---------------- equivalence
    rb = _det(repaired)
    sess = None
    worst = None
    where = None
    for k, feeds in enumerate(ctx["feeds"]):
        if sess is None:
            try:
                sess = runner.ort_session(rb)
            except Exception as e:
                msg = f"{type(e).__name__}: {e}"
                st, out = ("not_implemented" if runner.classify(msg) == "not_implemented" else "load"), msg[:500]
                worst = (st, out, k)
                break
        st, out = runner.ort_run(None, feeds, session=sess)
        if st != "ok":
            worst = (st, out, k)
            break
        hit("equivalence_compared")
        dmsg = compare.compare_outputs(out, ctx["ref_out"][k], scale=4.0)
        if dmsg:
            worst = ("differs", dmsg, k)
            where = "count"
            for oi, (a, b) in enumerate(zip(out, ctx["ref_out"][k])):
                if compare.compare_value(a, b, scale=4.0):
                    where = ctx["labels"][oi] if oi < len(ctx["labels"]) else f"out{oi}"
                    break
            break
    if worst is not None:
        st, msg, k = worst
        if st == "not_implemented":
            hit("ort_not_implemented")
            info["inconclusive"] = "not_implemented"
        else:
            # the reference evaluator may dispute: it must run BOTH models and find them equal
            disputed = False
            rst, rout = runner.ref_run(repaired, ctx["feeds"][k])
            if rst == "ok":
                rst0, rout0 = runner.ref_run(ctx["proto0"], ctx["feeds"][k])
                if rst0 == "ok":
                    try:
                        disputed = compare.compare_outputs(rout, rout0, scale=4.0) is None
                    except Exception:
                        disputed = False
            if disputed:
                hit("disputed_by_reference")
                info["inconclusive"] = f"disputed: ORT {st}: {str(msg)[:160]}; onnx.reference reproduces the original outputs; {desc}"
            else:
                kind = {"load": "ort_rejects_result", "run": "ort_fails_on_result", "differs": "output_differs"}[st]
                wh = f";where={where}" if st == "differs" else ""
                v(f"kind={kind};dir={direction};path={path};adapters={_culprits(adapters, crossed)}{wh}",
                  f"original runs on ORT; result {'gives different outputs' if st == 'differs' else 'does not ' + st}: {str(msg)[:300]}",
                  input_index=k)
    return viol, ev, info


def _fmt(adapters):
    return ",".join(f"{k}:{v}" for k, v in sorted(adapters.items())) or "-"


def _wf_class(msg):
    for k in ("defined twice", "redefines", "not defined before use", "not imported", "imported more than once", "is not defined",
              "neither a schema op", "duplicate"):
        if k in msg:
            return k.replace(" ", "_")
    return "other"


def _classify_change(ctx, after, s):
    """Coarse description of how `after` differs from the original (used when no conversion was reported)."""
    p0 = ctx["proto0"]
    if p0.functions and not after.functions:
        # same opset, functions gone: inlined.  Is anything else different?  compare against the default opset and op multiset
        if set(_default_versions(after.opset_import)) == {s}:
            ops0 = ctx["ops_leaf"]
            ops1 = sorted(n.op_type for g in _walk_graphs(after.graph) for n in g.node)
            if ops0 == ops1:
                return "functions_inlined_only"
    if _det(after.graph) != _det(p0.graph):
        return "graph_rewritten"
    return "model_fields"


def _leaf_ops(p):
    """Multiset of op types with model-local function calls expanded (what the inlined model contains)."""
    fns = {(f.domain, f.name): f for f in p.functions}

    def expand(nodes):
        out = []
        for n in nodes:
            f = fns.get((n.domain, n.op_type))
            if f is not None:
                out.extend(expand(f.node))
            else:
                out.append(n.op_type)
                for a in n.attribute:
                    if a.HasField("g"):
                        out.extend(expand(a.g.node))
                    for sg in a.graphs:
                        out.extend(expand(sg.node))
        return out

    return sorted(expand(p.graph.node))


# ----------------------------------------------------------------------------- run_case
def run_case(spec):
    from . import c10_models, runner, wellformed

    worker_init()
    tp, s = spec["template"], spec["s"]
    proto0, feeds, meta = c10_models.build(tp, s, common.rng(PID, spec["seed"], tp, s))
    events = {"models": 1}
    chk0 = _checker(proto0)
    if chk0 is not None and not _is_gn_deprecation(chk0):
        return {"status": "discarded_invalid", "events": {"discarded_invalid": 1}, "data": {"msg": chk0}}
    wf0 = wellformed.check_model(proto0, allow_unknown_ops=False)
    ref_out = []
    b0 = _det(proto0)
    try:
        sess0 = runner.ort_session(b0)
    except Exception as e:
        return {"status": "discarded_unrunnable", "events": {"discarded_unrunnable": 1}, "data": {"msg": str(e)[:300]}}
    for f in feeds:
        st, out = runner.ort_run(None, f, session=sess0)
        if st != "ok":
            return {"status": "discarded_unrunnable", "events": {"discarded_unrunnable": 1}, "data": {"msg": str(out)[:300]}}
        ref_out.append(out)
    ctx = {"template": tp, "s": s, "proto0": proto0, "feeds": feeds, "ref_out": ref_out, "checker0": chk0, "wf0": wf0,
           "ops": _ops_in(proto0), "ops_leaf": _leaf_ops(proto0), "labels": meta["labels"]}
    viol, sigs, outcomes, notes = [], [], {}, []
    seen = set()
    for t, entry, fb in spec["convs"]:
        res = _convert(proto0, t, entry, fb)
        events["conversions"] = events.get("conversions", 0) + 1
        if _det(proto0) != b0:
            return {"status": "harness_error", "error": "the original proto was mutated by a conversion of its copy"}
        vs, ev, info = judge(ctx, t, entry, fb, res)
        for k, n in ev.items():
            events[k] = events.get(k, 0) + n
        for x in vs:
            if x["key"] not in seen:
                seen.add(x["key"])
                viol.append(x)
        oc = f"{info['outcome']}|{info['path']}"
        outcomes[oc] = outcomes.get(oc, 0) + 1
        if info.get("inconclusive"):
            events["inconclusive_conversions"] = events.get("inconclusive_conversions", 0) + 1
            notes.append(info["inconclusive"])
        if t != s and info["outcome"] and info["outcome"].startswith("returned"):
            sigs.append(f"{tp}:{s}:{t}:{entry}:{fb}")
    sample = {"template": tp, "s": s, "ops": sorted(ctx["ops"]), "conversions": len(spec["convs"]), "outcomes": outcomes}
    return {"status": "ok", "viol": viol, "events": events, "sig": None, "nontrivial": True, "sample": sample,
            "data": {"sigs": sigs, "outcomes": outcomes, "notes": notes[:6]}}


def finalize(ctx):
    tot = {}
    for r in ctx.results:
        dd = r.get("data") or {}
        for sgn in dd.get("sigs") or []:
            ctx.sigs.add(sgn)
        for k, n in (dd.get("outcomes") or {}).items():
            tot[k] = tot.get(k, 0) + n
    ctx.extra["outcome_by_path"] = dict(sorted(tot.items()))
    notes = [n for r in ctx.results for n in ((r.get("data") or {}).get("notes") or [])]
    ctx.extra["inconclusive_conversion_notes"] = notes[:12]
    nd = ctx.status.get("discarded_invalid", 0) + ctx.status.get("discarded_unrunnable", 0)
    if nd > len(ctx.specs) // 4:
        ctx.inconclusive.append(f"{nd} of {len(ctx.specs)} models were discarded by the precondition filter")
