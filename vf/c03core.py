"""One optimizer execution serves C03 (semantics) and C04 (totality / validity / interface).

opt_case(spec) generates (or loads) a model, filters it through the precondition, runs the
APIs under the chosen option tuples with mechanism probes on, and returns the observations
both properties read."""
from __future__ import annotations

import glob
import os

import numpy as np
import onnx
from onnx import helper as oh
from onnx import numpy_helper as nph

from . import findings, common, compare, modelgen, optcommon, runner

NODE_DIR = os.path.join(os.path.dirname(onnx.__file__), "backend", "test", "data")


def gen_specs(pid, tier, seed, n_gen, n_corpus, nopt, symbolic=False):
    specs = []
    for i in range(n_gen):
        r = common.rng(pid, "spec", seed, i)
        specs.append({"kind": "gen", "i": i, "seed": seed, "opset": r.choice([13, 15, 17, 18, 18, 20, 21, 22]),
                      "n_nodes": r.choice([3, 6, 10, 16, 25, 40]), "nopt": nopt})
    # legacy-opset stratum (appended, so the specs above do not change): old exporters' models, where operators still have
    # their pre-13 signatures (axes/split/ratio as attributes, Dropout masks of the data type, no ConstantOfShape before 9)
    for j in range(n_gen // 10):
        i = n_gen + j
        r = common.rng(pid, "spec-legacy", seed, j)
        specs.append({"kind": "gen", "i": i, "seed": seed, "opset": [7, 8, 9, 10, 11, 12][j % 6],
                      "n_nodes": r.choice([3, 6, 10, 16]), "nopt": nopt, "legacy": True})
    if n_corpus:
        dirs = corpus_dirs()
        r = common.rng(pid, "corpus", seed)
        # stratified: every k-th directory starting at a seed-dependent offset, so a sweep of seeds covers all
        step = max(1, len(dirs) // n_corpus)
        off = r.randrange(step)
        for d in dirs[off::step][:n_corpus]:
            specs.append({"kind": "corpus", "dir": os.path.relpath(d, NODE_DIR), "seed": seed,
                          "lift": r.choice(["asis", "const", "const", "if", "fn", "fnconst"]), "nopt": 2})
    return specs


_corpus = None


def corpus_dirs():
    global _corpus
    if _corpus is None:
        out = []
        for sub in ("node", "simple", "pytorch-converted", "pytorch-operator", "light"):
            for d in sorted(glob.glob(os.path.join(NODE_DIR, sub, "*"))):
                if os.path.exists(os.path.join(d, "model.onnx")) and os.path.isdir(os.path.join(d, "test_data_set_0")):
                    out.append(d)
        _corpus = out
    return _corpus


def load_corpus(d):
    m = onnx.load(os.path.join(NODE_DIR, d, "model.onnx"))
    ds = os.path.join(NODE_DIR, d, "test_data_set_0")
    ins, outs = [], []
    for kind, lst in (("input", ins), ("output", outs)):
        k = 0
        while os.path.exists(os.path.join(ds, f"{kind}_{k}.pb")):
            with open(os.path.join(ds, f"{kind}_{k}.pb"), "rb") as f:
                data = f.read()
            t = onnx.TensorProto()
            try:
                t.ParseFromString(data)
                lst.append(nph.to_array(t))
            except Exception:
                lst.append(None)
            k += 1
    return m, ins, outs


def lift(m, ins, how):
    """Lifters over a corpus model. Returns (model, feeds) or None."""
    init_names = {t.name for t in m.graph.initializer}
    real_inputs = [i for i in m.graph.input if i.name not in init_names]
    if len(real_inputs) != len(ins) or any(x is None for x in ins):
        return None
    feeds = {i.name: a for i, a in zip(real_inputs, ins)}
    if how == "asis":
        return m, feeds
    if how in ("fn", "fnconst"):
        f = _lift_fn(m, real_inputs, init_names)
        if f is None:
            return None
        if how == "fn":
            return f, feeds
        return lift(f, ins, "const")
    if any(i.type.WhichOneof("value") != "tensor_type" for i in real_inputs):
        return None
    if m.ir_version < 4:
        return None
    m2 = onnx.ModelProto()
    m2.CopyFrom(m)
    if how == "const":
        # every input becomes an initializer (no longer a graph input): the optimizer may now fold
        del m2.graph.input[:]
        for i in m.graph.input:
            if i.name in init_names:
                m2.graph.input.append(i)
        for i, a in zip(real_inputs, ins):
            try:
                t = nph.from_array(np.asarray(a), i.name)
            except Exception:
                return None
            if t.data_type != i.type.tensor_type.elem_type:
                return None
            m2.graph.initializer.append(t)
        return m2, {}
    if how == "if":
        # wrap the whole graph body in If(true){...} else {...same...}
        body = onnx.GraphProto()
        body.name = "then"
        body.node.extend(m.graph.node)
        body.initializer.extend(m.graph.initializer)
        if any(i.name in init_names for i in m.graph.input):
            return None
        inner_outs = []
        for o in m.graph.output:
            if o.type.WhichOneof("value") != "tensor_type":
                return None
            inner_outs.append(o)
        body.output.extend(inner_outs)
        body2 = onnx.GraphProto()
        body2.CopyFrom(body)
        body2.name = "else"
        # names inside the two branches must not clash: suffix everything defined in the else branch
        ren = {}
        for n in body2.node:
            for k, o in enumerate(n.output):
                if o:
                    ren[o] = o + "__e"
        for t in body2.initializer:
            ren[t.name] = t.name + "__e"
            t.name = ren[t.name]

        def rn(g):
            for n in g.node:
                for k, x in enumerate(n.input):
                    if x in ren:
                        n.input[k] = ren[x]
                for k, x in enumerate(n.output):
                    if x in ren:
                        n.output[k] = ren[x]
                for a in n.attribute:
                    if a.HasField("g"):
                        rn(a.g)
                    for gg in a.graphs:
                        rn(gg)
            for o in g.output:
                if o.name in ren:
                    o.name = ren[o.name]

        if any(a.HasField("g") or a.graphs for n in body2.node for a in n.attribute):
            return None   # keep the lifter simple: no nested subgraphs
        rn(body2)
        cond = nph.from_array(np.array(True), "__cond")
        outs = [o.name + "__o" for o in m.graph.output]
        ifn = oh.make_node("If", ["__cond"], outs, then_branch=body, else_branch=body2)
        del m2.graph.node[:]
        del m2.graph.initializer[:]
        m2.graph.initializer.append(cond)
        m2.graph.node.append(ifn)
        for o, nm in zip(m2.graph.output, outs):
            o.name = nm
        return m2, feeds
    return None


def _lift_fn(m, real_inputs, init_names):
    """The whole body becomes a model-local function vf.corpus::Body called once from the main graph (initializers
    become Constant nodes of the function): exercises the inliner and everything downstream on real operator semantics."""
    if m.ir_version < 4 or any(i.name in init_names for i in m.graph.input):
        return None
    if any(t.data_location == onnx.TensorProto.EXTERNAL for t in m.graph.initializer) or m.graph.sparse_initializer:
        return None
    if any(n.domain == "vf.corpus" for n in m.graph.node):
        return None
    fn = onnx.FunctionProto()
    fn.domain, fn.name = "vf.corpus", "Body"
    fn.input.extend(i.name for i in real_inputs)
    fn.output.extend(o.name + "__f" for o in m.graph.output)
    for t in m.graph.initializer:
        fn.node.append(oh.make_node("Constant", [], [t.name], value=t))
    fn.node.extend(m.graph.node)
    # function outputs get fresh names (a graph output that is also a function-internal name would clash in the main graph)
    for o in m.graph.output:
        fn.node.append(oh.make_node("Identity", [o.name], [o.name + "__f"]))
    fn.opset_import.extend(m.opset_import)
    if not any(o.domain == "" for o in fn.opset_import):
        return None
    m2 = onnx.ModelProto()
    m2.CopyFrom(m)
    m2.ir_version = max(m.ir_version, 8)
    del m2.graph.node[:]
    del m2.graph.initializer[:]
    del m2.graph.value_info[:]
    m2.graph.node.append(oh.make_node("Body", [i.name for i in real_inputs], [o.name for o in m.graph.output], domain="vf.corpus"))
    m2.functions.append(fn)
    m2.opset_import.append(oh.make_opsetid("vf.corpus", 1))
    return m2


def _feeds_for(rng, info, n=3):
    styles = ["edge", "mixed", "small", "mixed"]
    return [modelgen.make_feeds(rng, info, style=styles[k % len(styles)]) for k in range(n)]


def _override_feeds(rng, info, feeds):
    out = []
    for k in range(2):
        f = dict(feeds)
        for ii in info["init_inputs"]:
            f[ii["name"]] = modelgen.example_input(rng, np.dtype(ii["dtype"]), ii["shape"], "mixed")
        out.append(f)
    return out


def opt_case(spec, pid):
    optcommon.install_probes()
    rng = common.rng(pid, "case", spec["seed"], spec.get("i", spec.get("dir")))
    events = {}
    res = {"status": "ok", "c03": [], "c04": [], "events": events, "fired": [], "sample": None, "nontrivial": False, "sig": None}

    def hit(k, n=1):
        events[k] = events.get(k, 0) + n

    expected = None
    if spec["kind"] == "gen":
        try:
            table = None
            if spec.get("legacy"):
                table = modelgen.BASIC_OPS + modelgen.MOTIFS + modelgen.CONTROL + modelgen.LEGACY_EXTRA
            m, info = modelgen.generate(rng, opset=spec["opset"], n_nodes=spec["n_nodes"], symbolic=False, table=table)
        except modelgen.Bail:
            res["status"] = "discarded_gen"
            return res
        feeds_list = _feeds_for(rng, info)
        over = _override_feeds(rng, info, feeds_list[0]) if info["init_inputs"] else []
        nondet = set(info.get("nondet_outputs") or [])
        label = {"gen": spec["i"], "opset": spec["opset"], "nodes": info["n_nodes"],
                 "ops": sorted({n.op_type for n in m.graph.node})[:12]}
        for k, v in info["events"].items():
            if k.startswith("motif:"):
                hit("gen_" + k)
    else:
        try:
            m0, ins, outs = load_corpus(spec["dir"])
        except Exception:
            res["status"] = "discarded_corpus_load"
            return res
        lf = lift(m0, ins, spec["lift"])
        if lf is None:
            res["status"] = "discarded_lift"
            return res
        m, feeds = lf
        feeds_list = [feeds]
        over = []
        nondet = set()
        expected = outs if all(o is not None for o in outs) else None
        label = {"corpus": spec["dir"], "lift": spec["lift"]}
        info = {"events": {}}
        hit("corpus_" + spec["lift"])
    # ---- precondition filter
    err = runner.checker(m, full=(spec["kind"] == "gen"))
    if err:
        res["status"] = "discarded_invalid"
        res["discard_reason"] = err[:200]
        return res
    base = []
    for f in feeds_list + over:
        st, o = runner.ort_run(m, f)
        if st != "ok":
            res["status"] = "discarded_unrunnable"
            res["discard_reason"] = str(o)[:200]
            return res
        base.append(o)
    base_main, base_over = base[: len(feeds_list)], base[len(feeds_list):]
    if expected is not None:
        # recorded expectation must side with the unoptimized model, else the corpus case arbitrates nothing
        if compare.compare_outputs(base_main[0], expected, scale=8.0, check_dtype=False) is not None:
            expected = None
            hit("corpus_expectation_disagrees_with_ort")
    res["sample"] = label
    opts = optcommon.option_tuples(rng, spec["nopt"])
    if len(m.functions) and (spec["kind"] == "corpus" or info["events"].get("motif:function_rule_body")):
        # model-local functions only survive rewrite() and optimize(inline=False): a model whose function bodies match a rule
        # always gets both (otherwise the rules never see a function body)
        for extra in (dict(api="rewrite", entry=rng.choice(["proto", "ir"])), dict(api="optimize", entry="proto", inline=False)):
            if extra not in opts:
                opts.append(extra)
        hit("functions_kept_option_tuples")
    known = optcommon.known_mechs(pid)
    _c04_entries = findings.load("C04")

    def listed(key):
        return findings.match(_c04_entries, key) is not None
    all_fired = set()
    for o in opts:
        hit("api:" + o["api"] + ":" + o.get("entry", "proto"))
        okey = f"api={o['api']}"
        try:
            m2 = optcommon.apply_api(m, o)
        except Exception as e:  # totality (C04)
            et, where, msg = optcommon.exc_key(e)
            fired = list(dict.fromkeys(optcommon.FIRED))
            res["c04"].append({"key": f"kind=raises;exc={et};where={where}", "what": f"{o['api']} raised {et} at {where}: {msg}",
                               "detail": {"opts": o, "case": label}})
            hit("raised")
            continue
        fired = list(optcommon.FIRED)
        all_fired.update(fired)
        hit("optimized")
        # ---- C04: validity + interface
        serr = optcommon.structural(m2)
        if serr is None:
            serr = optcommon.dangling(m2)
        if serr:
            def inv_kind(msg):
                if msg is None:
                    return None
                if "in initializer but not in graph input" in msg:
                    # IR version < 4 wants every initializer listed as a graph input; every mechanism that adds one (lifted
                    # constants, rule-made shape tensors, folded values) trips over it: one finding, whatever the mechanism
                    return "ir3_initializer_not_input"
                return "output_type_lost" if ("Field 'type' of 'value_info' is required but missing" in msg or
                                              "Field 'shape' of 'type' is required but missing" in msg) else "invalid"

            kind = inv_kind(serr)

            def same_symptom_gone(x, kind=kind):
                # the re-optimized model may be invalid for ANOTHER listed reason (e.g. Split[num_outputs] in opset 13 next to a
                # lost output type): a mechanism is necessary for THIS symptom if this symptom disappears without it
                return inv_kind(optcommon.structural(x) or optcommon.dangling(x)) != kind

            if kind == "ir3_initializer_not_input":
                culprit = "any"
            else:
                culprit = optcommon.attribute(m, o, same_symptom_gone, fired, known,
                                              prefer=lambda name, kind=kind: listed(f"mech={name};kind={kind}"))
            res["c04"].append({"key": f"mech={culprit or '?'};kind={kind}", "what": f"{o['api']}({_optstr(o)}) result invalid: {serr[:300]}",
                               "detail": {"opts": o, "case": label, "fired": list(dict.fromkeys(fired))[:20]}})
        sd = optcommon.sig_diff(m, m2)
        if sd:
            kind = "output_type_lost" if (sd.endswith("-> (None, None)") or (sd.startswith("declared shape of") and " lost: " in sd)) else "signature"
            culprit = optcommon.attribute(m, o, lambda x: optcommon.sig_diff(m, x) is None, fired, known,
                                          prefer=lambda name, kind=kind: listed(f"mech={name};kind={kind}"))
            res["c04"].append({"key": f"mech={culprit or '?'};kind={kind}", "what": f"{o['api']}({_optstr(o)}): {sd}",
                               "detail": {"opts": o, "case": label, "fired": list(dict.fromkeys(fired))[:20]}})
        # ---- C03: semantics
        v, d = optcommon.equivalent(m, m2, feeds_list, base_main, nondet=nondet)
        if v.startswith("inconclusive"):
            hit(v.replace(":", "_"))
        elif v != "ok":
            if expected is not None:
                st2, o2 = runner.ort_run(m2, feeds_list[0])
                if st2 == "ok" and compare.compare_outputs(o2, expected, scale=8.0, check_dtype=False) is None:
                    hit("corpus_both_within_expectation")
                    v = "ok"
            if v != "ok":
                if v == "load" and _TAPE_SSA.search(str(d)):
                    # every TapeBuilder numbers its values val_0, val_1, ...; when nodes are created both inside a body and in an
                    # enclosing graph the names collide and onnx_ir's NameFixPass leaves them (inner scope first): one finding,
                    # whichever evaluator / rule created the nodes
                    culprit, kkey = "any", "mech=any;kind=ssa_tape_name"
                else:
                    culprit = optcommon.attribute(m, o, lambda x: _okish(optcommon.equivalent(m, x, feeds_list, base_main, nondet=nondet)[0]), fired, known,
                                                  first=("fold:" if v == "dtype" else None))
                    kkey = _key(culprit, v)
                res["c03"].append({"key": kkey, "what": f"{o['api']}({_optstr(o)}) changes the result [{v}]: {d}",
                                   "detail": {"opts": o, "case": label, "fired": list(dict.fromkeys(fired))[:20], "kind": v}})
                hit("mismatch")
        # ---- C04: overridable initializer-inputs
        if over and not serr:
            v2, d2 = optcommon.equivalent(m, m2, over, base_over, nondet=nondet)
            hit("override_runs")
            if v2 not in ("ok",) and not v2.startswith("inconclusive") and v == "ok":
                culprit = optcommon.attribute(m, o, lambda x: _okish(optcommon.equivalent(m, x, over, base_over, nondet=nondet)[0]), fired, known)
                res["c04"].append({"key": f"mech={culprit or '?'};kind=override", "what": f"{o['api']}: result differs when an initializer-input is overridden: {d2}",
                                   "detail": {"opts": o, "case": label, "fired": list(dict.fromkeys(fired))[:20]}})
    res["fired"] = sorted(all_fired)
    res["nontrivial"] = bool(all_fired)
    res["sig"] = "|".join(sorted(all_fired))
    return res


import re as _re

_TAPE_SSA = _re.compile(r"'val_\d+' has been used as output names multiple times")


def _okish(v):
    return v == "ok" or v.startswith("inconclusive")


def _key(culprit, kind):
    if culprit is None:
        return f"mech=?;kind={kind}"
    if culprit.startswith("fold:"):
        return f"mech={culprit};kind={kind}"
    return f"mech={culprit}"


def _optstr(o):
    return ",".join(f"{k}={v}" for k, v in o.items() if k != "api")


def _errclass(s):
    s = s.lower()
    for k, pat in (("ssa", "ssa"), ("topo", "topolog"), ("undefined", "not defined"), ("notdefined", "is not output of any previous"),
                   ("outer", "outer"), ("twice", "twice"), ("import", "import"), ("type", "type"), ("shape", "shape"),
                   ("function", "function")):
        if pat in s:
            return k
    return "other"


def merge_fired(ctx):
    mech = set()
    for r in ctx.results:
        mech.update(r.get("data", {}).get("fired", []) if r.get("data") else [])
    ctx.events["distinct_mechanisms"] = len(mech)
    ctx.extra["mechanisms_fired"] = sorted(mech)
