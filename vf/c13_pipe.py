"""C13 pipeline: proto --export2python(opts)--> text --ast.parse--> import --> function --> to_model_proto --> compare.

Everything that calls into /repo is wrapped; the result of one (proto, options) run is a dict
  {"stage": <last stage reached>, "ok": bool, "fail": None | {"stage","kind","exc","where","msg"}, ...}
Stages, in order: export, parse, exec, find, proto, signature, load, run, value.
"""
from __future__ import annotations

import ast
import importlib.util
import inspect
import itertools
import linecache
import os
import re
import sys
import traceback

import numpy as np
import onnx
from onnx import TensorProto, helper, numpy_helper

from . import common, compare, runner

OPTION_NAMES = ["rename", "use_operators", "inline_const", "skip_initializers"]
ALL_OPTIONS = [dict(zip(OPTION_NAMES, bits)) for bits in itertools.product([False, True], repeat=4)]
STAGES = ["export", "parse", "exec", "find", "proto", "signature", "load", "run", "value"]
_SMALL = 4  # onnx_export._SMALL_TENSOR_SIZE (documented behaviour of skip_initializers: 'larger' initializers are skipped)

_state = {"dir": None, "n": 0}


def opt_tag(o):
    return "".join("1" if o[k] else "0" for k in OPTION_NAMES)


def _norm_msg(msg: str) -> str:
    """Message template: quoted names and numbers removed, so one mechanism gives one text."""
    m = msg.strip().split("\n")[0][:160]
    m = re.sub(r"'[^']*'", "'_'", m)
    m = re.sub(r'"[^"]*"', '"_"', m)
    m = re.sub(r"\b\d+\b", "N", m)
    m = re.sub(r"\b(v|tmp|const|cond|acc|r|x|y|z|t)_?N\b", "_", m)
    return m


def _where(tb, prefer):
    """Innermost traceback frame inside one of the preferred repo files -> 'file:function'."""
    frames = traceback.extract_tb(tb)
    for pref in prefer:
        for fr in reversed(frames):
            if fr.filename.replace("\\", "/").endswith(pref):
                return f"{os.path.basename(fr.filename)[:-3]}.{fr.name}"
    for fr in reversed(frames):
        f = fr.filename.replace("\\", "/")
        if "/onnxscript/" in f:
            return f"{os.path.basename(f)[:-3]}.{fr.name}"
    return "outside_repo"


def _fail(stage, kind, e=None, prefer=(), msg=None, **extra):
    d = {"stage": stage, "kind": kind, "exc": type(e).__name__ if e is not None else None,
         "where": _where(e.__traceback__, prefer) if e is not None else None,
         "msg": _norm_msg(str(e) if e is not None else (msg or "")), "raw": (str(e) if e is not None else (msg or ""))[:400]}
    d.update(extra)
    return d


def import_text(text):
    """-> (module, cleanup).  The file stays on disk until cleanup() (make_model(...) decorates lazily and @script needs
    inspect.getsource)."""
    if _state["dir"] is None:
        _state["dir"] = common.scratch_dir("vf-c13-")
    _state["n"] += 1
    name = f"vf_c13_m{os.getpid()}_{_state['n']}"
    path = os.path.join(_state["dir"], name + ".py")
    with open(path, "w", encoding="utf-8") as f:
        f.write(text)

    def cleanup():
        sys.modules.pop(name, None)
        linecache.cache.pop(path, None)
        try:
            os.unlink(path)
        except OSError:
            pass

    spec = importlib.util.spec_from_file_location(name, path)
    mod = importlib.util.module_from_spec(spec)
    sys.modules[name] = mod
    try:
        spec.loader.exec_module(mod)
    except BaseException:
        cleanup()
        raise
    return mod, cleanup


RUN_LIMIT_S = 20.0   # the originals run in milliseconds (bounded loops); a round-tripped Loop that never ends must not hang the worker


class NonTermination(Exception):
    pass


def guarded_run(sess, feeds, limit=None):
    """sess.run in a thread; after `limit` seconds RunOptions.terminate stops ORT at the next node (Loop bodies included)."""
    import threading

    ro = runner.ort().RunOptions()
    box = {}

    def work():
        try:
            box["out"] = sess.run(None, feeds, ro)
        except BaseException as e:  # noqa: BLE001
            box["exc"] = e

    t = threading.Thread(target=work, daemon=True)
    t.start()
    t.join(limit or RUN_LIMIT_S)
    if t.is_alive():
        ro.terminate = True
        t.join(30.0)
        raise NonTermination()
    if "exc" in box:
        raise box["exc"]
    return box["out"]


def skipped_initializers(model):
    """Initializers the exporter documents as skipped (more than 4 elements), in the exporter's traversal order."""
    out = []

    def graph(g):
        for init in g.initializer:
            n = 1
            for d in init.dims:
                n *= d
            if n > _SMALL:
                out.append(init)
        for node in g.node:
            if node.op_type == "If":
                atts = list(node.attribute)
                if len(atts) == 2:
                    then = atts[1].g if atts[0].name == "else_branch" else atts[0].g
                    els = atts[0].g if atts[0].name == "else_branch" else atts[1].g
                    graph(then)
                    graph(els)
            elif node.op_type == "Loop":
                graph(node.attribute[0].g)

    graph(model.graph)
    return out


def io_sig(model):
    def one(vi):
        t = vi.type
        if not t.HasField("tensor_type"):
            return (vi.name, "non-tensor", None)
        tt = t.tensor_type
        shape = None
        if tt.HasField("shape"):
            shape = tuple(d.dim_value if d.HasField("dim_value") else (d.dim_param or None) for d in tt.shape.dim)
        return (vi.name, int(tt.elem_type), shape)

    init = {i.name for i in model.graph.initializer}
    return [one(v) for v in model.graph.input if v.name not in init], [one(v) for v in model.graph.output]


def wrap_function(fproto, like_model, name="wrapped", attrs=None):
    """A model with one node calling fproto, typed like `like_model` (positional)."""
    ins, outs = like_model.graph.input, like_model.graph.output
    in_names = [f"in{i}" for i in range(len(fproto.input))]
    out_names = [f"out{i}" for i in range(len(fproto.output))]
    node = helper.make_node(fproto.name, in_names, out_names, domain=fproto.domain, **(attrs or {}))
    gi = []
    for n, v in zip(in_names, ins):
        vi = onnx.ValueInfoProto()
        vi.CopyFrom(v)
        vi.name = n
        gi.append(vi)
    go = []
    for n, v in zip(out_names, outs):
        vi = onnx.ValueInfoProto()
        vi.CopyFrom(v)
        vi.name = n
        go.append(vi)
    g = helper.make_graph([node], name, gi, go)
    opsets = {o.domain: o.version for o in fproto.opset_import}
    opsets.setdefault(fproto.domain, 1)
    m = helper.make_model(g, opset_imports=[helper.make_opsetid(d, v) for d, v in opsets.items()],
                          functions=[fproto], ir_version=like_model.ir_version or 8)
    return m


def run_pipeline(proto, opts, feeds_list, expected, *, like_model=None, function_name=None, call_attrs=None):
    cleanups = []
    try:
        return _run_pipeline(proto, opts, feeds_list, expected, like_model, function_name, call_attrs, cleanups)
    finally:
        for c in cleanups:
            c()


def _run_pipeline(proto, opts, feeds_list, expected, like_model, function_name, call_attrs, cleanups):
    """proto: ModelProto | FunctionProto (then like_model gives the I/O types).
    feeds_list: list of positional input lists; expected: list of output lists from ORT on the original.
    -> result dict (see module docstring)."""
    from onnxscript.backend import onnx_export

    import onnxscript

    res = {"stage": None, "ok": False, "fail": None, "text": None}
    is_fn = isinstance(proto, onnx.FunctionProto)
    # ---- export
    try:
        text = onnx_export.export2python(proto, function_name, **opts)
    except Exception as e:
        res["stage"] = "export"
        res["fail"] = _fail("export", "raises", e, prefer=("backend/onnx_export.py",))
        return res
    res["text"] = text
    if not isinstance(text, str):
        res["stage"] = "export"
        res["fail"] = _fail("export", "not_text", msg=f"returned {type(text).__name__}")
        return res
    # ---- parse
    try:
        ast.parse(text)
    except SyntaxError as e:
        res["stage"] = "parse"
        res["fail"] = _fail("parse", "invalid_python", msg=f"{type(e).__name__}: {e.msg}")
        res["fail"]["exc"] = type(e).__name__
        return res
    # ---- exec
    try:
        mod, cleanup = import_text(text)
        cleanups.append(cleanup)
    except Exception as e:
        res["stage"] = "exec"
        res["fail"] = _fail("exec", "raises", e, prefer=("_internal/converter.py", "_internal/irbuilder.py", "_internal/values.py",
                                                         "_internal/main.py", "onnx_types.py"))
        return res
    # ---- find
    model2 = None
    fn = None
    try:
        if not is_fn and opts["skip_initializers"] and hasattr(mod, "make_model"):
            skipped = skipped_initializers(proto)
            params = list(inspect.signature(mod.make_model).parameters)
            if len(params) != len(skipped):
                res["stage"] = "find"
                res["fail"] = _fail("find", "make_model_params", msg=f"make_model takes {len(params)} parameters, model has "
                                    f"{len(skipped)} initializers with more than 4 elements")
                return res
            res["stage"] = "proto"
            try:
                model2 = mod.make_model(*[numpy_helper.to_array(t) for t in skipped])
            except Exception as e:
                res["fail"] = _fail("proto", "raises", e, prefer=("_internal/converter.py", "_internal/irbuilder.py",
                                                                  "_internal/values.py", "_internal/main.py"), via="make_model")
                return res
        else:
            want = function_name or (proto.name if is_fn else onnx_export._cleanup_variable_name(proto.graph.name))
            cands = {k: v for k, v in vars(mod).items() if isinstance(v, onnxscript.OnnxFunction)}
            fn = cands.get(want)
            if fn is None:
                byname = [v for v in cands.values() if v.name == want]
                fn = byname[0] if byname else None
            if fn is None:
                res["stage"] = "find"
                res["fail"] = _fail("find", "function_missing", msg=f"no script function named as expected among {len(cands)} defined")
                return res
    except Exception as e:  # pragma: no cover - harness-side lookup
        res["stage"] = "find"
        res["fail"] = _fail("find", "raises", e)
        return res
    # ---- proto
    if model2 is None:
        res["stage"] = "proto"
        try:
            if is_fn:
                f2 = fn.to_function_proto()
                model2 = wrap_function(f2, like_model, attrs=call_attrs)
            else:
                model2 = fn.to_model_proto()
        except Exception as e:
            res["fail"] = _fail("proto", "raises", e, prefer=("_internal/converter.py", "_internal/irbuilder.py", "_internal/values.py"))
            return res
    if not isinstance(model2, onnx.ModelProto):
        res["fail"] = _fail("proto", "not_a_model", msg=type(model2).__name__)
        return res
    res["model2"] = model2
    # ---- signature
    res["stage"] = "signature"
    ref_model = wrap_function(proto, like_model, attrs=call_attrs) if is_fn else proto
    (i1, o1), (i2, o2) = io_sig(ref_model), io_sig(model2)
    if len(i1) != len(i2) or len(o1) != len(o2):
        res["fail"] = _fail("signature", "arity", msg=f"inputs {len(i1)}->{len(i2)}, outputs {len(o1)}->{len(o2)}")
        return res
    for what, a, b in (("input", i1, i2), ("output", o1, o2)):
        for k, (x, y) in enumerate(zip(a, b)):
            if x[1] != y[1]:
                res["fail"] = _fail("signature", f"{what}_dtype", msg=f"{what}[{k}] elem type {x[1]} -> {y[1]}")
                return res
            if x[2] != y[2]:
                res["fail"] = _fail("signature", f"{what}_shape", msg=f"{what}[{k}] shape {x[2]} -> {y[2]}")
                return res
    if not is_fn and not opts["rename"]:
        # names can only be demanded where Python can spell them and the option does not rename by design
        for what, a, b in (("input", i1, i2), ("output", o1, o2)):
            for k, (x, y) in enumerate(zip(a, b)):
                if x[0].isidentifier() and onnx_export._cleanup_variable_name(x[0]) == x[0] and x[0] != y[0]:
                    res["names_differ"] = f"{what}[{k}] {x[0]!r} -> {y[0]!r}"
    # ---- load / run / value
    res["stage"] = "load"
    try:
        sess = runner.ort_session(model2)
    except Exception as e:
        msg = f"{type(e).__name__}: {e}"
        have = {(f.domain, f.name) for f in model2.functions}
        lost = [(f.domain, f.name) for f in ref_model.functions if (f.domain, f.name) not in have]
        if lost and "is not a registered function/op" in msg and any(f"{d}:{n}" in msg for d, n in lost):
            res["fail"] = _fail("load", "function_definition_lost", msg=msg)
        elif runner.classify(msg) == "not_implemented":
            res["fail"] = _fail("load", "not_implemented", msg=msg)
        else:
            res["fail"] = _fail("load", "ort_rejects", msg=msg)
        return res
    names2 = [x[0] for x in i2]
    for k, (feeds, exp) in enumerate(zip(feeds_list, expected)):
        res["stage"] = "run"
        try:
            got = guarded_run(sess, dict(zip(names2, feeds)))
        except NonTermination:
            res["fail"] = _fail("run", "does_not_terminate", msg=f"no result after {RUN_LIMIT_S:.0f}s; run terminated")
            return res
        except Exception as e:
            msg = f"{type(e).__name__}: {e}"
            kind = "not_implemented" if runner.classify(msg) == "not_implemented" else "ort_fails"
            res["fail"] = _fail("run", kind, msg=msg)
            return res
        res["stage"] = "value"
        d = compare.compare_outputs(got, exp, check_dtype=True)
        if d:
            # onnx.reference may dispute
            st1, r1 = runner.ref_run(ref_model, dict(zip([x[0] for x in i1], feeds)))
            st2, r2 = runner.ref_run(model2, dict(zip(names2, feeds)))
            if _reference_unreliable(ref_model) or _reference_unreliable(model2):
                st2 = "unreliable"      # onnx.reference cannot be a witness here (see _reference_unreliable)
            if st1 == "ok" and st2 == "ok" and compare.compare_outputs(r2, r1, check_dtype=True) is None:
                res["disputed"] = True
                continue
            res["fail"] = _fail("value", "differs", msg=d, input_set=k)
            res["fail"]["msg"] = re.sub(r"[-+]?\d[\d.e+-]*", "N", d)[:80]
            return res
    res["ok"] = "fail" not in res or res["fail"] is None
    return res


def _reference_unreliable(model):
    """onnx.reference picks the LATEST default of an omitted attribute whatever opset the model imports (Softmax / LogSoftmax /
    Hardmax without `axis` below opset 13 are evaluated along the last axis instead of axis 1 with flattening): on such a
    model it may not dispute what ONNX Runtime computes."""
    ver = {o.domain: o.version for o in model.opset_import}.get("", 99)

    def walk(nodes):
        for n in nodes:
            if n.domain in ("", "ai.onnx") and n.op_type in ("Softmax", "LogSoftmax", "Hardmax") and ver < 13 and \
                    not any(a.name == "axis" for a in n.attribute):
                return True
            for a in n.attribute:
                if a.HasField("g") and walk(a.g.node):
                    return True
        return False

    return walk(model.graph.node) or any(walk(f.node) for f in model.functions)


def gen_inputs(model, seed_parts, n=3):
    """n positional input lists for the model's graph inputs (typed, fixed shapes; symbolic dims -> 2)."""
    rnd = np.random.default_rng(common.h32(*seed_parts))
    init = {i.name for i in model.graph.initializer}
    outs = []
    for k in range(n):
        feeds = []
        for vi in model.graph.input:
            if vi.name in init:
                continue
            tt = vi.type.tensor_type
            shape = [d.dim_value if d.HasField("dim_value") else 2 for d in tt.shape.dim] if tt.HasField("shape") else []
            et = tt.elem_type
            if et in (TensorProto.FLOAT, TensorProto.DOUBLE, TensorProto.FLOAT16):
                pool = np.array([0.0, 1.0, -1.0, 0.5, -2.5, 3.0, 7.25, -0.125, 12.0])
                a = rnd.choice(pool, size=shape) if k else (np.arange(int(np.prod(shape)) or 1)[:int(np.prod(shape))].reshape(shape) - 1.0)
                a = np.asarray(a, dtype=helper.tensor_dtype_to_np_dtype(et))
            elif et in (TensorProto.INT64, TensorProto.INT32, TensorProto.INT8, TensorProto.UINT8, TensorProto.INT16):
                if not shape:
                    a = np.asarray([1, 3, 0][k % 3], dtype=helper.tensor_dtype_to_np_dtype(et))  # also trip counts
                else:
                    a = np.asarray(rnd.integers(-3, 4, size=shape), dtype=helper.tensor_dtype_to_np_dtype(et))
                    if et == TensorProto.UINT8:
                        a = np.abs(a)
            elif et == TensorProto.BOOL:
                a = np.asarray(rnd.integers(0, 2, size=shape), dtype=bool) if shape else np.asarray(bool(k % 2))
            else:
                raise ValueError(f"unsupported input elem type {et}")
            feeds.append(a)
        outs.append(feeds)
    return outs
