"""Regenerates /verif/MANIFEST.json from the table below (python -m vf.manifest_gen)."""
import json
import os

from . import common

BASELINE_OFF = ("cd /repo && env -u ONNXSCRIPT_VERIF /venv/bin/python -m pytest -ra -q -p no:cacheprovider "
                "--timeout=900 --continue-on-collection-errors")

CHECKS = {
    # pid: (level, exhaustive?, technique, text, note, design_ref)
    "C17": ("exploration", "runtime monitor at the evaluator seam (recording evaluator via default_as) + schema oracle; exhaustive over generated methods",
            "Every public method of every generated opset class is called under a recording evaluator with sentinel arguments; "
            "the schema, argument forwarding, defaults and trimming that the evaluator observes are compared with onnx.defs; "
            "dynamic lookup and completeness are enumerated; a table of operators is executed eagerly with defaults omitted against a bare node on ORT. "
            "Exhaustive over the finite registry, so exploration with exhaustive=true is the right level.",
            "Trusts onnx.defs of the installed onnx as schema ground truth and ORT for the execution sample.", "DESIGN.md §3 C17"),
    "C16": ("exploration", "runtime monitor: sentinel arguments bound through the exporter's own binder / Python call binding, landing sites recorded; exhaustive over the registry",
            "Every (qualified name, function) pair from get_torchlib_ops() is resolved with the exporter's _get_overload and its ATen schema arguments, as tagged "
            "sentinels, are bound the way the exporter binds them; the monitor records where each sentinel lands and the oracle applies the rules of the property "
            "sentence (tensor->input, non-tensor->accepting parameter, nothing required unbound, only the listed arguments dropped). Registration is observed in a "
            "fresh subprocess with Registry.register wrapped; scripted functions go through onnx.checker.check_function and the independent walker. Finite registry, enumerated completely.",
            "Trusts the installed PyTorch's ATen schemas and exporter binder; entries of namespaces not installed (torchvision) are inconclusive.", "DESIGN.md §3 C16"),
}

NOT_BUILT_REASON = "check not built yet in this session (work in progress; see DESIGN.md §3)"


def main():
    all_ids = [f"C{i:02d}" for i in range(1, 21)]
    checks = []
    for pid in all_ids:
        if pid not in CHECKS:
            continue
        level, tech, text, note, ref = CHECKS[pid]
        checks.append({
            "property_id": pid,
            "quick_cmd": f"VERIF_TIER=quick ./check {pid}",
            "thorough_cmd": f"VERIF_TIER=thorough ./check {pid}",
            "evidence_file": f"/verif/evidence/{pid}.json",
            "replay_cmd_template": f"./check {pid} --replay {{path}}",
            "engine": "vf",
            "level_claimed": {"category": level, "text": text, "design_ref": ref},
            "level_note": note,
            "technique": tech,
        })
    na = [{"property_id": p, "reason": NOT_BUILT_REASON} for p in all_ids if p not in CHECKS]
    m = {
        "version": 1,
        "setup_cmd": "./check setup",
        "hooks": {
            "guard": "ONNXSCRIPT_VERIF",
            "enable": "no source hooks: all monitors are harness-side (evaluator seam, class-level wrappers, sys.monitoring, audit hooks); "
                      "./check exports ONNXSCRIPT_VERIF=1 for uniformity",
            "baseline_off_cmd": BASELINE_OFF,
            "source_commits": [],
            "add_only": True,
        },
        "engines": [
            {"name": "vf", "path": "/verif/vf", "serves_properties": sorted(CHECKS),
             "kind_free_text": "runtime monitoring harness: generators + worker pool (subprocess) + monitors (wrappers, sys.monitoring anchors, "
                               "recording evaluator, audit hooks) + oracles (ORT, numpy, torch, onnx.defs) + keyed known findings"},
        ],
        "checks": checks,
        "not_applicable": na,
        "notes": "Exit codes: 0 held, 1 VIOLATION, 2 INCONCLUSIVE (deciding monitor not reached). Known findings: /verif/known_findings.json.",
    }
    with open(os.path.join(common.VERIF_DIR, "MANIFEST.json"), "w") as f:
        json.dump(m, f, indent=1)
    try:
        import jsonschema
        jsonschema.validate(m, json.load(open("/root/.vp/MANIFEST.schema.json")))
        print("MANIFEST.json valid;", len(checks), "checks,", len(na), "not_applicable")
    except ImportError:
        pass


if __name__ == "__main__":
    main()
