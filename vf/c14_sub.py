"""C14 sub-checks that need no second process: repeated proto generation, post-decoration mutation of globals."""
from __future__ import annotations

import hashlib
import importlib.util
import os
import sys

import numpy as np

from . import common
from . import c14_gen as gen

_N = [0]
_DIR = [None]


def _load(src, tag):
    if _DIR[0] is None:
        _DIR[0] = common.scratch_dir("vf-c14sub-")
    _N[0] += 1
    name = f"vf_c14sub_{tag}_{_N[0]}"
    path = os.path.join(_DIR[0], name + ".py")
    with open(path, "w") as f:
        f.write(src)
    spec = importlib.util.spec_from_file_location(name, path)
    mod = importlib.util.module_from_spec(spec)
    sys.modules[name] = mod
    spec.loader.exec_module(mod)
    return mod


def ser(p):
    return p.SerializeToString(deterministic=True)


def fir_digest(fir):
    """Digest of an IRFunction that does not go through to_function_proto / to_model_proto:
    structure walk (identity of node and value objects included) + the IR's own text form."""
    from onnxscript import ir

    h = hashlib.sha256()

    def val(v):
        if v is None:
            return "None"
        return f"{id(v)}:{v.name}:{v.type}:{v.shape}:{sorted((v.metadata_props or {}).items())}"

    def graph(g):
        h.update(("G" + str(g.name) + "|" + ",".join(val(v) for v in g.inputs) + "|" + ",".join(val(v) for v in g.outputs)
                  + "|" + repr(sorted(g.opset_imports.items())) + "|" + repr(sorted(g.initializers))).encode())
        for n in g:
            node(n)

    def node(n):
        h.update(f"N{id(n)}:{n.domain}:{n.op_type}:{n.overload}:{n.name}:{n.version}|".encode())
        h.update((",".join(val(v) for v in n.inputs) + "|" + ",".join(val(v) for v in n.outputs)).encode())
        for k, a in n.attributes.items():
            h.update(f"A{k}:{a.type}:{getattr(a, 'ref_attr_name', None)}".encode())
            if a.type == ir.AttributeType.GRAPH:
                graph(a.value)
            elif a.type == ir.AttributeType.GRAPHS:
                for g in a.value:
                    graph(g)
            elif a.type == ir.AttributeType.TENSOR:
                t = a.value
                h.update(f"{t.dtype}:{t.shape}:{t.name}".encode() + t.tobytes())
            else:
                h.update(repr(a.value).encode())

    h.update(f"F{fir.domain}:{fir.name}:{fir.overload}:{sorted(fir.opset_imports.items())}:{sorted(fir.meta.items(), key=str)}"
             f":{sorted((fir.metadata_props or {}).items())}".encode())
    h.update(",".join(val(v) for v in fir.inputs).encode())
    h.update(",".join(val(v) for v in fir.outputs).encode())
    h.update(",".join(f"{k}:{a.type}:{a.value!r}" for k, a in fir.attributes.items()).encode())
    h.update(repr([getattr(p, "name", None) for p in fir.ordered_inputs_and_attrs]).encode())
    for n in fir:
        node(n)
    h.update(str(fir).encode())
    return h.hexdigest()


EXTRA_SRC = gen.HEADER + '''from onnxscript import opset17


@script()
def rep_helper(a: FLOAT[3], alpha: float = 0.5) -> FLOAT[3]:
    return op.LeakyRelu(a, alpha=alpha) * KG


@script()
def rep_caller(x: FLOAT[3], y: FLOAT[3]) -> FLOAT[3]:
    t = rep_helper(x, alpha=0.25)
    u = rep_helper(y)
    return op.Add(t, u)


@script(default_opset=opset17)
def rep_default_opset(x: FLOAT[3], y: FLOAT[3]) -> FLOAT[3]:
    return x * y + 1.0


# a call chain across three custom domains in which the outer function uses no standard operator itself: everything the
# MODEL has to import beyond the outer function's own imports comes from the callees
from onnxscript.values import Opset as _Opset
_inner_dom, _middle_dom, _outer_dom = _Opset("vf.rep.inner", 1), _Opset("vf.rep.middle", 1), _Opset("vf.rep.outer", 1)


@script(_inner_dom, default_opset=op)
def rep_inner(a: FLOAT[3]) -> FLOAT[3]:
    return op.Neg(a)


@script(_middle_dom, default_opset=op)
def rep_middle(a: FLOAT[3]) -> FLOAT[3]:
    return rep_inner(a)


@script(_outer_dom, default_opset=op)
def rep_outer(x: FLOAT[3], y: FLOAT[3]) -> FLOAT[3]:
    return rep_middle(x)
'''


def run_repeat(spec):
    from onnxscript import FLOAT

    viol, events, sigs = [], {}, []

    def v(key, what, **detail):
        viol.append({"key": key, "what": what, "detail": detail})

    todo = []
    for i, p in enumerate(spec["scripts"]):
        src, sig = gen.script_source(p, f"rep_fn_{i}")
        todo.append((src, [f"rep_fn_{i}"], f"repeat:{sig}:{p['gseed']}"))
    todo.append((EXTRA_SRC, ["rep_caller", "rep_default_opset", "rep_outer"], "repeat:extra"))
    for src, names, sig in todo:
        try:
            mod = _load(src, "rep")
        except Exception:  # refused: not the subject here
            events["refused"] = events.get("refused", 0) + 1
            continue
        for name in names:
            fn = getattr(mod, name)
            d0 = fir_digest(fn.function_ir)
            try:
                f0 = ser(fn.to_function_proto())
                ms = [ser(fn.to_model_proto()) for _ in range(5)]
                d1 = fir_digest(fn.function_ir)
                fs = [ser(fn.to_function_proto()) for _ in range(5)]
                d2 = fir_digest(fn.function_ir)
            except Exception as e:  # noqa: BLE001 - decoration succeeded, so proto generation has to succeed every time
                v("sub=repeat;api=to_model_proto;kind=raises", f"proto generation of the accepted function {name} raises "
                  f"{type(e).__name__}: {str(e)[:200]} for:\n{src}")
                continue
            # calls with options must not leak into later plain calls
            for kw in ({"ir_version": 9}, {"io_types": FLOAT[3]}, {"opset_version": 17},
                       {"input_types": [FLOAT[3], FLOAT[3]], "output_types": [FLOAT[3]]}, {"producer_name": "vf"}):
                try:
                    fn.to_model_proto(**kw)
                except Exception:  # noqa: BLE001
                    events["kwargs_call_refused"] = events.get("kwargs_call_refused", 0) + 1
            try:
                m_after = ser(fn.to_model_proto())
                f_after = ser(fn.to_function_proto())
            except Exception as e:  # noqa: BLE001
                v("sub=repeat;api=to_model_proto;kind=raises", f"proto generation of {name} raises after calls with options: "
                  f"{type(e).__name__}: {str(e)[:200]} for:\n{src}")
                continue
            d3 = fir_digest(fn.function_ir)
            events["sub_repeat_scripts"] = events.get("sub_repeat_scripts", 0) + 1
            events["sub_repeat_calls"] = events.get("sub_repeat_calls", 0) + 18
            sigs.append(sig + ":" + name)
            if len(set(ms)) != 1 or m_after != ms[0]:
                v("sub=repeat;api=to_model_proto;kind=bytes_differ", f"to_model_proto() of {name} called repeatedly gives different bytes "
                  f"({len(set(ms + [m_after]))} distinct of 6; after calls with options: {m_after == ms[0]}) for:\n{src}")
            if len(set(fs)) != 1 or fs[0] != f0 or f_after != f0:
                v("sub=repeat;api=to_function_proto;kind=bytes_differ", f"to_function_proto() of {name} differs between calls "
                  f"(before any to_model_proto vs after: {fs[0] == f0}; x5 distinct: {len(set(fs))}; after option calls: {f_after == f0}) "
                  f"for:\n{src}")
            if d1 != d0:
                v("sub=repeat;api=to_model_proto;kind=function_ir_mutated", f"to_model_proto() modified function_ir of {name}:\n{src}")
            if d2 != d1:
                v("sub=repeat;api=to_function_proto;kind=function_ir_mutated", f"to_function_proto() modified function_ir of {name}:\n{src}")
            if d3 != d2:
                v("sub=repeat;api=to_model_proto_kwargs;kind=function_ir_mutated", f"to_model_proto(<options>) modified function_ir "
                  f"of {name}:\n{src}")
    return {"status": "ok", "viol": viol, "events": events, "nontrivial": True, "sig": None, "data": {"sigs": sigs},
            "sample": {"sub": "repeat", "scripts": len(todo)}}


MUT_SRC = '''from onnxscript import script, FLOAT, INT64
from onnxscript import opset18 as op
from onnxscript import opset18, opset17
import numpy as np
KG = 2.5
KI = 2
KS = [1.0, 2.0, 3.0]
KA = np.array([0.5, 1.5, -2.0], dtype=np.float32)
FLAG = True


@script()
def f_const(x: FLOAT[3]) -> FLOAT[3]:
    t = op.Identity(x) * KG
    for i in range(KI):
        t = t + x
    if FLAG:
        t = t * 2.0
    else:
        t = t - 1.0
    return t


@script()
def f_list(x: FLOAT[3]) -> FLOAT[3]:
    k = op.Constant(value_floats=KS)
    return op.Mul(x, k)


@script()
def f_ndarray(x: FLOAT[3]) -> FLOAT[3]:
    a = op.Constant(value=KA)
    return op.Add(x, a)


@script()
def f_alias(x: FLOAT[3]) -> FLOAT[3]:
    return op.Relu(op.Sub(x, x * 0.5))


def make(c, w):
    @script()
    def f_closure(x: FLOAT[3]) -> FLOAT[3]:
        return op.Add(op.Mul(x, w), c)

    def setter(nc, nw):
        nonlocal c, w
        c = nc
        w = nw
    return f_closure, setter


f_closure, set_closure = make(7.0, 3.0)
'''


ANNOT_SRC = '''from __future__ import annotations
from onnxscript import script, FLOAT, INT64, BOOL
from onnxscript import opset18 as op

Factor = float
Count = int


@script()
def callee(a: FLOAT[3], factor: Factor, n: Count = 2) -> FLOAT[3]:
    return a * factor + op.Cast(n, to=1)


#REBIND#


@script()
def caller(x: FLOAT[3]) -> FLOAT[3]:
    t = callee(x, factor=2.5, n=3)
    return callee(t, 0.5)
'''


def run_mutate_annot(spec):
    """Postponed annotations (from __future__ import annotations): the signature of a script function is what its annotations
    meant WHEN IT WAS DECORATED.  Rebinding a module-level annotation alias afterwards (before any other script calls the
    function) must not change how later scripts translate calls to it."""
    form = spec.get("form", "to_int")
    rebind = {"to_int": "Factor = int", "to_tensor": "Factor = FLOAT\nCount = INT64", "to_bool": "Factor = bool\nCount = float"}[form]
    viol, events = [], {"sub_mutations": 1}
    outs = {}
    for tag, src in (("plain", ANNOT_SRC.replace("#REBIND#", "")), ("rebound", ANNOT_SRC.replace("#REBIND#", rebind))):
        try:
            mod = _load(src, "annot")
            outs[tag] = {"model": ser(mod.caller.to_model_proto()), "function": ser(mod.caller.to_function_proto()),
                         "callee": ser(mod.callee.to_function_proto())}
        except Exception as e:
            outs[tag] = {"raised": f"{type(e).__name__}: {str(e)[:200]}"}
    for k in ("model", "function", "callee"):
        events[f"sub_mutate_observed:{k}"] = 1
    if outs["plain"] != outs["rebound"]:
        changed = [k for k in set(outs["plain"]) | set(outs["rebound"]) if outs["plain"].get(k) != outs["rebound"].get(k)]
        viol.append({"key": f"sub=mutate;observed=proto;what=annot_{form}",
                     "what": f"annotation alias rebound ({rebind!r}) after the callee was decorated: {sorted(changed)} of a caller decorated "
                             f"afterwards differ from the run without the rebinding" + (f" ({outs['rebound'].get('raised')})" if "raised" in outs["rebound"] else ""),
                     "detail": {"what": "annot", "form": form}})
    return {"status": "ok", "viol": viol, "events": events, "nontrivial": True, "sig": f"mutate:annot:{form}",
            "sample": {"sub": "mutate", "what": "annot", "form": form}}


def run_mutate(spec):
    import onnx  # noqa: F401

    if spec["what"] == "annot":
        return run_mutate_annot(spec)
    what, form = spec["what"], spec.get("form", "rebind")
    mod = _load(MUT_SRC, "mut")
    viol, events = [], {}
    x = np.array([1.0, -2.0, 3.0], np.float32)
    fname = {"const": "f_const", "list": "f_list", "ndarray": "f_ndarray", "alias": "f_alias", "closure": "f_closure"}[what]
    fn = getattr(mod, fname)

    def observe():
        out = {"model": ser(fn.to_model_proto()), "function": ser(fn.to_function_proto())}
        try:
            r = fn(x)
            out["eager"] = np.asarray(getattr(r, "value", r)).tobytes()
        except Exception as e:  # a later call that now fails has changed
            out["eager"] = f"raised:{type(e).__name__}".encode()
        return out

    before = observe()
    d0 = fir_digest(fn.function_ir)
    if what == "const":
        mod.KG = 99.0
        mod.KI = 5
        mod.FLAG = False
        desc = "module constants KG/KI/FLAG rebound after decoration"
    elif what == "list" and form == "rebind":
        mod.KS = [9.0, 9.0, 9.0]
        desc = "list global KS (used as value_floats=KS) rebound after decoration"
    elif what == "list":
        mod.KS[0] = 50.0
        desc = "list global KS (used as value_floats=KS) mutated in place after decoration"
    elif what == "ndarray" and form == "rebind":
        mod.KA = np.array([7.0, 7.0, 7.0], np.float32)
        desc = "numpy global KA (used as op.Constant(value=KA)) rebound after decoration"
    elif what == "ndarray":
        mod.KA[1] = -40.0
        desc = "numpy global KA (used as op.Constant(value=KA)) mutated in place (KA[1] = -40) after decoration"
    elif what == "alias":
        mod.op = mod.opset17
        desc = "default-opset alias `op` rebound to opset17 after decoration"
    else:
        mod.set_closure(100.0, -1.0)
        desc = "closure variables rebound after decoration"
    after = observe()
    events["sub_mutations"] = 1
    changed = []
    for k in ("model", "function", "eager"):
        events[f"sub_mutate_observed:{k}"] = 1
        if before[k] != after[k]:
            changed.append(k)
    if fir_digest(fn.function_ir) != d0:
        changed.append("function_ir")
    if "eager" in changed:
        def dec(b):
            return np.frombuffer(b, np.float32).tolist() if len(b) == 12 else b.decode("utf-8", "replace")

        viol.append({"key": "sub=mutate;observed=eager;mech=python_body_reads_live_namespace",
                     "what": f"{desc}: a later eager call of {fname} returns different values "
                             f"({dec(before['eager'])} before, {dec(after['eager'])} after)",
                     "detail": {"what": what, "form": form}})
    static = [k for k in changed if k != "eager"]
    if static:
        viol.append({"key": f"sub=mutate;observed=proto;what={what}_{form}",
                     "what": f"{desc}: {', '.join(static)} of {fname} changed (proto bytes / function_ir digest differ)",
                     "detail": {"what": what, "form": form, "changed": static}})
    if what == "alias":
        # also: rebinding the alias to something unusable must not break later proto generation
        mod.op = None
        try:
            again = {"model": ser(fn.to_model_proto()), "function": ser(fn.to_function_proto())}
            bad = [k for k in again if again[k] != before[k]]
            if bad:
                viol.append({"key": "sub=mutate;observed=proto;what=alias_none", "what": f"alias `op` set to None after decoration: "
                             f"{bad} changed", "detail": {}})
        except Exception as e:
            viol.append({"key": "sub=mutate;observed=proto;what=alias_none", "what": f"alias `op` set to None after decoration: "
                         f"proto generation raises {type(e).__name__}: {e}", "detail": {}})
    return {"status": "ok", "viol": viol, "events": events, "nontrivial": True, "sig": f"mutate:{what}:{form}",
            "sample": {"sub": "mutate", "what": what, "form": form}}
