"""Execute ONNX protos on ONNX Runtime (deciding) and onnx.reference (disputing witness)."""
from __future__ import annotations

import numpy as np

_ort = None


def ort():
    global _ort
    if _ort is None:
        import onnxruntime

        onnxruntime.set_default_logger_severity(4)
        _ort = onnxruntime
    return _ort


def classify(msg: str) -> str:
    m = msg
    if "NOT_IMPLEMENTED" in m or "Could not find an implementation" in m or "is not a registered function/op" in m:
        return "not_implemented"
    return "fail"


def ort_session(model):
    o = ort()
    so = o.SessionOptions()
    so.graph_optimization_level = o.GraphOptimizationLevel.ORT_DISABLE_ALL
    so.intra_op_num_threads = 1
    so.inter_op_num_threads = 1
    so.log_severity_level = 4
    b = model if isinstance(model, (bytes, bytearray)) else model.SerializeToString()
    return o.InferenceSession(b, so, providers=["CPUExecutionProvider"])


def ort_run(model, feeds: dict, session=None):
    """-> ("ok", [outputs]) | ("load"|"run"|"not_implemented", message)"""
    try:
        sess = session or ort_session(model)
    except Exception as e:
        msg = f"{type(e).__name__}: {e}"
        return ("not_implemented" if classify(msg) == "not_implemented" else "load"), msg[:900]
    try:
        names = {i.name for i in sess.get_inputs()} | {i.name for i in sess.get_overridable_initializers()}
        out = sess.run(None, {k: v for k, v in feeds.items() if k in names})
    except Exception as e:
        msg = f"{type(e).__name__}: {e}"
        return ("not_implemented" if classify(msg) == "not_implemented" else "run"), msg[:900]
    return "ok", out


def ref_run(model, feeds: dict):
    """onnx.reference; never decisive on its own."""
    try:
        import onnx
        from onnx.reference import ReferenceEvaluator

        m = model if not isinstance(model, (bytes, bytearray)) else onnx.load_from_string(bytes(model))
        ev = ReferenceEvaluator(m)
        names = {i.name for i in m.graph.input}
        out = ev.run(None, {k: v for k, v in feeds.items() if k in names})
        return "ok", out
    except Exception as e:
        return "fail", f"{type(e).__name__}: {e}"[:400]


def checker(model, full=True):
    """-> None or message"""
    import onnx

    try:
        onnx.checker.check_model(model, full_check=full)
    except Exception as e:
        return f"{type(e).__name__}: {e}"[:600]
    return None


def as_np(x):
    if isinstance(x, (list, tuple)):
        return [as_np(v) for v in x]
    if x is None:
        return None
    if hasattr(x, "numpy") and not isinstance(x, np.ndarray):
        try:
            return x.numpy()
        except Exception:
            pass
    if hasattr(x, "value") and not isinstance(x, np.ndarray):
        return np.asarray(x.value)
    return np.asarray(x)
