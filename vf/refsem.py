"""The numpy reading of an ONNX Script program.

The same source text that is handed to @script is exec'd *undecorated* with `op` bound to
`RefOpset` (a table of numpy implementations) and tensors wrapped in `RT`.  Python
`if/for/while/break` run natively through `__bool__`/`__index__`; operators denote the ONNX
operator the documentation maps them to; a Python literal next to a tensor is promoted to
the type of the sibling operand that shares its ONNX type constraint (looked up in
onnx.defs — the documented rule, not onnxscript's code), else INT64 / FLOAT / BOOL.
"""
from __future__ import annotations

import numpy as np
import onnx
from onnx import TensorProto as TP

NP = {TP.FLOAT: np.float32, TP.DOUBLE: np.float64, TP.INT64: np.int64, TP.INT32: np.int32, TP.BOOL: np.bool_,
      TP.FLOAT16: np.float16, TP.UINT8: np.uint8, TP.INT8: np.int8, TP.INT16: np.int16}


STEPS = [0]


MAXMAG = [0.0]


class RT:
    """Reference tensor."""

    __array_priority__ = 1000

    def __init__(self, a):
        self.a = np.asarray(a)
        if self.a.dtype.kind == "f" and self.a.size:
            # largest finite float magnitude seen during a run of the numpy reading (see c01: discontinuous ops on large values)
            with np.errstate(all="ignore"):
                m = np.abs(self.a[np.isfinite(self.a)])
            if m.size:
                v = float(m.max())
                if v > MAXMAG[0]:
                    MAXMAG[0] = v

    # ---- python protocol
    def __bool__(self):
        STEPS[0] += 1
        if STEPS[0] > 5000:
            raise RuntimeError("step budget exceeded (non-terminating loop in a candidate program)")
        if self.a.size != 1:
            raise ValueError("condition must have exactly one element")
        return bool(self.a.reshape(()).item())

    def __index__(self):
        if self.a.size != 1:
            raise ValueError("loop bound must have exactly one element")
        return int(self.a.reshape(()).item())

    def __getitem__(self, idx):
        # basic indexing only (ints and positive-step slices with in-range bounds are all the generator emits):
        # NumPy's reading, which is what C11 holds the converter and eager mode to
        return RT(self.a[idx])

    # ---- operators
    def __add__(self, o):
        return OP.Add(self, o)

    def __radd__(self, o):
        return OP.Add(o, self)

    def __sub__(self, o):
        return OP.Sub(self, o)

    def __rsub__(self, o):
        return OP.Sub(o, self)

    def __mul__(self, o):
        return OP.Mul(self, o)

    def __rmul__(self, o):
        return OP.Mul(o, self)

    def __truediv__(self, o):
        return OP.Div(self, o)

    def __rtruediv__(self, o):
        return OP.Div(o, self)

    def __mod__(self, o):
        # documented mapping: % is Mod; fmod=1 for floating point operands
        return OP.Mod(self, o, fmod=1 if self.a.dtype.kind == "f" else 0)

    def __pow__(self, o):
        return OP.Pow(self, o)

    def __matmul__(self, o):
        return OP.MatMul(self, o)

    def __neg__(self):
        return OP.Neg(self)

    def __lt__(self, o):
        return OP.Less(self, o)

    def __le__(self, o):
        return OP.LessOrEqual(self, o)

    def __gt__(self, o):
        return OP.Greater(self, o)

    def __ge__(self, o):
        return OP.GreaterOrEqual(self, o)

    def __eq__(self, o):  # noqa: PLW1641
        return OP.Equal(self, o)

    def __ne__(self, o):
        return OP.Not(OP.Equal(self, o))

    def __and__(self, o):
        return OP.And(self, o)

    def __or__(self, o):
        return OP.Or(self, o)

    __hash__ = None


def _default(lit):
    """Python value -> tensor by Python type (INT64 / FLOAT / BOOL)."""
    if isinstance(lit, RT):
        return lit.a
    if isinstance(lit, np.ndarray):
        return lit
    if isinstance(lit, bool):
        return np.array(lit, dtype=np.bool_)
    if isinstance(lit, int):
        return np.array(lit, dtype=np.int64)
    if isinstance(lit, float):
        return np.array(lit, dtype=np.float32)
    if isinstance(lit, (list, tuple)):
        if len(lit) == 0:
            return np.array([], dtype=np.int64)
        if all(isinstance(x, bool) for x in lit):
            return np.array(lit, dtype=np.bool_)
        if all(isinstance(x, int) for x in lit):
            return np.array(lit, dtype=np.int64)
        return np.array(lit, dtype=np.float32)
    raise TypeError(f"unsupported literal {lit!r}")


_SCHEMA_CACHE = {}


def promote(opname, args, opset=18):
    """Apply the documented promotion rule to the positional inputs of `opname`."""
    key = (opname, opset)
    if key not in _SCHEMA_CACHE:
        _SCHEMA_CACHE[key] = onnx.defs.get_schema(opname, opset, "")
    schema = _SCHEMA_CACHE[key]
    ins = list(schema.inputs)
    tv = []
    for i in range(len(args)):
        p = ins[i] if i < len(ins) else ins[-1]
        tv.append(p.type_str)
    bound = {}
    for a, t in zip(args, tv):
        if isinstance(a, RT) and "(" not in t:
            bound[t] = a.a.dtype
    out = []
    for a, t in zip(args, tv):
        if a is None:
            out.append(None)
        elif isinstance(a, RT):
            out.append(a.a)
        else:
            d = _default(a)
            if t in bound and not isinstance(a, np.ndarray):
                d = d.astype(bound[t])   # CastLike(literal, sibling)
            out.append(d)
    return out


def _ax(axes):
    if axes is None:
        return None
    a = np.asarray(axes.a if isinstance(axes, RT) else axes).reshape(-1)
    return tuple(int(x) for x in a)


class RefOpset:
    opset = 18

    def _p(self, name, *args):
        return promote(name, list(args), self.opset)

    # elementwise
    def Add(self, a, b):
        x, y = self._p("Add", a, b)
        return RT(np.add(x, y))

    def Sub(self, a, b):
        x, y = self._p("Sub", a, b)
        return RT(np.subtract(x, y))

    def Mul(self, a, b):
        x, y = self._p("Mul", a, b)
        return RT(np.multiply(x, y))

    def Div(self, a, b):
        x, y = self._p("Div", a, b)
        if x.dtype.kind in "iu":
            if (np.asarray(y) == 0).any():
                raise ZeroDivisionError("integer division by zero is undefined")
            q = np.abs(x) // np.abs(y)
            return RT((q * np.sign(x) * np.sign(y)).astype(x.dtype))   # truncation toward zero
        with np.errstate(all="ignore"):
            return RT(np.divide(x, y).astype(x.dtype))

    def Mod(self, a, b, fmod=0):
        x, y = self._p("Mod", a, b)
        if x.dtype.kind in "iu" and (np.asarray(y) == 0).any():
            raise ZeroDivisionError("integer modulo by zero is undefined")
        with np.errstate(all="ignore"):
            if fmod or x.dtype.kind == "f":
                if not fmod:
                    raise ValueError("Mod on floats requires fmod=1")
                return RT(np.fmod(x, y).astype(x.dtype))
            return RT(np.mod(x, y).astype(x.dtype))

    def Pow(self, a, b):
        x, y = self._p("Pow", a, b)
        with np.errstate(all="ignore"):
            return RT(np.power(x, y).astype(x.dtype))

    def MatMul(self, a, b):
        x, y = self._p("MatMul", a, b)
        return RT(np.matmul(x, y))

    def Neg(self, a):
        (x,) = self._p("Neg", a)
        return RT(np.negative(x))

    def Abs(self, a):
        (x,) = self._p("Abs", a)
        return RT(np.abs(x))

    def Relu(self, a):
        (x,) = self._p("Relu", a)
        return RT(np.maximum(x, 0).astype(x.dtype))

    def Sigmoid(self, a):
        (x,) = self._p("Sigmoid", a)
        with np.errstate(all="ignore"):
            return RT((1 / (1 + np.exp(-x.astype(np.float64)))).astype(x.dtype))

    def Sqrt(self, a):
        (x,) = self._p("Sqrt", a)
        with np.errstate(all="ignore"):
            return RT(np.sqrt(x))

    def Exp(self, a):
        (x,) = self._p("Exp", a)
        with np.errstate(all="ignore"):
            return RT(np.exp(x))

    def Tanh(self, a):
        (x,) = self._p("Tanh", a)
        return RT(np.tanh(x))

    def Floor(self, a):
        (x,) = self._p("Floor", a)
        return RT(np.floor(x))

    def Ceil(self, a):
        (x,) = self._p("Ceil", a)
        return RT(np.ceil(x))

    def Sign(self, a):
        (x,) = self._p("Sign", a)
        return RT(np.sign(x))

    def Identity(self, a):
        (x,) = self._p("Identity", a)
        return RT(np.array(x, copy=True))

    def LeakyRelu(self, a, alpha=0.01):
        (x,) = self._p("LeakyRelu", a)
        return RT(np.where(x >= 0, x, x * np.asarray(alpha, dtype=x.dtype)).astype(x.dtype))

    def Max(self, *args):
        xs = self._p("Max", *args)
        r = xs[0]
        for y in xs[1:]:
            r = np.maximum(r, y)
        return RT(r)

    def Min(self, *args):
        xs = self._p("Min", *args)
        r = xs[0]
        for y in xs[1:]:
            r = np.minimum(r, y)
        return RT(r)

    def Sum(self, *args):
        xs = self._p("Sum", *args)
        r = xs[0]
        for y in xs[1:]:
            r = np.add(r, y)
        return RT(r)

    def Clip(self, a, lo=None, hi=None, min=None, max=None):
        lo = min if min is not None else lo
        hi = max if max is not None else hi
        x, l, h = self._p("Clip", a, lo, hi)
        r = x
        if l is not None:
            r = np.maximum(r, l)
        if h is not None:
            r = np.minimum(r, h)
        return RT(r.astype(x.dtype))

    def Where(self, c, a, b):
        cc, x, y = self._p("Where", c, a, b)
        return RT(np.where(cc, x, y))

    # comparison / logic
    def Less(self, a, b):
        x, y = self._p("Less", a, b)
        return RT(np.less(x, y))

    def LessOrEqual(self, a, b):
        x, y = self._p("LessOrEqual", a, b)
        return RT(np.less_equal(x, y))

    def Greater(self, a, b):
        x, y = self._p("Greater", a, b)
        return RT(np.greater(x, y))

    def GreaterOrEqual(self, a, b):
        x, y = self._p("GreaterOrEqual", a, b)
        return RT(np.greater_equal(x, y))

    def Equal(self, a, b):
        x, y = self._p("Equal", a, b)
        return RT(np.equal(x, y))

    def And(self, a, b):
        x, y = self._p("And", a, b)
        return RT(np.logical_and(x, y))

    def Or(self, a, b):
        x, y = self._p("Or", a, b)
        return RT(np.logical_or(x, y))

    def Not(self, a):
        (x,) = self._p("Not", a)
        return RT(np.logical_not(x))

    # type
    def Cast(self, a, to):
        (x,) = self._p("Cast", a)
        dt = NP[int(to)]
        if x.dtype.kind == "f" and np.dtype(dt).kind in "iu":
            if not np.isfinite(x).all() or (np.abs(x) > 2**31).any():
                raise ValueError("float->int cast of NaN/inf/out-of-range is undefined")
            return RT(np.trunc(x).astype(dt))
        if np.dtype(dt).kind == "b":
            return RT(x != 0)
        return RT(x.astype(dt))

    def CastLike(self, a, like):
        x, y = self._p("CastLike", a, like)
        return self.Cast(RT(x), {v: k for k, v in NP.items()}[y.dtype.type])

    # reductions
    def _reduce(self, name, fn, a, axes, keepdims, noop_with_empty_axes=0):
        x, ax = self._p(name, a, axes)
        axt = _ax(ax) if ax is not None else None
        if axt is not None and len(axt) == 0:
            axt = None
            if noop_with_empty_axes:
                return RT(x)
        return RT(np.asarray(fn(x, axis=axt, keepdims=bool(keepdims))).astype(x.dtype))

    def ReduceSum(self, a, axes=None, keepdims=1, noop_with_empty_axes=0):
        return self._reduce("ReduceSum", np.sum, a, axes, keepdims, noop_with_empty_axes)

    def ReduceMax(self, a, axes=None, keepdims=1, noop_with_empty_axes=0):
        return self._reduce("ReduceMax", np.max, a, axes, keepdims, noop_with_empty_axes)

    def ReduceMin(self, a, axes=None, keepdims=1, noop_with_empty_axes=0):
        return self._reduce("ReduceMin", np.min, a, axes, keepdims, noop_with_empty_axes)

    def ReduceMean(self, a, axes=None, keepdims=1, noop_with_empty_axes=0):
        return self._reduce("ReduceMean", np.mean, a, axes, keepdims, noop_with_empty_axes)

    # shape
    def Shape(self, a):
        (x,) = self._p("Shape", a)
        return RT(np.array(x.shape, dtype=np.int64))

    def Size(self, a):
        (x,) = self._p("Size", a)
        return RT(np.array(x.size, dtype=np.int64))

    def Transpose(self, a, perm=None):
        (x,) = self._p("Transpose", a)
        return RT(np.transpose(x, perm))

    def Reshape(self, a, shape, allowzero=0):
        x, s = self._p("Reshape", a, shape)
        tgt = [int(v) for v in s.reshape(-1)]
        if not allowzero:
            tgt = [x.shape[i] if v == 0 else v for i, v in enumerate(tgt)]
        return RT(x.reshape(tgt))

    def Flatten(self, a, axis=1):
        (x,) = self._p("Flatten", a)
        ax = axis if axis >= 0 else axis + x.ndim
        return RT(x.reshape(int(np.prod(x.shape[:ax])) if ax else 1, -1 if x.size else int(np.prod(x.shape[ax:]))))

    def Squeeze(self, a, axes=None):
        x, ax = self._p("Squeeze", a, axes)
        return RT(np.squeeze(x, axis=_ax(ax)))

    def Unsqueeze(self, a, axes):
        x, ax = self._p("Unsqueeze", a, axes)
        r = x
        rank = x.ndim + len(_ax(ax))
        for k in sorted(q % rank for q in _ax(ax)):
            r = np.expand_dims(r, k)
        return RT(r)

    def Concat(self, *args, axis):
        xs = self._p("Concat", *args)
        return RT(np.concatenate(xs, axis=axis))

    def Expand(self, a, shape):
        x, s = self._p("Expand", a, shape)
        return RT(x * np.ones([int(v) for v in s.reshape(-1)], dtype=x.dtype) if x.dtype.kind != "b" else
                  np.logical_and(x, np.ones([int(v) for v in s.reshape(-1)], dtype=bool)))

    def Gather(self, a, idx, axis=0):
        x, i = self._p("Gather", a, idx)
        n = x.shape[axis]
        if ((i < -n) | (i >= n)).any():
            raise IndexError("Gather index out of range is undefined")
        return RT(np.take(x, i, axis=axis))

    def Split(self, a, split=None, axis=0, num_outputs=None):
        x, s = self._p("Split", a, split)
        if s is not None:
            idx = np.cumsum([int(v) for v in s.reshape(-1)])[:-1]
            return tuple(RT(p) for p in np.split(x, idx, axis=axis))
        n = x.shape[axis]
        k = int(num_outputs)
        size = -(-n // k)
        idx = [size * (j + 1) for j in range(k - 1)]
        return tuple(RT(p) for p in np.split(x, [min(q, n) for q in idx], axis=axis))

    def TopK(self, a, k, axis=-1, largest=1, sorted=1):  # noqa: A002
        x, kk = self._p("TopK", a, k)
        kk = int(kk.reshape(-1)[0])
        order = np.argsort(-x if largest else x, axis=axis, kind="stable")
        idx = np.take(order, np.arange(kk), axis=axis)
        return RT(np.take_along_axis(x, idx, axis=axis)), RT(idx.astype(np.int64))

    def Softmax(self, a, axis=-1):
        (x,) = self._p("Softmax", a)
        with np.errstate(all="ignore"):
            e = np.exp(x - np.max(x, axis=axis, keepdims=True)) if x.size else x
            return RT((e / np.sum(e, axis=axis, keepdims=True)).astype(x.dtype) if x.size else x)

    def CumSum(self, a, axis, exclusive=0, reverse=0):
        x, ax = self._p("CumSum", a, axis)
        k = int(ax.reshape(-1)[0])
        r = np.flip(x, k) if reverse else x
        c = np.cumsum(r, axis=k, dtype=x.dtype)
        if exclusive:
            c = c - r
        return RT(np.flip(c, k) if reverse else c)

    def Range(self, start, limit, delta):
        s, l, d = self._p("Range", start, limit, delta)
        return RT(np.arange(s.item(), l.item(), d.item()).astype(s.dtype))

    def Constant(self, value_float=None, value_int=None, value_floats=None, value_ints=None, value=None):
        if value_float is not None:
            return RT(np.array(value_float, dtype=np.float32))
        if value_int is not None:
            return RT(np.array(value_int, dtype=np.int64))
        if value_floats is not None:
            return RT(np.array(value_floats, dtype=np.float32))
        if value_ints is not None:
            return RT(np.array(value_ints, dtype=np.int64))
        return RT(onnx.numpy_helper.to_array(value))


OP = RefOpset()


def unwrap(x):
    if isinstance(x, RT):
        return x.a
    if isinstance(x, (tuple, list)):
        return [unwrap(v) for v in x]
    return np.asarray(x)
