"""C17 helpers for the *eager* half of the property.

"calling an operator eagerly with defaults left out computes what a node without those attributes
computes, and opsetN.Op denotes the same schema in eager mode" — two observations:

* the model observation: pass-through wrappers on the two runtime constructors the shipped evaluators
  hand their one-node model to (onnxruntime.InferenceSession, onnx.reference.ReferenceEvaluator) log
  the ModelProto of every eager call; `judge_model` compares the node and the opset import with the
  schema onnx.defs resolves for (op, N, domain);
* the value observation: eager result == result of a bare NodeProto in a model importing opset N on the
  same runtime (`check_exec`).
"""
from __future__ import annotations

import numpy as np

_LOG = None          # list while armed
_HOOKED = False


def ensure_hooks():
    """Idempotent; class-level pass-through wrappers (vf.probes.wrap_method)."""
    global _HOOKED
    if _HOOKED:
        return
    import onnx
    import onnx.reference
    import onnxruntime

    from . import probes, runner

    runner.ort()  # logger severity

    def before_ort(self, path_or_bytes=None, *a, **k):
        if _LOG is not None and isinstance(path_or_bytes, (bytes, bytearray)):
            _LOG.append(("ort", bytes(path_or_bytes)))

    def before_ref(self, proto=None, *a, **k):
        if _LOG is not None and isinstance(proto, onnx.ModelProto):
            _LOG.append(("ref", proto.SerializeToString()))

    probes.wrap_method(onnxruntime.InferenceSession, "__init__", before=before_ort)
    probes.wrap_method(onnx.reference.ReferenceEvaluator, "__init__", before=before_ref)
    _HOOKED = True


def make_evaluator(evname):
    from onnxscript._internal import evaluator

    return evaluator.ORTEvaluator() if evname == "ort" else evaluator.OnnxReferenceRuntimeEvaluator()


def eager_call(fn, args, kwargs, evname):
    """-> (status, value|message, [ModelProto handed to the runtime])."""
    global _LOG
    import onnx

    from onnxscript._internal import evaluator

    ensure_hooks()
    _LOG = []
    try:
        with evaluator.default_as(make_evaluator(evname)):
            try:
                out = fn(*args, **kwargs)
                st = "ok"
            except Exception as e:  # the repository's refusal / the runtime's
                out = f"{type(e).__name__}: {e}"
                st = "raised"
    finally:
        log, _LOG = _LOG, None
    models = []
    for which, b in log:
        try:
            models.append(onnx.load_from_string(b))
        except Exception:
            pass
    return st, out, models


def _norm(v):
    if isinstance(v, bytes):
        return v.decode("utf-8", "replace")
    if isinstance(v, (bool, np.bool_)):
        return int(v)
    if isinstance(v, (float, np.floating)):
        return float(np.float32(v))
    if isinstance(v, (int, np.integer)):
        return int(v)
    if isinstance(v, (list, tuple)):
        return tuple(_norm(x) for x in v)
    if hasattr(v, "SerializeToString"):
        return ("proto", v.SerializeToString())
    return v


def _dom(d):
    return "" if d == "ai.onnx" else d


def judge_model(model, truth, given_attrs, args):
    """Compare the one-node model of an eager call with the schema `truth` (= onnx.defs.get_schema(op, N, domain)).

    -> list of (kind, text).  `given_attrs`: attributes the caller passed explicitly (schema names -> python value);
    every other attribute was left to its default.  `args`: inputs the caller passed (None = omitted)."""
    import onnx
    from onnx import helper

    out = []
    nodes = list(model.graph.node)
    if len(nodes) != 1:
        return [("node_ident", f"{len(nodes)} nodes")]
    n = nodes[0]
    if n.op_type != truth.name or _dom(n.domain) != _dom(truth.domain):
        out.append(("node_ident", f"node is {n.domain!r}::{n.op_type}"))
        return out
    imports = {}
    for oi in model.opset_import:
        imports.setdefault(_dom(oi.domain), []).append(oi.version)
    vs = imports.get(_dom(truth.domain))
    if not vs or len(vs) != 1:
        out.append(("stamp", f"opset_import {dict(imports)} has no single entry for domain {truth.domain!r}"))
    else:
        try:
            res = onnx.defs.get_schema(n.op_type, vs[0], truth.domain)
            resk = (res.name, res.since_version)
        except Exception:
            resk = None
        if resk != (truth.name, truth.since_version):
            out.append(("stamp", f"model imports {truth.domain!r}:{vs[0]}, under which {n.op_type} resolves to "
                                 f"{resk}, not to {truth.name}-{truth.since_version}"))
    # attributes: only schema attributes; defaulted ones absent or equal to the schema default; given ones as given
    for a in n.attribute:
        s = truth.attributes.get(a.name)
        if s is None:
            out.append(("attr_unknown", f"node carries attribute {a.name!r} which {truth.name}-{truth.since_version} does not have"))
            continue
        if a.type in (onnx.AttributeProto.TENSOR, onnx.AttributeProto.GRAPH, onnx.AttributeProto.SPARSE_TENSOR,
                      onnx.AttributeProto.TYPE_PROTO, onnx.AttributeProto.TENSORS, onnx.AttributeProto.GRAPHS):
            continue
        got = _norm(helper.get_attribute_value(a))
        if a.name in given_attrs:
            want = _norm(given_attrs[a.name])
            if isinstance(want, (str, int, float, tuple)) and got != want:
                out.append(("attr_value", f"attribute {a.name} given as {given_attrs[a.name]!r} is {got!r} in the node"))
        else:
            has_def = s.default_value is not None and s.default_value.type != onnx.AttributeProto.UNDEFINED
            if not has_def:
                out.append(("attr_default", f"omitted attribute {a.name} (no schema default) is {got!r} in the node"))
            elif got != _norm(helper.get_attribute_value(s.default_value)):
                out.append(("attr_default", f"omitted attribute {a.name} is {got!r} in the node, schema default "
                                            f"{_norm(helper.get_attribute_value(s.default_value))!r}"))
    for k, val in given_attrs.items():
        if val is not None and k in truth.attributes and not any(a.name == k for a in n.attribute):
            out.append(("attr_value", f"attribute {k} given as {val!r} is missing from the node"))
    # inputs: one per given argument, "" exactly where None was given; trailing omitted ones trimmed
    exp = list(args)
    while exp and exp[-1] is None:
        exp.pop()
    pat_exp = [x is not None for x in exp]
    pat_got = [bool(x) for x in n.input]
    if pat_exp != pat_got:
        out.append(("inputs", f"node inputs {list(n.input)} for arguments present={pat_exp}"))
    return out


# ------------------------------------------------------------------ synthetic arguments for the model probe
_PREF = [("tensor(float)", np.float32), ("tensor(int64)", np.int64), ("tensor(bool)", np.bool_),
         ("tensor(double)", np.float64), ("tensor(int32)", np.int32), ("tensor(uint8)", np.uint8),
         ("tensor(float16)", np.float16), ("tensor(int8)", np.int8), ("tensor(string)", np.str_)]


def _value_for(type_strs, k):
    ts = set(type_strs)
    for name, dt in _PREF:
        if name in ts:
            if dt is np.str_:
                return np.array(["a", "b"])
            if dt is np.bool_:
                return np.array([True, False, True])
            return (np.arange(6).reshape(2, 3) + k).astype(dt)
    for name, dt in _PREF:
        if f"seq({name})" in ts or f"optional({name})" in ts:
            v = _value_for([name], k)
            return [v] if f"seq({name})" in ts else v
    return None


def synth_args(schema):
    """One value per formal input (two for a variadic one), required attributes only. -> (args, attrs) | None"""
    import onnx
    from onnx import helper
    from onnx.defs import OpSchema

    tc = {c.type_param_str: list(c.allowed_type_strs) for c in schema.type_constraints}
    args = []
    for i, inp in enumerate(schema.inputs):
        v = _value_for(tc.get(inp.type_str, [inp.type_str]), i)
        if v is None:
            return None
        args.append(v)
        if inp.option == OpSchema.FormalParameterOption.Variadic:
            args.append(_value_for(tc.get(inp.type_str, [inp.type_str]), i + 1))
    attrs = {}
    T = OpSchema.AttrType
    for name, a in schema.attributes.items():
        if not a.required:
            continue
        if a.type == T.INT:
            attrs[name] = 1
        elif a.type == T.FLOAT:
            attrs[name] = 1.0
        elif a.type == T.STRING:
            attrs[name] = "s"
        elif a.type == T.INTS:
            attrs[name] = [1, 1]
        elif a.type == T.FLOATS:
            attrs[name] = [1.0]
        elif a.type == T.STRINGS:
            attrs[name] = ["a"]
        elif a.type == T.TENSOR:
            attrs[name] = onnx.numpy_helper.from_array(np.zeros((1,), np.float32))
        elif a.type == T.GRAPH:
            x = helper.make_tensor_value_info("gx", onnx.TensorProto.FLOAT, None)
            attrs[name] = helper.make_graph([helper.make_node("Identity", ["gx"], ["gy"])], "g", [x],
                                            [helper.make_tensor_value_info("gy", onnx.TensorProto.FLOAT, None)])
        elif a.type == T.TYPE_PROTO:
            attrs[name] = helper.make_tensor_type_proto(onnx.TensorProto.FLOAT, None)
        else:
            return None
    return args, attrs


# ------------------------------------------------------------------ value observation: eager vs bare node
def _f(*shape, seed=0):
    r = np.random.default_rng(seed)
    return (r.standard_normal(shape) * 2).astype(np.float32)


def _i64(*v):
    return np.array(v, np.int64)


def _cast_to(schema):
    import onnx

    return "INT32" if schema.attributes["to"].type == onnx.defs.OpSchema.AttrType.STRING else int(onnx.TensorProto.INT32)


class _TA:
    """A TENSOR attribute value and the way the caller spells it in the eager call: 'proto' (TensorProto), 'ndarray',
    'npscalar' (rank 0 only) or 'tensor' (an eager onnxscript Tensor, e.g. the result of a previous eager op).  The bare
    node always carries numpy_helper.from_array(arr): element type and payload must arrive unchanged."""

    def __init__(self, arr, form):
        self.arr, self.form = np.asarray(arr), form

    def proto(self):
        import onnx

        return onnx.numpy_helper.from_array(self.arr, "value")

    def eager(self):
        if self.form == "proto":
            return self.proto()
        if self.form == "npscalar":
            return self.arr[()]
        if self.form == "tensor":
            from onnxscript import tensor

            return tensor.Tensor(self.arr)
        return self.arr

    def __repr__(self):
        return f"<{self.arr.dtype}{list(self.arr.shape)} as {self.form}>"


def _E(inputs, nout=1, op=None, domain="", **attrs):
    return {"inputs": inputs, "nout": nout, "op": op, "domain": domain, "attrs": attrs}


_IMG = lambda: [_f(1, 1, 4, 4)]  # noqa: E731
_X34 = lambda: [_f(3, 4)]  # noqa: E731
_X234 = lambda: [_f(2, 3, 4)]  # noqa: E731
_BIN = lambda: [_f(3, 4), _f(4, seed=1)]  # noqa: E731
_BINSAME = lambda: [_f(3, 4), _f(3, 4, seed=1)]  # noqa: E731
_VAR3 = lambda: [_f(3), _f(3, seed=1), _f(3, seed=2)]  # noqa: E731
_VAR1 = lambda: [_f(3)]  # noqa: E731

# label -> entry.  `attrs` are *candidates*: a form passes those the schema of that version has (by name); a value
# may be a callable(schema).  Legacy attribute spellings (Pad-1 `paddings`, Reshape-1 `shape`, Clip-6 `min`/`max`,
# Squeeze-1 `axes`, ...) sit next to the modern inputs: inputs are cut to the number of formals of that version.
EXEC_TABLE = {
    "Gemm": _E(lambda: [_f(3, 4), _f(4, 5, seed=1), _f(5, seed=2)], alpha=0.5, beta=2.0, broadcast=1),
    "Gemm_fullC": _E(lambda: [_f(3, 4), _f(4, 5, seed=1), _f(3, 5, seed=2)], op="Gemm", alpha=0.5, beta=2.0),
    "LeakyRelu": _E(_X34, alpha=0.3),
    "Elu": _E(_X34, alpha=0.7),
    "Selu": _E(_X34, alpha=1.5, gamma=1.2),
    "HardSigmoid": _E(_X34, alpha=0.3, beta=0.4),
    "Softmax": _E(_X234, axis=0),
    "LogSoftmax": _E(_X234, axis=0),
    "Hardmax": _E(_X234, axis=0),
    "Flatten": _E(_X234, axis=2),
    "ArgMax": _E(_X234, axis=1, keepdims=0, select_last_index=1),
    "ArgMin": _E(_X234, axis=1, keepdims=0, select_last_index=1),
    "ReduceSum": _E(_X234, keepdims=0, axes=[1]),
    "ReduceMean": _E(_X234, keepdims=0, axes=[1]),
    "ReduceMax": _E(_X234, keepdims=0, axes=[1]),
    "ReduceL2": _E(_X234, keepdims=0, axes=[1]),
    "ReduceLogSumExp": _E(_X234, keepdims=0, axes=[2]),
    "ReduceProd": _E(lambda: [_f(2, 3)], keepdims=0, axes=[0]),
    "Gather": _E(lambda: [_f(3, 4), _i64(2, 0)], axis=1),
    "GatherElements": _E(lambda: [_f(3, 4), np.array([[2, 0, 1, 1]], np.int64)], axis=1),
    "TopK": _E(lambda: [_f(3, 5), _i64(2)], nout=2, k=2, axis=0, largest=0),
    "CumSum": _E(lambda: [_f(3, 4), np.array(1, np.int64)], exclusive=1, reverse=1),
    "Transpose": _E(_X234, perm=[2, 0, 1]),
    "Shape": _E(_X234, start=1, end=-1),
    "Trilu": _E(lambda: [_f(4, 4)], upper=0),
    "IsInf": _E(lambda: [np.array([1.0, np.inf, -np.inf, np.nan], np.float32)], detect_negative=0),
    "OneHot": _E(lambda: [_i64(0, 2, 1), np.array(3, np.int64), np.array([0, 1], np.float32)], axis=0),
    "ThresholdedRelu": _E(_X34, alpha=0.5),
    "Celu": _E(_X34, alpha=2.0),
    "Shrink": _E(_X34, bias=0.1, lambd=0.3),
    "LpNormalization": _E(_X34, axis=0, p=1),
    "MeanVarianceNormalization": _E(lambda: [_f(2, 3, 4, 4)], axes=[0, 1]),
    "Mod": _E(lambda: [_i64(5, -5, 7), _i64(3, 3, -4)], fmod=1),
    "Pad": _E(lambda: [_f(3, 4), _i64(1, 0, 0, 2)], mode="reflect", paddings=[1, 0, 0, 2], pads=[1, 0, 0, 2]),
    "Pad_value": _E(lambda: [_f(3, 4), _i64(1, 0, 0, 2)], op="Pad", value=1.5, paddings=[1, 0, 0, 2], pads=[1, 0, 0, 2]),
    "InstanceNormalization": _E(lambda: [_f(2, 3, 4), _f(3, seed=1), _f(3, seed=2)], epsilon=0.1),
    "LayerNormalization": _E(lambda: [_f(2, 3, 4), _f(4, seed=1), _f(4, seed=2)], epsilon=0.1),
    "RMSNormalization": _E(lambda: [_f(2, 3, 4), _f(4, seed=1)], epsilon=0.1),
    "LRN": _E(lambda: [_f(1, 3, 4, 4)], size=3, alpha=0.001, beta=0.5, bias=2.0),
    "Split": _E(lambda: [_f(4, 6)], nout=2, axis=1, split=[2, 4], num_outputs=2),
    "Squeeze": _E(lambda: [_f(1, 3, 1)], axes=[0]),
    "Unsqueeze": _E(lambda: [_f(3, 4), _i64(0)], axes=[0]),
    "ScatterElements": _E(lambda: [_f(3, 3), np.array([[1, 0, 2]], np.int64), _f(1, 3, seed=3)], axis=1, reduction="add"),
    "ScatterND": _E(lambda: [_f(4, 3), np.array([[1], [3]], np.int64), _f(2, 3, seed=3)], reduction="add"),
    "DepthToSpace": _E(lambda: [_f(1, 8, 2, 3)], blocksize=2, mode="CRD"),
    "SpaceToDepth": _E(lambda: [_f(1, 2, 4, 6)], blocksize=2),
    "EyeLike": _E(_X34, k=1),
    "Unique": _E(lambda: [_i64(2, 1, 1, 3, 4, 3)], nout=4, sorted=0),
    "NonMaxSuppression": _E(lambda: [np.array([[[0, 0, 1, 1], [0, 0.1, 1, 1.1], [0, 10, 1, 11]]], np.float32),
                                     np.array([[[0.9, 0.75, 0.6]]], np.float32), _i64(3),
                                     np.array([0.5], np.float32), np.array([0.0], np.float32)], center_point_box=1),
    "QuantizeLinear": _E(lambda: [_f(3, 4), np.array(0.5, np.float32), np.array(3, np.uint8)]),
    "DequantizeLinear": _E(lambda: [np.arange(12, dtype=np.uint8).reshape(3, 4), np.array(0.5, np.float32), np.array(3, np.uint8)]),
    "MaxPool": _E(_IMG, kernel_shape=[2, 2], strides=[2, 2], pads=[1, 1, 1, 1]),
    "AveragePool": _E(_IMG, kernel_shape=[2, 2], pads=[1, 1, 1, 1], count_include_pad=1),
    "AveragePool_pads": _E(_IMG, op="AveragePool", kernel_shape=[2, 2], pads=[1, 1, 1, 1]),
    "Conv": _E(lambda: [_f(1, 1, 4, 4), _f(1, 1, 2, 2, seed=1)], pads=[1, 1, 1, 1], strides=[2, 2]),
    "ConvTranspose": _E(lambda: [_f(1, 1, 3, 3), _f(1, 1, 2, 2, seed=1)], strides=[2, 2]),
    "BatchNormalization": _E(lambda: [_f(2, 3, 4), _f(3, seed=1), _f(3, seed=2), _f(3, seed=3), np.abs(_f(3, seed=4))],
                             epsilon=0.1, is_test=1, consumed_inputs=[0, 0, 0, 1, 1]),
    "Clip": _E(lambda: [_f(3, 4), np.array(-1.0, np.float32), np.array(1.0, np.float32)], min=-1.0, max=1.0),
    "Clip_default": _E(_X34, op="Clip"),
    "GlobalLpPool": _E(lambda: [_f(1, 2, 3, 3)], p=1),
    "ReverseSequence": _E(lambda: [_f(4, 3), _i64(1, 2, 4)]),
    "Compress": _E(lambda: [_f(3, 4), np.array([True, False, True])], axis=0),
    "Concat": _E(lambda: [_f(2, 3), _f(2, 3, seed=1)], axis=0),
    "Concat_one": _E(lambda: [_f(2, 3)], op="Concat", axis=0),
    "Einsum": _E(lambda: [_f(2, 3), _f(3, 4, seed=1)], equation="ij,jk->ik"),
    "GatherND": _E(lambda: [_f(2, 3, 4), np.array([[0, 1], [1, 2]], np.int64)], batch_dims=0),
    "Range": _E(lambda: [np.array(1, np.int64), np.array(9, np.int64), np.array(2, np.int64)]),
    "RoiAlign": _E(lambda: [_f(1, 2, 6, 6), np.array([[0, 0, 4, 4], [1, 1, 5, 5]], np.float32), _i64(0, 0)],
                   mode="max", output_height=2, spatial_scale=0.5),
    "GridSample": _E(lambda: [_f(1, 2, 4, 4), (np.random.default_rng(5).random((1, 3, 3, 2)) * 2 - 1).astype(np.float32)],
                     align_corners=1, padding_mode="border"),
    "Dropout": _E(_X34, nout=1, is_test=1, ratio=0.3),
    "Gelu": _E(_X34, approximate="tanh"),
    "Mish": _E(_X34),
    "HardSwish": _E(_X34),
    "Softplus": _E(_X34),
    "CastLike": _E(lambda: [_f(3, 4), np.array(1, np.int32)]),
    "Cast": _E(_X34, to=_cast_to),
    "IsNaN": _E(lambda: [np.array([1.0, np.nan], np.float32)]),
    "Det": _E(lambda: [_f(3, 3)]),
    "AffineGrid": _E(lambda: [_f(1, 2, 3), _i64(1, 1, 3, 3)], align_corners=1),
    "Size": _E(lambda: [_f(2, 3)]),
    "NonZero": _E(lambda: [np.array([[1, 0], [0, 2]], np.float32)]),
    "Tile": _E(lambda: [_f(2, 3), _i64(2, 1)]),
    "Where": _E(lambda: [np.array([True, False, True]), _f(3), _f(3, seed=1)]),
    "MatMulInteger": _E(lambda: [np.arange(6, dtype=np.uint8).reshape(2, 3), np.arange(6, dtype=np.uint8).reshape(3, 2)]),
    "Swish": _E(_X34, alpha=0.5),
    "Reshape": _E(lambda: [_f(3, 4), _i64(4, 3)], shape=[4, 3]),
    "Slice": _E(lambda: [_f(3, 4), _i64(0, 1), _i64(2, 3), _i64(0, 1)], starts=[0, 1], ends=[2, 3], axes=[0, 1]),
    "Upsample": _E(lambda: [_f(1, 1, 2, 2), np.array([1, 1, 2, 2], np.float32)], height_scale=2.0, width_scale=2.0,
                   scales=[1.0, 1.0, 2.0, 2.0]),
    "PRelu": _E(lambda: [_f(3, 4), _f(3, 4, seed=1)]),
    "Add": _E(_BIN, broadcast=1),
    "Add_same": _E(_BINSAME, op="Add"),
    "Sub": _E(_BIN, broadcast=1),
    "Mul": _E(_BIN, broadcast=1),
    "Div": _E(_BIN, broadcast=1),
    "Pow": _E(lambda: [np.abs(_f(3, 4)) + 0.5, _f(4, seed=1)], broadcast=1),
    "Sum": _E(_VAR3),
    "Max": _E(_VAR3),
    "Min": _E(_VAR3),
    "Mean": _E(_VAR3),
    "Sum_one": _E(_VAR1, op="Sum"),
    "Max_one": _E(_VAR1, op="Max"),
    "Min_one": _E(_VAR1, op="Min"),
    "Mean_one": _E(_VAR1, op="Mean"),
    "Relu": _E(_X34),
    "Neg": _E(_X34),
    "Abs": _E(_X34),
    "Sigmoid": _E(_X34),
    "Tanh": _E(_X34),
    "Floor": _E(_X34),
    "Exp": _E(_X34),
    "Identity": _E(_X34),
    "MatMul": _E(lambda: [_f(3, 4), _f(4, 2, seed=1)]),
    "Expand": _E(lambda: [_f(3, 1), _i64(3, 4)]),
    "Equal": _E(lambda: [_i64(1, 2, 3), _i64(1, 5, 3)], broadcast=0),
    "Less": _E(lambda: [_f(3), _f(3, seed=1)], broadcast=0),
    "And": _E(lambda: [np.array([True, False, True]), np.array([True, True, False])], broadcast=0),
    "ConstantOfShape": _E(lambda: [_i64(2, 3)]),
    "Constant_value_float64_proto": _E(lambda: [], op="Constant", value=_TA(np.array([0.1, -2.5, 1e-9], dtype=np.float64), "proto")),
    "Constant_value_float64_ndarray": _E(lambda: [], op="Constant", value=_TA(np.array([0.1, -2.5, 1e-9], dtype=np.float64), "ndarray")),
    "Constant_value_float64_tensor": _E(lambda: [], op="Constant", value=_TA(np.array([0.1, -2.5, 1e-9], dtype=np.float64), "tensor")),
    "Constant_value_float64_rank0_npscalar": _E(lambda: [], op="Constant", value=_TA(np.array(0.1, dtype=np.float64), "npscalar")),
    "Constant_value_float64_rank0_ndarray": _E(lambda: [], op="Constant", value=_TA(np.array(0.1, dtype=np.float64), "ndarray")),
    "ConstantOfShape_value_float64_proto": _E(lambda: [_i64(2, 3)], op="ConstantOfShape", value=_TA(np.array([0.1], dtype=np.float64), "proto")),
    "ConstantOfShape_value_float64_ndarray": _E(lambda: [_i64(2, 3)], op="ConstantOfShape", value=_TA(np.array([0.1], dtype=np.float64), "ndarray")),
    "ConstantOfShape_value_float64_tensor": _E(lambda: [_i64(2, 3)], op="ConstantOfShape", value=_TA(np.array([0.1], dtype=np.float64), "tensor")),
    "Constant_value_float16_proto": _E(lambda: [], op="Constant", value=_TA(np.array([0.1, -2.5, 3.0], dtype=np.float16), "proto")),
    "Constant_value_float16_ndarray": _E(lambda: [], op="Constant", value=_TA(np.array([0.1, -2.5, 3.0], dtype=np.float16), "ndarray")),
    "Constant_value_float16_tensor": _E(lambda: [], op="Constant", value=_TA(np.array([0.1, -2.5, 3.0], dtype=np.float16), "tensor")),
    "Constant_value_float16_rank0_npscalar": _E(lambda: [], op="Constant", value=_TA(np.array(0.1, dtype=np.float16), "npscalar")),
    "Constant_value_float16_rank0_ndarray": _E(lambda: [], op="Constant", value=_TA(np.array(0.1, dtype=np.float16), "ndarray")),
    "ConstantOfShape_value_float16_proto": _E(lambda: [_i64(2, 3)], op="ConstantOfShape", value=_TA(np.array([0.1], dtype=np.float16), "proto")),
    "ConstantOfShape_value_float16_ndarray": _E(lambda: [_i64(2, 3)], op="ConstantOfShape", value=_TA(np.array([0.1], dtype=np.float16), "ndarray")),
    "ConstantOfShape_value_float16_tensor": _E(lambda: [_i64(2, 3)], op="ConstantOfShape", value=_TA(np.array([0.1], dtype=np.float16), "tensor")),
    "Constant_value_float32_proto": _E(lambda: [], op="Constant", value=_TA(np.array([0.1, -2.5, 3.0], dtype=np.float32), "proto")),
    "Constant_value_float32_ndarray": _E(lambda: [], op="Constant", value=_TA(np.array([0.1, -2.5, 3.0], dtype=np.float32), "ndarray")),
    "Constant_value_float32_tensor": _E(lambda: [], op="Constant", value=_TA(np.array([0.1, -2.5, 3.0], dtype=np.float32), "tensor")),
    "Constant_value_float32_rank0_npscalar": _E(lambda: [], op="Constant", value=_TA(np.array(0.1, dtype=np.float32), "npscalar")),
    "Constant_value_float32_rank0_ndarray": _E(lambda: [], op="Constant", value=_TA(np.array(0.1, dtype=np.float32), "ndarray")),
    "ConstantOfShape_value_float32_proto": _E(lambda: [_i64(2, 3)], op="ConstantOfShape", value=_TA(np.array([0.1], dtype=np.float32), "proto")),
    "ConstantOfShape_value_float32_ndarray": _E(lambda: [_i64(2, 3)], op="ConstantOfShape", value=_TA(np.array([0.1], dtype=np.float32), "ndarray")),
    "ConstantOfShape_value_float32_tensor": _E(lambda: [_i64(2, 3)], op="ConstantOfShape", value=_TA(np.array([0.1], dtype=np.float32), "tensor")),
    "Constant_value_int32_proto": _E(lambda: [], op="Constant", value=_TA(np.array([1, -2, 300], dtype=np.int32), "proto")),
    "Constant_value_int32_ndarray": _E(lambda: [], op="Constant", value=_TA(np.array([1, -2, 300], dtype=np.int32), "ndarray")),
    "Constant_value_int32_tensor": _E(lambda: [], op="Constant", value=_TA(np.array([1, -2, 300], dtype=np.int32), "tensor")),
    "Constant_value_int32_rank0_npscalar": _E(lambda: [], op="Constant", value=_TA(np.array(1, dtype=np.int32), "npscalar")),
    "Constant_value_int32_rank0_ndarray": _E(lambda: [], op="Constant", value=_TA(np.array(1, dtype=np.int32), "ndarray")),
    "ConstantOfShape_value_int32_proto": _E(lambda: [_i64(2, 3)], op="ConstantOfShape", value=_TA(np.array([1], dtype=np.int32), "proto")),
    "ConstantOfShape_value_int32_ndarray": _E(lambda: [_i64(2, 3)], op="ConstantOfShape", value=_TA(np.array([1], dtype=np.int32), "ndarray")),
    "ConstantOfShape_value_int32_tensor": _E(lambda: [_i64(2, 3)], op="ConstantOfShape", value=_TA(np.array([1], dtype=np.int32), "tensor")),
    "Constant_value_int64_proto": _E(lambda: [], op="Constant", value=_TA(np.array([1, -2, 2**40], dtype=np.int64), "proto")),
    "Constant_value_int64_ndarray": _E(lambda: [], op="Constant", value=_TA(np.array([1, -2, 2**40], dtype=np.int64), "ndarray")),
    "Constant_value_int64_tensor": _E(lambda: [], op="Constant", value=_TA(np.array([1, -2, 2**40], dtype=np.int64), "tensor")),
    "Constant_value_int64_rank0_npscalar": _E(lambda: [], op="Constant", value=_TA(np.array(1, dtype=np.int64), "npscalar")),
    "Constant_value_int64_rank0_ndarray": _E(lambda: [], op="Constant", value=_TA(np.array(1, dtype=np.int64), "ndarray")),
    "Constant_value_int8_proto": _E(lambda: [], op="Constant", value=_TA(np.array([1, -2, 100], dtype=np.int8), "proto")),
    "Constant_value_int8_ndarray": _E(lambda: [], op="Constant", value=_TA(np.array([1, -2, 100], dtype=np.int8), "ndarray")),
    "Constant_value_int8_tensor": _E(lambda: [], op="Constant", value=_TA(np.array([1, -2, 100], dtype=np.int8), "tensor")),
    "Constant_value_int8_rank0_npscalar": _E(lambda: [], op="Constant", value=_TA(np.array(1, dtype=np.int8), "npscalar")),
    "Constant_value_int8_rank0_ndarray": _E(lambda: [], op="Constant", value=_TA(np.array(1, dtype=np.int8), "ndarray")),
    "Constant_value_uint8_proto": _E(lambda: [], op="Constant", value=_TA(np.array([1, 2, 200], dtype=np.uint8), "proto")),
    "Constant_value_uint8_ndarray": _E(lambda: [], op="Constant", value=_TA(np.array([1, 2, 200], dtype=np.uint8), "ndarray")),
    "Constant_value_uint8_tensor": _E(lambda: [], op="Constant", value=_TA(np.array([1, 2, 200], dtype=np.uint8), "tensor")),
    "Constant_value_uint8_rank0_npscalar": _E(lambda: [], op="Constant", value=_TA(np.array(1, dtype=np.uint8), "npscalar")),
    "Constant_value_uint8_rank0_ndarray": _E(lambda: [], op="Constant", value=_TA(np.array(1, dtype=np.uint8), "ndarray")),
    "ConstantOfShape_value_uint8_proto": _E(lambda: [_i64(2, 3)], op="ConstantOfShape", value=_TA(np.array([1], dtype=np.uint8), "proto")),
    "ConstantOfShape_value_uint8_ndarray": _E(lambda: [_i64(2, 3)], op="ConstantOfShape", value=_TA(np.array([1], dtype=np.uint8), "ndarray")),
    "ConstantOfShape_value_uint8_tensor": _E(lambda: [_i64(2, 3)], op="ConstantOfShape", value=_TA(np.array([1], dtype=np.uint8), "tensor")),
    "Constant_value_int16_proto": _E(lambda: [], op="Constant", value=_TA(np.array([1, -2, 300], dtype=np.int16), "proto")),
    "Constant_value_int16_ndarray": _E(lambda: [], op="Constant", value=_TA(np.array([1, -2, 300], dtype=np.int16), "ndarray")),
    "Constant_value_int16_tensor": _E(lambda: [], op="Constant", value=_TA(np.array([1, -2, 300], dtype=np.int16), "tensor")),
    "Constant_value_int16_rank0_npscalar": _E(lambda: [], op="Constant", value=_TA(np.array(1, dtype=np.int16), "npscalar")),
    "Constant_value_int16_rank0_ndarray": _E(lambda: [], op="Constant", value=_TA(np.array(1, dtype=np.int16), "ndarray")),
    "Constant_value_bool_proto": _E(lambda: [], op="Constant", value=_TA(np.array([True, False, True], dtype=np.bool_), "proto")),
    "Constant_value_bool_ndarray": _E(lambda: [], op="Constant", value=_TA(np.array([True, False, True], dtype=np.bool_), "ndarray")),
    "Constant_value_bool_tensor": _E(lambda: [], op="Constant", value=_TA(np.array([True, False, True], dtype=np.bool_), "tensor")),
    "Constant_value_bool_rank0_npscalar": _E(lambda: [], op="Constant", value=_TA(np.array(True, dtype=np.bool_), "npscalar")),
    "Constant_value_bool_rank0_ndarray": _E(lambda: [], op="Constant", value=_TA(np.array(True, dtype=np.bool_), "ndarray")),
    "ConstantOfShape_value_bool_proto": _E(lambda: [_i64(2, 3)], op="ConstantOfShape", value=_TA(np.array([True], dtype=np.bool_), "proto")),
    "ConstantOfShape_value_bool_ndarray": _E(lambda: [_i64(2, 3)], op="ConstantOfShape", value=_TA(np.array([True], dtype=np.bool_), "ndarray")),
    "ConstantOfShape_value_bool_tensor": _E(lambda: [_i64(2, 3)], op="ConstantOfShape", value=_TA(np.array([True], dtype=np.bool_), "tensor")),
    # ai.onnx.ml
    "ml.Binarizer": _E(_X34, op="Binarizer", domain="ai.onnx.ml", threshold=0.5),
    "ml.Scaler": _E(_X34, op="Scaler", domain="ai.onnx.ml", offset=[1.0], scale=[2.0]),
    "ml.Normalizer": _E(_X34, op="Normalizer", domain="ai.onnx.ml", norm="L1"),
    "ml.ArrayFeatureExtractor": _E(lambda: [_f(3, 4), _i64(2, 0)], op="ArrayFeatureExtractor", domain="ai.onnx.ml"),
    "ml.Imputer": _E(lambda: [np.array([[1.0, 0.0, 3.0]], np.float32)], op="Imputer", domain="ai.onnx.ml",
                     imputed_value_floats=[7.0], replaced_value_float=0.0),
    "ml.OneHotEncoder": _E(lambda: [_i64(1, 3, 2, 9)], op="OneHotEncoder", domain="ai.onnx.ml", cats_int64s=[1, 2, 3], zeros=0),
    "ml.FeatureVectorizer": _E(lambda: [_f(2, 2), _f(2, 3, seed=1)], op="FeatureVectorizer", domain="ai.onnx.ml",
                               inputdimensions=[2, 3]),
    "ml.FeatureVectorizer_one": _E(lambda: [_f(2, 2)], op="FeatureVectorizer", domain="ai.onnx.ml", inputdimensions=[2]),
    "ml.LinearRegressor": _E(lambda: [_f(2, 3)], op="LinearRegressor", domain="ai.onnx.ml",
                             coefficients=[0.5, -1.0, 2.0], intercepts=[0.25], targets=1),
    "ml.LabelEncoder": _E(lambda: [_i64(1, 2, 7)], op="LabelEncoder", domain="ai.onnx.ml",
                          keys_int64s=[1, 2], values_int64s=[10, 20], default_int64=-5),
}
for _k, _e in EXEC_TABLE.items():
    if _e["op"] is None:
        _e["op"] = _k

MAX_VERSION = {"": 23, "ai.onnx.ml": 5}


def exec_specs(tier, seed):
    """quick: every distinct schema version of every table operator through the class N = since_version (that every
    later class resolves to the same schema until the next revision is the recorder's exhaustive check);
    thorough: every class version."""
    import onnx

    hist = {}
    for s in onnx.defs.get_all_schemas_with_history():
        hist.setdefault((s.domain, s.name), set()).add(s.since_version)
    out = []
    for label in sorted(EXEC_TABLE):
        e = EXEC_TABLE[label]
        dom, op = e["domain"], e["op"]
        top = MAX_VERSION[dom]
        svs = sorted(v for v in hist.get((dom, op), ()) if v <= top)
        if not svs:
            continue
        if tier == "thorough":
            vers = list(range(svs[0], top + 1))
        else:
            vers = svs
        for v in vers:
            out.append({"kind": "exec", "op": label, "version": v, "seed": seed})
    return out


def _bare_model(op, domain, version, inputs, nout, attrs):
    from onnx import helper

    in_names = [f"i{k}" for k in range(len(inputs))]
    out_names = [f"o{k}" for k in range(nout)]
    node = helper.make_node(op, in_names, out_names, domain=domain, **attrs)
    g = helper.make_graph([node], "g", [helper.make_tensor_value_info(n, helper.np_dtype_to_tensor_dtype(x.dtype), list(x.shape))
                                        for n, x in zip(in_names, inputs)],
                          [helper.make_empty_tensor_value_info(n) for n in out_names])
    imports = [helper.make_opsetid(domain, version)]
    if domain != "":
        imports.append(helper.make_opsetid("", 18))
    return helper.make_model(g, opset_imports=imports, ir_version=10), dict(zip(in_names, inputs))


def _run_bare(evname, model, feeds):
    from . import runner

    if evname == "ort":
        return runner.ort_run(model, feeds)
    st, out = runner.ref_run(model, feeds)
    if st != "ok" and ("No implementation" in str(out) or "NotImplemented" in str(out)):
        return "not_implemented", out
    return st, out


def _with_defaults(schema, attrs):
    """attrs + the onnx.defs default of every attribute not given (the same node by the ONNX spec)."""
    import onnx
    from onnx import helper

    out = dict(attrs)
    for name, a in schema.attributes.items():
        if name in out or a.default_value is None or a.default_value.type == onnx.AttributeProto.UNDEFINED:
            continue
        v = helper.get_attribute_value(a.default_value)
        if isinstance(v, bytes):
            v = v.decode()
        elif isinstance(v, (list, tuple)):
            v = [x.decode() if isinstance(x, bytes) else x for x in v]
        out[name] = v
    return out


def _nondet(op, schema, attrs):
    if op == "Dropout":
        if "is_test" in schema.attributes:
            return not attrs.get("is_test")
        return False   # Dropout >= 7 without training_mode is the identity
    return op in ("Bernoulli", "RandomNormalLike", "RandomUniformLike", "Multinomial")


def check_exec(label, version, seed, evnames=("ort", "ref"), literal_on=("ort", "ref")):
    """Eager call (each shipped evaluator) vs a bare NodeProto in a model importing opset N on the same runtime:
    form `minimal` = every optional attribute omitted, form `explicit` = non-default attribute values,
    form `literal` = tensor inputs given as Python lists, static method vs dynamic Opset[...] lookup."""
    import keyword

    import onnx

    from onnxscript import values

    from . import c17, compare, runner

    e = EXEC_TABLE[label]
    op, domain = e["op"], e["domain"]
    inst = c17._all_opsets().get((domain, version))
    try:
        schema = onnx.defs.get_schema(op, version, domain)
    except Exception:
        schema = None
    if inst is None or schema is None or schema.deprecated or not hasattr(type(inst), op):
        return {"status": "no_schema", "events": {"exec_no_schema": 1}}
    inputs = e["inputs"]()
    if not (schema.inputs and schema.inputs[-1].option == onnx.defs.OpSchema.FormalParameterOption.Variadic):
        inputs = inputs[:len(schema.inputs)]
    V = onnx.defs.OpSchema.FormalParameterOption.Variadic
    nout = e["nout"] if (schema.outputs and schema.outputs[-1].option == V) else min(e["nout"], len(schema.outputs))
    n_required = max([i + 1 for i, s in enumerate(schema.inputs) if s.option == onnx.defs.OpSchema.FormalParameterOption.Single] or [0])
    if len(inputs) < n_required:
        return {"status": "inputs_unfit", "events": {"exec_inputs_unfit": 1}}
    cand = {k: (v(schema) if callable(v) else v) for k, v in e["attrs"].items() if k in schema.attributes}
    required = {k for k, a in schema.attributes.items() if a.required}
    if required - set(cand):
        return {"status": "skipped_required_attr", "events": {"exec_skipped_required_attr": 1}}
    def bare_attrs(a):
        return {k: (v.proto() if isinstance(v, _TA) else v) for k, v in a.items()}

    def eager_attrs(a):
        return {k: (v.eager() if isinstance(v, _TA) else v) for k, v in a.items()}

    forms = [("minimal", {k: v for k, v in cand.items() if k in required})]
    if set(cand) - required:
        forms.append(("explicit", dict(cand)))
    meth = getattr(inst, op)
    dyn = values.Opset(domain, version)[op]
    viol, events, sigs = [], {}, []
    legacy = domain == "" and schema.since_version < 13

    def hit(k, n=1):
        events[k] = events.get(k, 0) + n

    def py(attrs):
        return {(k + "_" if keyword.iskeyword(k) else k): v for k, v in attrs.items()}

    def unpack(got):
        got = got if isinstance(got, (tuple, list)) and not isinstance(got, np.ndarray) else [got]
        return [runner.as_np(x) for x in got]

    ort_bare = {}
    for evname in evnames:
        for form, attrs in forms:
            # ORT (deciding): the node without the omitted attributes.  onnx.reference mishandles some omitted
            # attributes (it picks Softmax's axis default regardless of the version) and some explicit ones, so under
            # the reference *evaluator* the twin carries the onnx.defs defaults explicitly — equivalent by the ONNX
            # spec, and the same node the eager call must produce.
            # Precondition for both: ORT accepts the bare node (or merely lacks a kernel for it).
            fk = (form,)
            if fk not in ort_bare:
                model, feeds = _bare_model(op, domain, version, inputs, nout, bare_attrs(attrs))
                ort_bare[fk] = _run_bare("ort", model, feeds)
            if evname == "ort":
                st, bare = ort_bare[fk]
            elif ort_bare[fk][0] not in ("ok", "not_implemented"):
                st, bare = "invalid_on_ort", ort_bare[fk][1]
            else:
                model, feeds = _bare_model(op, domain, version, inputs, nout, _with_defaults(schema, bare_attrs(attrs)))
                st, bare = _run_bare(evname, model, feeds)
            # --- eager call, always: the model observation does not need the runtime to have a kernel
            est, got, models = eager_call(meth, inputs, py(eager_attrs(attrs)), evname)
            if models:
                hit("eager_models_seen")
                hit(f"eager_models_seen_{evname}")
                for kind, txt in judge_model(models[0], schema, attrs, inputs):
                    viol.append({"key": f"eager_model;{evname};{domain};{kind}",
                                 "what": f"opset{version}.{op} [{form}] on {evname}: {txt}",
                                 "detail": {"version": version, "op": op, "form": form}})
            else:
                hit("eager_model_unobserved")
            if st != "ok":
                hit("exec_bare_unrunnable")
                hit(f"exec_bare_{st}_{evname}")
                continue
            if est != "ok":
                msg = str(got)
                if runner.classify(msg) == "not_implemented" or "No implementation" in msg:
                    hit("exec_eager_not_implemented")
                elif "number of expected outputs" in msg:   # documented eager-mode refusal (output arity unknown)
                    hit("exec_eager_refused")
                else:
                    hit("exec_compared")
                    viol.append({"key": f"exec_eager_fails;{op}" if domain == "" else f"exec_eager_fails;{domain};{op}",
                                 "what": f"opset{version}.{op} eager [{form}, {evname}] raises {msg[:300]} while a bare node "
                                         f"with attributes {attrs} runs", "detail": {"version": version, "form": form, "evaluator": evname}})
                continue
            hit("exec_compared")
            hit(f"exec_compared_{evname}")
            hit(f"exec_compared_{form}")
            if legacy:
                hit("exec_compared_legacy")
            if schema.since_version < 7 and domain == "":
                hit("exec_compared_pre7")
            if domain != "":
                hit("exec_compared_ml")
            sigs.append(f"exec:{domain}:{op}:{schema.since_version}:{form}:{evname}")
            if _nondet(op, schema, attrs):
                hit("exec_nondeterministic_uncompared")
                continue
            g = unpack(got)[:nout]
            d = compare.compare_outputs(g, bare[:len(g)], check_dtype=True)
            if d:
                viol.append({"key": f"exec_mismatch;{op}" if domain == "" else f"exec_mismatch;{domain};{op}",
                             "what": f"opset{version}.{op}({form}: {attrs}) eager on {evname} != bare node in an opset-{version} model: {d}",
                             "detail": {"version": version, "form": form, "evaluator": evname}})
        # --- literal form: Python lists in input positions, static method vs dynamic lookup (same evaluator)
        lit = [x.tolist() if isinstance(x, np.ndarray) and x.ndim >= 1 and x.dtype in (np.float32, np.int64, np.bool_) else x
               for x in inputs]
        if evname in literal_on and any(isinstance(x, list) for x in lit) and not _nondet(op, schema, forms[-1][1]):
            attrs = forms[-1][1]
            s1, a, _ = eager_call(meth, lit, py(attrs), evname)
            s2, b, _ = eager_call(dyn, lit, _with_defaults(schema, attrs), evname)
            hit("literal_static_dynamic")
            if len(lit) == 1 and len(schema.inputs) == 1 and schema.inputs[0].option == V:
                hit("literal_lone_variadic")
            if s1 != s2:
                viol.append({"key": f"static_dynamic_exec;{domain};{op};raises",
                             "what": f"opset{version}.{op}(<python lists>) on {evname}: static method {s1} ({str(a)[:120]}), "
                                     f"dynamic Opset[{op!r}] {s2} ({str(b)[:120]})", "detail": {"version": version}})
            elif s1 == "ok":
                hit("literal_static_dynamic_values")
                d = compare.compare_outputs(unpack(a), unpack(b), check_dtype=True)
                if d:
                    viol.append({"key": f"static_dynamic_exec;{domain};{op};value",
                                 "what": f"opset{version}.{op}(<python lists> {str(lit)[:120]}) on {evname}: static method != dynamic "
                                         f"Opset({domain!r},{version})[{op!r}]: {d}", "detail": {"version": version}})
            else:
                hit("literal_both_refused")
    return {"status": "ok", "viol": viol, "events": events, "nontrivial": bool(sigs), "sig": None,
            "data": {"sigs": sigs},
            "sample": {"exec": op, "domain": domain, "version": version, "since": schema.since_version,
                       "forms": [f for f, _ in forms], "attrs": sorted(cand)}}


# ------------------------------------------------------------------ translation: opsetN.Op in a @script function
_ANN = {"float32": "FLOAT", "int64": "INT64", "bool": "BOOL", "uint8": "UINT8", "int32": "INT32"}
_OPSET_MODULE = {"": "opset{v}", "ai.onnx.ml": "opset_ai_onnx_ml{v}"}


def _literal(v):
    if isinstance(v, (bool, int, float, str)):
        return repr(v)
    if isinstance(v, (list, tuple)) and all(isinstance(x, (int, float, str)) and not isinstance(x, bool) for x in v):
        return repr(list(v))
    return None


def check_translate(domain, version, seed, thorough=False):
    """`opN.X(inputs..., attrs...)` as the whole body of a @script function: the translated model must import
    (domain, N), hold one X node that resolves to get_schema(X, N, domain), carry the given attributes and none of the
    omitted ones unless equal to the schema default, and (ORT) compute what the bare node computes."""
    import importlib.util
    import keyword
    import os
    import sys

    import onnx

    from . import c17, common, compare, runner

    if domain not in _OPSET_MODULE:
        return {"status": "no_translate_domain", "events": {"translate_no_domain": 1}}
    inst = c17._all_opsets().get((domain, version))
    V = onnx.defs.OpSchema.FormalParameterOption.Variadic
    todo, src = [], ["from onnxscript import script, FLOAT, INT64, BOOL, UINT8, INT32",
                     f"from onnxscript.onnx_opset import {_OPSET_MODULE[domain].format(v=version)} as op", ""]
    for label in sorted(EXEC_TABLE):
        e = EXEC_TABLE[label]
        if e["domain"] != domain:
            continue
        try:
            schema = onnx.defs.get_schema(e["op"], version, domain)
        except Exception:
            continue
        if schema.deprecated or not hasattr(type(inst), e["op"]):
            continue
        if not thorough and schema.since_version != version:
            continue
        inputs = e["inputs"]()
        if not (schema.inputs and schema.inputs[-1].option == V):
            inputs = inputs[:len(schema.inputs)]
        n_required = max([i + 1 for i, s in enumerate(schema.inputs) if s.option == onnx.defs.OpSchema.FormalParameterOption.Single] or [0])
        if len(inputs) < n_required or any(str(x.dtype) not in _ANN for x in inputs):
            continue
        nout = e["nout"] if (schema.outputs and schema.outputs[-1].option == V) else min(e["nout"], len(schema.outputs))
        cand = {k: (v(schema) if callable(v) else v) for k, v in e["attrs"].items() if k in schema.attributes}
        required = {k for k, a in schema.attributes.items() if a.required}
        if required - set(cand) or any(_literal(v) is None for v in cand.values()):
            continue
        forms = [("minimal", {k: v for k, v in cand.items() if k in required})]
        if set(cand) - required:
            forms.append(("explicit", dict(cand)))
        for form, attrs in forms:
            fn = f"f{len(todo)}"
            params = ", ".join(f"i{k}: {_ANN[str(x.dtype)]}" + (f"[{', '.join(map(str, x.shape))}]" if x.ndim else "")
                               for k, x in enumerate(inputs))
            call_args = [f"i{k}" for k in range(len(inputs))] + [
                f"{k + '_' if keyword.iskeyword(k) else k}={_literal(v)}" for k, v in attrs.items()]
            outs = ", ".join(f"r{k}" for k in range(nout))
            src += ["@script()", f"def {fn}({params}):", f"    {outs} = op.{e['op']}({', '.join(call_args)})", f"    return {outs}", ""]
            todo.append((fn, label, e["op"], schema, form, attrs, inputs, nout))
    viol, events, sigs = [], {}, []

    def hit(k, n=1):
        events[k] = events.get(k, 0) + n

    if not todo:
        return {"status": "ok", "events": {"translate_empty_class": 1}}
    d = common.scratch_dir("vf-c17-")
    header, bodies = src[:3], [src[3 + 5 * k: 8 + 5 * k] for k in range(len(todo))]

    def load(tag, lines):
        modname = f"c17_translate_{'ml' if domain else 'onnx'}_{version}_{os.getpid()}_{tag}"
        path = os.path.join(d, modname + ".py")
        with open(path, "w") as f:
            f.write("\n".join(lines))
        spec = importlib.util.spec_from_file_location(modname, path)
        mod = importlib.util.module_from_spec(spec)
        sys.modules[modname] = mod
        spec.loader.exec_module(mod)
        return mod

    funcs = {}
    try:
        mod = load("all", src)
        funcs = {t[0]: getattr(mod, t[0]) for t in todo}
    except Exception:
        # @script translates at decoration time; one refused function (Split-1: input and attribute both called
        # `split`) must not hide the rest of the class: one module per function
        hit("translate_module_refused")
        for k, t in enumerate(todo):
            try:
                funcs[t[0]] = getattr(load(t[0], header + bodies[k]), t[0])
            except Exception:
                pass
    for fn, label, op, schema, form, attrs, inputs, nout in todo:
        hit("translate_functions")
        try:
            model = funcs[fn].to_model_proto()
        except Exception:
            hit("translate_refused")
            continue
        if len(model.graph.node) != 1:
            hit("translate_multi_node")
            continue
        hit("translate_models_judged")
        sigs.append(f"translate:{domain}:{op}:{schema.since_version}:{form}")
        for kind, txt in judge_model(model, schema, attrs, inputs):
            viol.append({"key": f"translate_model;{domain};{kind}",
                         "what": f"@script body op.{op}(...) with opset{version} [{form} {attrs}]: {txt}",
                         "detail": {"version": version, "op": op, "form": form}})
        if model.opset_import and not any(_dom(o.domain) == _dom(domain) and o.version == version for o in model.opset_import):
            viol.append({"key": f"translate_model;{domain};import",
                         "what": f"@script function using opset{version}.{op}: model imports "
                                 f"{[(o.domain, o.version) for o in model.opset_import]}, not ({domain!r}, {version})",
                         "detail": {"version": version, "op": op}})
        bare, feeds = _bare_model(op, domain, version, inputs, nout, attrs)
        st, want = runner.ort_run(bare, feeds)
        if st != "ok":
            hit("translate_bare_unrunnable")
            continue
        st, got = runner.ort_run(model, feeds)
        if st != "ok":
            hit("translate_model_unrunnable")
            continue
        hit("translate_compared")
        if _nondet(op, schema, attrs):
            continue
        dd = compare.compare_outputs(list(got)[:nout], want[:nout], check_dtype=True)
        if dd:
            viol.append({"key": f"translate_mismatch;{domain};{op}",
                         "what": f"@script body opset{version}.{op}({form}: {attrs}) translated model != bare node on ORT: {dd}",
                         "detail": {"version": version, "form": form}})
    return {"status": "ok", "viol": viol, "events": events, "nontrivial": bool(sigs), "sig": None, "data": {"sigs": sigs},
            "sample": {"translate": domain, "version": version, "functions": len(todo)}}
