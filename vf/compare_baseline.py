"""python tools_compare_baseline.py <junit.xml>: every test in BASELINE.json's stable_pass must pass in the junit file."""
import json, sys, xml.etree.ElementTree as ET
b = json.load(open('/root/.vp/BASELINE.json'))
sp = set(b['stable_pass'])
res = {}
for tc in ET.parse(sys.argv[1]).iter('testcase'):
    cid = tc.get('classname') + '::' + tc.get('name')
    st = 'pass'
    for ch in tc:
        if ch.tag in ('failure', 'error'):
            st = 'fail'
        elif ch.tag == 'skipped' and st == 'pass':
            st = 'skip'
    if res.get(cid, 'pass') == 'pass':
        res[cid] = st
missing = sorted(s for s in sp if s not in res)
bad = sorted(s for s in sp if s in res and res[s] != 'pass')
print(f"stable_pass={len(sp)} seen={len(res)} missing={len(missing)} not_pass={len(bad)}")
for s in missing[:20]:
    print("MISSING", s)
for s in bad[:40]:
    print("NOTPASS", res[s], s)
sys.exit(1 if missing or bad else 0)
