"""C08 strata, nn group: attention, upsample/resize, 3-d pool/conv/pad, pixel (un)shuffle, grid_sampler, im2col/col2im,
embedding_bag family, losses, bilinear, rnn (gru/lstm), hardtanh_backward, torchvision ops.

Same contract as c08_strata.py: a recipe yields the fixed list of strata of one overload; the seed only picks sizes and
values inside a stratum.  Arguments follow the ATen schema: positional arguments by position (trailing defaults may be
omitted), keyword-only arguments by name.
"""
from __future__ import annotations

from . import c08_core as core
from .c08_gen import is_float
from .c08_strata import S, adm, conv, lead, refl_repl_pad, reg

MY_FAMILIES = []   # family names registered by this file (used by ad-hoc drivers; c08.cases enumerates FAMILIES itself)


def _reg(family, names, recipe, **kw):
    if family not in MY_FAMILIES:
        MY_FAMILIES.append(family)
    reg(family, names, recipe, **kw)


def _fdts(qn, i=0):
    return [d for d in adm(qn, i) if is_float(d)]


# ---------------------------------------------------------------------------------------------
# attention
#
# A shape class fixes the relations between (Hq, Hkv), (L, S), (Dk, Dv); an argument variant fixes mask kind / causal /
# scale / dropout / enable_gqa and which trailing defaults are omitted.  Every relation is its own axis: head counts,
# sequence lengths and head sizes differ independently, so a graph that reuses one tensor's dims for another shows.

_ATT_SHAPES = {
    # name: (Hq/Hkv ratio or 0 = equal, L vs S, Dv vs Dk)
    "eq": (0, "=", "="),
    "L<S": (0, "<", "="),
    "L>S": (0, ">", "="),
    "L=1": (0, "1", "="),
    "S=1": (0, "s1", "="),
    "Dv<Dk": (0, "=", "<"),
    "Dv>Dk": (0, "=", ">"),
    "Dv=1": (0, "=", "1"),
    "L<S-Dv<Dk": (0, "<", "<"),
    "L>S-Dv>Dk": (0, ">", ">"),
    "H=1": (-1, "<", "="),
    "gqa2": (2, "=", "="),
    "gqa3-L<S": (3, "<", "="),
    "gqa2-Dv<Dk": (2, "=", "<"),
    "gqa2-Dv>Dk-L=1": (2, "1", ">"),
    "gqa3-Dv>Dk-L<S": (3, "<", ">"),
    "gqa2-Dv=1": (2, "<", "1"),
    "mqa-Dv<Dk-L>S": (4, ">", "<"),   # Hkv = 1
    "mqa": (4, "=", "="),
    "size0-B": (0, "<", "<"),
    "size0-B-gqa": (2, "<", "<"),
    "size0-B-eq": (0, "<", "="),
}


def _att_dims(g, sc):
    ratio, ls, dd = _ATT_SHAPES[sc]
    r = g.r
    B = 0 if sc.startswith("size0-B") else r.randint(1, 2)
    if ratio == -1:
        hq = hkv = 1
    elif ratio == 0:
        hq = hkv = r.randint(2, 3)
    elif ratio == 4:
        hkv, hq = 1, r.randint(2, 4)
    else:
        hkv = 2            # (Hkv = 1 is its own class: a size-1 head axis broadcasts where a larger one cannot)
        hq = hkv * ratio
    if ls == "=":
        L = S_ = r.randint(2, 5)
    elif ls == "<":
        L = r.randint(2, 3)
        S_ = L + r.randint(1, 3)
    elif ls == ">":
        S_ = r.randint(2, 3)
        L = S_ + r.randint(1, 3)
    elif ls == "1":
        L, S_ = 1, r.randint(2, 5)
    else:
        L, S_ = r.randint(2, 5), 1
    if dd == "=":
        dk = dv = r.choice((2, 4, 8))
    elif dd == "<":
        dk = r.choice((4, 8))
        dv = dk // 2 - r.randint(0, 1)
    elif dd == ">":
        dk = r.choice((2, 4))
        dv = dk + r.choice((1, 2, 4))
    else:
        dk, dv = r.choice((2, 4)), 1
    return B, hq, hkv, L, S_, dk, dv


def _att_qkv(g, sc, dt):
    B, hq, hkv, L, S_, dk, dv = _att_dims(g, sc)
    q = g.t([B, hq, L, dk], dt, "small")
    k = g.t([B, hkv, S_, dk], dt, "small")
    v = g.t([B, hkv, S_, dv], dt, "any")
    return (B, hq, hkv, L, S_, dk, dv), q, k, v


def _att_mask(g, kind, dims, dt):
    """kind: bool-LS | bool-B1LS | bool-11-1S | bool-BHLS | float-LS | float-BHLS | float-B11S | float-neginf | bool-row-masked.
    Every row keeps at least one admitted position except in *-row-masked."""
    B, hq, hkv, L, S_, dk, dv = dims
    torch = g.torch
    base, form = kind.split("-", 1)
    shape = {"LS": [L, S_], "B1LS": [B, 1, L, S_], "11-1S": [1, 1, 1, S_], "BHLS": [B, hq, L, S_], "B11S": [B, 1, 1, S_],
             "neginf": [L, S_], "row-masked": [L, S_], "1S": [1, S_]}[form]
    if base == "bool":
        m = g.t(shape, "bool")
        flat = m.reshape(-1, shape[-1]) if m.numel() else m
        if m.numel():
            for row in flat:
                row[g.r.randrange(shape[-1])] = True
            if form == "row-masked":
                flat[g.r.randrange(flat.shape[0])] = False
        return m
    m = g.t(shape, dt, "small")
    if form == "neginf" and m.numel():
        flat = m.reshape(-1, shape[-1])
        for row in flat:
            if shape[-1] > 1:
                row[g.r.randrange(shape[-1] - 1) + 1] = float("-inf")
    return m


def sdpa(qn):
    """scaled_dot_product_attention(query, key, value, attn_mask=None, dropout_p=0., is_causal=False, *, scale=None, enable_gqa=False)."""
    dts = _fdts(qn)

    def mk(dt, sc, v):
        gqa = sc.startswith(("gqa", "mqa")) or sc.endswith("-gqa")

        def b(g):
            dims, q, k, vv = _att_qkv(g, sc, dt)
            kw = {}
            if gqa or "gqa-flag" in v:
                kw["enable_gqa"] = True
            toks = v.split("+")
            args = [q, k, vv]
            mask = None
            for t in toks:
                if t.startswith(("bool-", "float-")):
                    mask = _att_mask(g, t, dims, dt)
            causal = "causal" in toks
            if "scale" in toks:
                kw["scale"] = g.r.choice((0.5, 0.25, 1.0, 2.0))
            if "scale-int" in toks:
                kw["scale"] = 1
            if "gqa=False" in toks:
                kw["enable_gqa"] = False
            if "scale=None" in toks:
                kw["scale"] = None
            if "dropout" in toks:
                args += [mask, 0.5] + ([causal] if causal else [])
            elif "dropout_p=0" in toks:
                args += [mask, 0.0] + ([causal] if causal or g.r.random() < 0.5 else [])
            elif causal:
                args += [mask, 0.0, True]
            elif mask is not None or "mask=None" in toks:
                args += [mask]
            return args, kw
        return b

    cases = [
        ("eq", "defaults"), ("L<S", "defaults"), ("L>S", "defaults"), ("L=1", "defaults"), ("S=1", "defaults"), ("Dv<Dk", "defaults"),
        ("Dv>Dk", "defaults"), ("Dv=1", "defaults"), ("H=1", "defaults"), ("L>S-Dv>Dk", "mask=None"), ("L<S-Dv<Dk", "dropout_p=0"),
        ("L<S", "bool-LS"), ("Dv<Dk", "bool-B1LS"), ("eq", "bool-11-1S"), ("L>S-Dv>Dk", "bool-BHLS"), ("L<S", "bool-1S"),
        ("L>S", "float-LS"), ("L<S-Dv<Dk", "float-BHLS"), ("Dv>Dk", "float-B11S"), ("eq", "float-neginf"), ("L<S", "bool-row-masked"),
        ("eq", "causal"), ("L<S", "causal"), ("L>S", "causal"), ("Dv<Dk", "causal"), ("L=1", "causal"),
        ("eq", "scale"), ("L<S-Dv<Dk", "scale"), ("L<S", "scale+causal"), ("Dv>Dk", "scale+bool-LS"), ("eq", "scale+float-LS+dropout_p=0"),
        ("eq", "scale-int"), ("L<S", "scale=None+gqa=False"),
        ("eq", "gqa-flag"), ("L<S-Dv<Dk", "gqa-flag+causal"),
        ("gqa2", "defaults"), ("gqa3-L<S", "defaults"), ("gqa2-Dv<Dk", "defaults"), ("gqa2-Dv>Dk-L=1", "defaults"), ("gqa3-Dv>Dk-L<S", "defaults"),
        ("gqa2-Dv=1", "defaults"), ("mqa", "defaults"), ("mqa-Dv<Dk-L>S", "defaults"),
        ("gqa2", "causal"), ("gqa2-Dv<Dk", "causal"), ("gqa3-L<S", "bool-LS"), ("gqa3-Dv>Dk-L<S", "float-BHLS+scale"), ("mqa-Dv<Dk-L>S", "bool-B1LS"),
        ("gqa2-Dv<Dk", "scale+dropout_p=0"),
        ("size0-B", "defaults"), ("size0-B", "causal"), ("size0-B-gqa", "defaults"),
    ]
    for dt in dts:
        for sc, v in (("L<S-Dv<Dk", "defaults"), ("L<S", "causal"), ("Dv>Dk", "bool-LS"), ("L>S", "float-LS"), ("gqa2-Dv<Dk", "defaults"),
                      ("eq", "scale")):
            if dt != "f32":
                yield S(f"{sc}/{v}/{dt}", mk(dt, sc, v), scale=8.0)
    for dt in lead(dts, ("f32",)):
        for sc, v in cases:
            yield S(f"{sc}/{v}/{dt}", mk(dt, sc, v), scale=8.0)
        for sc, v in (("eq", "dropout"), ("gqa2-Dv<Dk", "dropout"), ("L<S", "dropout+causal")):
            yield S(f"{sc}/{v}/{dt}", mk(dt, sc, v), mode="shape_only")


_A = "attention"
_reg(_A, "aten::scaled_dot_product_attention", sdpa)


def sdpa_backend(qn, form):
    """_scaled_dot_product_flash_attention_for_cpu(q, k, v, dropout_p=0., is_causal=False, *, attn_mask=None, scale=None) -> (out, logsumexp)
    _scaled_dot_product_flash_attention(q, k, v, dropout_p=0., is_causal=False, return_debug_mask=False, *, scale=None) -> 9 outputs
    _scaled_dot_product_efficient_attention(q, k, v, attn_bias, compute_log_sumexp, dropout_p=0., is_causal=False, *, scale=None) -> 4 outputs
    The kernels demand Dv == Dk; the attention result (output 0) is compared by value in every stratum, the auxiliary outputs
    (logsumexp, rng state, debug mask) only in the aux-outputs strata."""
    dts = _fdts(qn)
    n_out = {"cpu": 2, "flash": 9, "efficient": 4}[form]
    skip_aux = {"skip": list(range(1, n_out))}

    def mk(dt, sc, v):
        def b(g):
            dims, q, k, vv = _att_qkv(g, sc, dt)
            toks = v.split("+")
            kw = {}
            mask = None
            for t in toks:
                if t.startswith("float-"):
                    mask = _att_mask(g, t, dims, dt)
            causal = "causal" in toks
            if "scale" in toks:
                kw["scale"] = g.r.choice((0.5, 0.25, 1.0, 2.0))
            if form == "efficient":
                args = [q, k, vv, mask, "lse" in toks]
                if causal or "dropout_p=0" in toks:
                    args += [0.0] + ([True] if causal else [])
                return args, kw
            args = [q, k, vv]
            if causal or "dropout_p=0" in toks:
                args += [0.0] + ([True] if causal else [])
            if "debug_mask=False" in toks:
                args = [q, k, vv, 0.0, causal, False]
            if form == "cpu" and (mask is not None or "mask=None" in toks):
                kw["attn_mask"] = mask
            return args, kw
        return b

    cases = [("eq", "defaults"), ("L<S", "defaults"), ("L>S", "defaults"), ("L=1", "defaults"), ("S=1", "defaults"), ("H=1", "defaults"),
             ("eq", "causal"), ("L<S", "causal"), ("L>S", "causal"), ("eq", "scale"), ("L<S", "scale+causal"), ("L>S", "dropout_p=0"),
             ("gqa2", "defaults"), ("mqa", "causal"), ("size0-B-eq", "defaults")]
    if form != "flash":
        cases += [("L<S", "float-LS"), ("L>S", "float-BHLS"), ("eq", "float-B11S+scale"), ("eq", "float-neginf"), ("gqa3-L<S", "float-LS")]
    if form == "cpu":
        cases += [("L<S", "mask=None")]
    if form == "flash":
        cases += [("L<S", "debug_mask=False")]
    if form == "efficient":
        cases += [("L<S", "lse"), ("eq", "lse+causal")]
    for dt in dts:
        if dt != "f32":
            yield S(f"L<S/defaults/{dt}", mk(dt, "L<S", "defaults"), mode=skip_aux, scale=8.0)
            yield S(f"L>S/causal/{dt}", mk(dt, "L>S", "causal"), mode=skip_aux, scale=8.0)
    for dt in lead(dts, ("f32",)):
        for sc, v in cases:
            yield S(f"{sc}/{v}/{dt}", mk(dt, sc, v), mode=skip_aux, scale=8.0)
    for dt in [d for d in dts if d != "f16"]:   # (ORT cannot load the f16 graphs at all: only disputable for output 0)
        yield S(f"aux-outputs/L<S/defaults/{dt}", mk(dt, "L<S", "lse" if form == "efficient" else "defaults"), scale=8.0)
    for dt in lead(dts, ("f32",)):
        yield S(f"aux-outputs/eq/causal/{dt}", mk(dt, "eq", "causal"), scale=8.0)


_reg(_A, "aten::_scaled_dot_product_flash_attention_for_cpu", sdpa_backend, form="cpu")
_reg(_A, "aten::_scaled_dot_product_flash_attention", sdpa_backend, form="flash")
_reg(_A, "aten::_scaled_dot_product_efficient_attention", sdpa_backend, form="efficient")

# ---------------------------------------------------------------------------------------------
# upsample / resize
#
# size classes per spatial axis (input extent -> output extent); a scale factor, where one is passed, is consistent with
# the output size the way F.interpolate computes it: out = floor(in * scale).

_UP_SIZES = {
    "up-int": lambda r: (lambda i: (i, i * r.randint(2, 3)))(r.randint(2, 4)),
    "up-nonint": lambda r: r.choice(((3, 5), (3, 4), (4, 7), (5, 7), (2, 5))),
    "down-int": lambda r: (lambda o: (o * r.randint(2, 3), o))(r.randint(2, 3)),
    "down-nonint": lambda r: r.choice(((5, 3), (7, 4), (5, 2), (7, 3), (6, 4))),
    "same": lambda r: (lambda i: (i, i))(r.randint(2, 5)),
    "in=1": lambda r: (1, r.randint(2, 4)),
    "out=1": lambda r: (r.randint(2, 4), 1),
}


def _up_x(g, dt, nsp, ins, v=""):
    batch = 0 if "size0-N" in v else g.r.randint(1, 2)
    ch = 0 if "size0-C" in v else g.r.randint(1, 3)
    return g.t([batch, ch] + list(ins), dt, "any")


def upsample(qn, nsp, kind, align, n_scales):
    """upsample_<kind><n>d(self, output_size, [align_corners,] scales...=None): one optional scale per spatial axis."""
    dts = adm(qn)
    fdts = [d for d in dts if is_float(d)]

    def mk(dt, sizeclass, ac, sv):
        def b(g):
            if sizeclass == "mixed":
                pairs = [_UP_SIZES[c](g.r) for c in ("up-nonint", "down-int", "up-int")[:nsp]]
            else:
                pairs = [_UP_SIZES[sizeclass](g.r) for _ in range(nsp)]
            ins, outs = [p[0] for p in pairs], [p[1] for p in pairs]
            x = _up_x(g, dt, nsp, ins, sv)
            args = [x, outs] + ([ac] if align else [])
            if sv == "scales-exact":         # scale = out / in exactly (what recompute_scale_factor=True gives: None) -> pass the ratio
                args += [o / i for i, o in zip(ins, outs)]
            elif sv == "scales-given":       # the user's factor, with out = floor(in * factor): factor differs from out / in
                fac = []
                for k, (i, o) in enumerate(zip(ins, outs)):
                    f = (o + 0.5) / i
                    fac.append(f)
                args += fac
            elif sv == "scales-first-only":
                args += [outs[0] / ins[0]]
            elif sv == "scales=None":
                args += [None] * n_scales
            return args, {}
        return b

    acs = (False, True) if align else (None,)
    for dt in dts:
        yield S(f"up-int/{'ac=%d/' % acs[-1] if align else ''}{dt}", mk(dt, "up-int", acs[-1], ""), scale=4.0)
    for dt in lead(fdts, ("f32",)):
        for ac in acs:
            al = f"ac={int(ac)}/" if align else ""
            for sc in ("up-int", "up-nonint", "down-int", "down-nonint", "same", "in=1", "out=1", "mixed"):
                yield S(f"{sc}/{al}{dt}", mk(dt, sc, ac, ""), scale=4.0)
            for sv, sc in (("scales-exact", "up-int"), ("scales-exact", "down-nonint"), ("scales-given", "up-nonint"), ("scales-given", "down-nonint"),
                           ("scales=None", "up-nonint")) + ((("scales-first-only", "up-int"),) if n_scales > 1 else ()):
                yield S(f"{sc}/{al}{sv}/{dt}", mk(dt, sc, ac, sv), scale=4.0)
        yield S(f"up-int/size0-N/{dt}", mk(dt, "up-int", acs[0], "size0-N"), scale=4.0)   # (torch rejects an empty channel axis)


def upsample_vec(qn, nsp, align):
    """upsample_<kind><n>d.vec(input, output_size?, [align_corners,] scale_factors?): exactly one of the two is given."""
    dts = adm(qn)
    fdts = [d for d in dts if is_float(d)]

    def mk(dt, v, ac):
        def b(g):
            r = g.r
            if v.startswith("size/"):
                sc = v.split("/", 1)[1]
                pairs = [_UP_SIZES[sc](r) for _ in range(nsp)]
                x = _up_x(g, dt, nsp, [p[0] for p in pairs])
                return [x, [p[1] for p in pairs]] + ([ac] if align else []) + [None], {}
            ins = [r.randint(2, 5) for _ in range(nsp)]
            if v == "factor/int":
                fac = [float(r.randint(2, 3))] * nsp
            elif v == "factor/nonint-exact":        # in * factor is an integer
                ins = [2 * r.randint(1, 3) for _ in range(nsp)]
                fac = [r.choice((1.5, 2.5))] * nsp
            elif v == "factor/nonint-floor":        # in * factor is not an integer: out = floor(in * factor)
                ins = [r.choice((3, 5)) for _ in range(nsp)]
                fac = [r.choice((1.5, 2.5))] * nsp
            elif v == "factor/out=in":              # factor > 1 but floor(in * factor) == in on every axis
                ins = [3] * nsp
                fac = [1.25] * nsp
            elif v == "factor/out=in-one-axis":
                ins = [3] + [4] * (nsp - 1)
                fac = [1.25] * nsp
            elif v == "factor/down-half":
                ins = [2 * r.randint(1, 3) for _ in range(nsp)]
                fac = [0.5] * nsp
            elif v == "factor/down-floor":
                ins = [r.choice((5, 7)) for _ in range(nsp)]
                fac = [r.choice((0.5, 0.75, 0.4))] * nsp
            elif v == "factor/per-axis":
                fac = [(2.0, 1.5, 3.0)[k] for k in range(nsp)]
                ins = [(3, 5, 2)[k] for k in range(nsp)]
            elif v == "factor/one":
                fac = [1.0] * nsp
            else:
                raise ValueError(v)
            x = _up_x(g, dt, nsp, ins)
            return [x, None] + ([ac] if align else []) + [fac], {}
        return b

    acs = (False, True) if align else (None,)
    for dt in dts:
        yield S(f"factor/int/{'ac=0/' if align else ''}{dt}", mk(dt, "factor/int", acs[0]), scale=4.0)
    for dt in lead(fdts, ("f32",)):
        for ac in acs:
            al = f"ac={int(ac)}/" if align else ""
            for v in ("size/up-int", "size/up-nonint", "size/down-nonint", "size/in=1", "factor/int", "factor/nonint-exact",
                      "factor/nonint-floor", "factor/out=in", "factor/down-half", "factor/down-floor", "factor/one") + \
                    (("factor/per-axis", "factor/out=in-one-axis") if nsp > 1 else ()):
                yield S(f"{v}/{al}{dt}", mk(dt, v, ac), scale=4.0)


_RS = "resize"
_reg(_RS, "aten::upsample_nearest1d", upsample, nsp=1, kind="nearest", align=False, n_scales=1)
_reg(_RS, "aten::upsample_nearest2d", upsample, nsp=2, kind="nearest", align=False, n_scales=2)
_reg(_RS, "aten::upsample_nearest3d", upsample, nsp=3, kind="nearest", align=False, n_scales=3)
_reg(_RS, "aten::upsample_linear1d", upsample, nsp=1, kind="linear", align=True, n_scales=1)
_reg(_RS, ["aten::upsample_bilinear2d", "aten::upsample_bicubic2d", "aten::_upsample_bilinear2d_aa", "aten::_upsample_bicubic2d_aa"], upsample,
     nsp=2, kind="linear", align=True, n_scales=2)
_reg(_RS, "aten::upsample_trilinear3d", upsample, nsp=3, kind="linear", align=True, n_scales=3)
_reg(_RS, "aten::upsample_nearest1d.vec", upsample_vec, nsp=1, align=False)
_reg(_RS, "aten::upsample_nearest2d.vec", upsample_vec, nsp=2, align=False)
_reg(_RS, "aten::upsample_nearest3d.vec", upsample_vec, nsp=3, align=False)
_reg(_RS, ["aten::upsample_bilinear2d.vec", "aten::upsample_bicubic2d.vec"], upsample_vec, nsp=2, align=True)
_reg(_RS, "aten::upsample_trilinear3d.vec", upsample_vec, nsp=3, align=True)

# ---------------------------------------------------------------------------------------------
# 3-d pooling / convolution / padding


def pool3d(qn, kind, with_indices=False):
    """max_pool3d(self, kernel, stride=[], padding=0, dilation=1, ceil_mode=False);
    avg_pool3d(self, kernel, stride=[], padding=0, ceil_mode=False, count_include_pad=True, divisor_override=None).
    Per-axis arguments differ between the three axes wherever the class says so (ONNX lays pads out begins-then-ends)."""
    dts = [d for d in adm(qn) if is_float(d)]

    def mk(dt, v):
        def b(g):
            r = g.r
            batch = [] if v == "unbatched" else [r.randint(1, 2)]
            sp = [r.randint(5, 6) for _ in range(3)]
            x = g.t(batch + [r.randint(1, 2)] + sp, dt, "distinct" if with_indices else "any")
            k = [r.randint(2, 3) for _ in range(3)]
            st = [r.randint(1, 2) for _ in range(3)]
            if v in ("kernel-only", "unbatched"):
                return [x, k], {}
            if v == "kernel-len1":
                return [x, [2]], {}
            if v == "stride=[]":
                return [x, k, []], {}
            if v == "stride":
                return [x, k, st], {}
            if v == "stride-len1":
                return [x, k, [2]], {}
            if v == "padding":
                return [x, k, st, [1, 1, 1]], {}
            if v == "padding-len1":
                return [x, [3, 3, 3], st, [1]], {}
            if v == "padding-asym-100":
                return [x, [3, 3, 3], [1, 1, 1], [1, 0, 0]], {}
            if v == "padding-asym-001":
                return [x, [3, 3, 3], st, [0, 0, 1]], {}
            if v == "padding-asym-010":
                return [x, [3, 2, 3], st, [0, 1, 0]], {}
            if v == "asym-all":
                return [x, [3, 2, 2], [2, 1, 2], [1, 0, 1]], {}
            if kind == "max":
                if v == "dilation":
                    return [x, [2, 2, 2], st, [0, 0, 0], [2, 2, 2]], {}
                if v == "dilation-asym":
                    return [x, [2, 2, 2], [1, 1, 1], [0, 0, 0], [2, 1, 2]], {}
                if v == "ceil_mode":
                    return [x, [2, 2, 2], [2, 2, 2], [0, 0, 0], [1, 1, 1], True], {}
                if v == "ceil_mode-padding":
                    return [x, [3, 3, 3], [2, 2, 2], [1, 1, 1], [1, 1, 1], True], {}
            else:
                if v == "ceil_mode":
                    return [x, [2, 2, 2], [2, 2, 2], [0, 0, 0], True], {}
                if v == "ceil_mode-padding":
                    return [x, [3, 3, 3], [2, 2, 2], [1, 1, 1], True], {}
                if v == "count_include_pad=False":
                    return [x, k, st, [1, 1, 1], False, False], {}
                if v == "asym-no-include-pad":
                    return [x, [2, 3, 2], [1, 2, 1], [0, 1, 1], False, False], {}
                if v == "ceil-no-include-pad":
                    return [x, [3, 3, 3], [2, 2, 2], [1, 1, 1], True, False], {}
                if v == "divisor_override":
                    return [x, k, st, [1, 1, 1], False, True, 3], {}
                if v == "divisor_override=None":
                    return [x, k, st, [0, 0, 0], False, True, None], {}
            raise ValueError(v)
        return b

    vs = ["kernel-only", "kernel-len1", "stride", "stride=[]", "stride-len1", "padding", "padding-len1", "unbatched", "ceil_mode", "ceil_mode-padding",
          "padding-asym-100", "padding-asym-001", "padding-asym-010", "asym-all"] + \
         (["dilation", "dilation-asym"] if kind == "max" else
          ["count_include_pad=False", "asym-no-include-pad", "ceil-no-include-pad", "divisor_override", "divisor_override=None"])
    for dt in dts:
        yield S(f"kernel-only/{dt}", mk(dt, "kernel-only"), scale=4.0)
    for dt in lead(dts, ("f32",)):
        for v in vs[1:]:
            yield S(f"{v}/{dt}", mk(dt, v), scale=4.0)
    if kind == "max" and "u8" in adm(qn):
        yield S("kernel-only/u8", mk("u8", "kernel-only"))
        yield S("padding/u8", mk("u8", "padding"))


def pad3d(qn):
    yield from refl_repl_pad(qn, nsp=3)
    for dt in lead(adm(qn), ("f32",)):
        yield S(f"all-six-differ/{dt}", (lambda g, dt=dt: ([g.t([g.r.randint(1, 2), g.r.randint(1, 2), 4, 5, 6], dt), [1, 2, 3, 0, 2, 1]], {})))
        yield S(f"unbatched-all-six-differ/{dt}", (lambda g, dt=dt: ([g.t([g.r.randint(1, 2), 5, 4, 6], dt), [2, 0, 1, 3, 0, 2]], {})))
        yield S(f"size0-N/{dt}", (lambda g, dt=dt: ([g.t([0, 2, 3, 3, 3], dt), [1, 1, 1, 1, 1, 1]], {})))


_P3 = "pool3d"
_reg(_P3, "aten::max_pool3d", pool3d, kind="max")
_reg(_P3, "aten::max_pool3d_with_indices", pool3d, kind="max", with_indices=True)
_reg(_P3, "aten::avg_pool3d", pool3d, kind="avg")
_reg(_P3, "aten::conv3d", conv, nsp=3)
_reg(_P3, ["aten::reflection_pad3d", "aten::replication_pad3d"], pad3d)

# ---------------------------------------------------------------------------------------------
# pixel_shuffle / pixel_unshuffle, im2col / col2im, grid_sampler


def pixel(qn, up):
    """pixel_shuffle(self[..., C*r*r, H, W], r) / pixel_unshuffle(self[..., C, H*r, W*r], r)."""
    dts = adm(qn)

    def mk(dt, v):
        def b(g):
            r = g.r
            f = {"r=1": 1, "r=3": 3}.get(v, 2)
            c, h, w = r.randint(1, 2), r.randint(1, 3), r.randint(1, 3)
            if v == "H!=W":
                h, w = 2, 3
            if v == "hw=1":
                h = w = 1
            lead_ = {"unbatched": [], "5-d": [r.randint(1, 2), r.randint(1, 2)], "6-d": [2, 1, 2], "size0-N": [0], "size0-5-d": [2, 0]}.get(v, [r.randint(1, 2)])
            shape = lead_ + ([c * f * f, h, w] if up else [c, h * f, w * f])
            return [g.t(shape, dt, "distinct" if _numel(shape) <= 128 else "any"), f], {}
        return b

    for dt in dts:
        yield S(f"r=2/{dt}", mk(dt, "r=2"))
    # ORT has no integer DepthToSpace kernel: integer variants only where the function does not use it.  Eager CPU pixel_unshuffle
    # returns an EMPTY input unchanged (its own meta kernel computes the unshuffled shape): no oracle for size-0 there.
    for dt in lead(dts, ("f32",) if up else ("f32", "i64")):
        for v in ("r=1", "r=3", "H!=W", "hw=1", "unbatched", "5-d", "6-d") + (("size0-N", "size0-5-d") if up else ()):
            yield S(f"{v}/{dt}", mk(dt, v))


def _numel(sh):
    n = 1
    for d in sh:
        n *= d
    return n


def _blocks(size, k, d, p, s):
    return (size + 2 * p - d * (k - 1) - 1) // s + 1


_I2C = {
    # class: (kernel, dilation, padding, stride)
    "plain": ([2, 2], [1, 1], [0, 0], [1, 1]),
    "kernel-asym": ([2, 3], [1, 1], [0, 0], [1, 1]),
    "stride": ([2, 2], [1, 1], [0, 0], [2, 2]),
    "stride-asym": ([2, 2], [1, 1], [0, 0], [1, 2]),
    "padding": ([3, 3], [1, 1], [1, 1], [1, 1]),
    "padding-asym-10": ([3, 3], [1, 1], [1, 0], [1, 1]),
    "padding-asym-01": ([2, 3], [1, 1], [0, 1], [1, 1]),
    "dilation": ([2, 2], [2, 2], [0, 0], [1, 1]),
    "dilation-asym": ([2, 2], [1, 2], [0, 0], [1, 1]),
    "all-asym": ([3, 2], [1, 2], [1, 0], [2, 1]),
    "kernel=1": ([1, 1], [1, 1], [0, 0], [1, 1]),
    "kernel=input": (None, [1, 1], [0, 0], [1, 1]),
}


def im2col(qn, inverse):
    """im2col(self[N?, C, H, W], kernel, dilation, padding, stride); col2im(self[N?, C*kh*kw, L], output_size, kernel, dilation, padding, stride)."""
    dts = adm(qn)

    def mk(dt, v, batch):
        def b(g):
            r = g.r
            h, w = r.randint(4, 6), r.randint(4, 6)
            if h == w:
                w += 1
            k, d, p, s = _I2C[v]
            if k is None:
                k = [h, w]
            c = r.randint(1, 2)
            n = {"unbatched": [], "size0-N": [0]}.get(batch, [r.randint(1, 2)])
            if not inverse:
                return [g.t(n + [c, h, w], dt), k, d, p, s], {}
            L = _blocks(h, k[0], d[0], p[0], s[0]) * _blocks(w, k[1], d[1], p[1], s[1])
            return [g.t(n + [c * k[0] * k[1], L], dt, "small"), [h, w], k, d, p, s], {}
        return b

    for dt in dts:
        yield S(f"plain/{dt}", mk(dt, "plain", "batched"), scale=4.0)
    for dt in lead(dts, ("f32",)):
        for v in list(_I2C)[1:]:
            yield S(f"{v}/{dt}", mk(dt, v, "batched"), scale=4.0)
        yield S(f"unbatched/all-asym/{dt}", mk(dt, "all-asym", "unbatched"), scale=4.0)
        yield S(f"unbatched/plain/{dt}", mk(dt, "plain", "unbatched"), scale=4.0)
        yield S(f"size0-N/plain/{dt}", mk(dt, "plain", "size0-N"), scale=4.0)


def grid_sampler(qn, volumetric_too):
    """grid_sampler(input[N,C,H,W], grid[N,Ho,Wo,2], interpolation_mode{0 bilinear,1 nearest,2 bicubic}, padding_mode{0 zeros,1 border,2 reflection},
    align_corners).  Grid coordinates are irrational-ish (never on a rounding tie of the nearest mode)."""
    dts = [d for d in adm(qn) if is_float(d)]

    def coords(g, shape, lo, hi, dt):
        n = _numel(shape)
        vals = [round(g.r.uniform(lo, hi), 4) + 1.7e-5 for _ in range(n)]
        return g.torch.tensor(vals, dtype=g.E.tdt[dt]).reshape(shape)

    def mk(dt, im, pm, ac, v):
        def b(g):
            r = g.r
            n = 0 if v == "size0-N" else r.randint(1, 2)
            c = r.randint(1, 2)
            h, w = r.randint(3, 5), r.randint(3, 5)
            if h == w:
                w += 1
            ho, wo = r.randint(1, 3), r.randint(2, 4)
            if v == "in=1x1":
                h = w = 1
            lo, hi = (-0.95, 0.95) if v == "inside" else (-1.6, 1.6)
            if v == "far-outside":
                lo, hi = -3.5, 3.5
            if v == "volumetric":
                d_, do = r.randint(2, 3), r.randint(1, 2)
                return [g.t([n, c, d_, h, w], dt), coords(g, [n, do, ho, wo, 3], lo, hi, dt), im, pm, ac], {}
            return [g.t([n, c, h, w], dt), coords(g, [n, ho, wo, 2], lo, hi, dt), im, pm, ac], {}
        return b

    ims = {0: "bilinear", 1: "nearest", 2: "bicubic"}
    pms = {0: "zeros", 1: "border", 2: "reflection"}
    for dt in dts:
        yield S(f"bilinear/zeros/ac=0/inside/{dt}", mk(dt, 0, 0, False, "inside"), scale=4.0)
    for dt in lead(dts, ("f32",)):
        for im in ims:
            for pm in pms:
                for ac in (False, True):
                    yield S(f"{ims[im]}/{pms[pm]}/ac={int(ac)}/outside/{dt}", mk(dt, im, pm, ac, "outside"), scale=4.0)
            yield S(f"{ims[im]}/zeros/ac=1/inside/{dt}", mk(dt, im, 0, True, "inside"), scale=4.0)
            yield S(f"{ims[im]}/reflection/ac=0/far-outside/{dt}", mk(dt, im, 2, False, "far-outside"), scale=4.0)
        yield S(f"bilinear/border/ac=0/in=1x1/{dt}", mk(dt, 0, 1, False, "in=1x1"), scale=4.0)
        yield S(f"bilinear/zeros/ac=0/size0-N/{dt}", mk(dt, 0, 0, False, "size0-N"), scale=4.0)
        if volumetric_too:
            for im in (0, 1):
                yield S(f"volumetric/{ims[im]}/zeros/ac=0/{dt}", mk(dt, im, 0, False, "volumetric"), scale=4.0)


_PX = "pixel_grid"
_reg(_PX, "aten::pixel_shuffle", pixel, up=True)
_reg(_PX, "aten::pixel_unshuffle", pixel, up=False)
_reg(_PX, "aten::im2col", im2col, inverse=False)
_reg(_PX, "aten::col2im", im2col, inverse=True)
_reg(_PX, "aten::grid_sampler", grid_sampler, volumetric_too=True)
_reg(_PX, "aten::grid_sampler_2d", grid_sampler, volumetric_too=False)

# ---------------------------------------------------------------------------------------------
# embedding_bag family, embedding_renorm


def embedding_bag(qn, form):
    """embedding_bag(weight, indices, offsets, scale_grad_by_freq=False, mode=0, sparse=False, per_sample_weights=None, include_last_offset=False)
    embedding_bag.padding_idx(... all nine positional ..., padding_idx: int?)
    _embedding_bag / _embedding_bag_forward_only(..., include_last_offset=False, padding_idx=-1)  [-1 = no padding row]
    -> (output, offset2bag, bag_size, max_indices).  Output 0 is compared in every stratum; the three bookkeeping outputs (consumed only by
    the backward op; eager itself sizes them differently per overload, dtype and fast path) only in the aux-outputs stratum.
    indices are 1-D: F.embedding_bag flattens a 2-D input before it calls the operator."""
    dts = _fdts(qn)
    aux_shape = {"skip": [1, 2, 3]}

    def mk(dt, mode_, v):
        def b(g):
            r = g.r
            V, D = r.randint(4, 6), r.randint(1, 3)
            w = g.t([V, D], dt, "distinct" if mode_ == 2 else "any")
            if dt == "f64":
                w = w / 3.0 + 0.1        # not representable in float32: a detour through a narrower type shows
            n = r.randint(5, 8)
            idx = [r.randrange(V - 1) for _ in range(n)]     # row V-1 only where a class asks for it
            if "last-row" in v or "padding_idx=-1" in v:
                idx[r.randrange(n)] = V - 1
                idx[0] = V - 1
                w[V - 1] += 20.0         # the last row decides every bag it is in (sum, mean and max alike)
            cuts = sorted(r.sample(range(1, n), 2))
            offsets = [0] + cuts
            if "empty-bag" in v:
                offsets = [0, cuts[0], cuts[0], cuts[1]]
            if "empty-last-bag" in v:
                offsets = [0, cuts[0], n]
            if "single-bag" in v:
                offsets = [0]
            last = "include_last" in v
            if last:
                offsets = offsets + [n]
            psw = g.t([n], dt, "small") if "psw" in v else None
            idx_t = g.torch.tensor(idx, dtype=g.torch.int64)
            off_t = g.torch.tensor(offsets, dtype=g.torch.int64)
            if "no-indices" in v:
                idx_t, off_t = idx_t[:0], g.torch.tensor([0, 0], dtype=g.torch.int64)
            args = [w, idx_t, off_t]
            pad = None
            if "padding_idx=" in v:
                tok = [t for t in v.split("+") if t.startswith("padding_idx=")][0].split("=")[1]
                pad = {"None": None, "-1": -1, "hit": idx[1], "neg-hit": idx[1] - V, "miss": V - 1}[tok]
            if form == "padding_idx":
                return args + [False, mode_, False, psw, last, pad], {}
            if "omitted" in v:
                return args, {}
            if "mode-only" in v:
                return args + [False, mode_], {}
            args += [False, mode_, False, psw, last]
            if form == "private" and "padding_idx=" in v:
                args += [pad]
            return args, {}
        return b

    common = [(0, "plain"), (1, "plain"), (2, "plain"), (0, "empty-bag"), (1, "empty-bag"), (2, "empty-bag"), (0, "include_last"), (1, "include_last"),
              (2, "include_last"), (1, "empty-last-bag"), (0, "single-bag"), (1, "single-bag"), (0, "psw"), (0, "psw+include_last"),
              (2, "last-row"), (1, "last-row"), (0, "no-indices")]
    if form != "padding_idx":
        common += [(0, "omitted"), (1, "mode-only"), (2, "mode-only")]
    if form == "padding_idx":
        common += [(m, f"padding_idx={p}") for m in (0, 1, 2) for p in ("None", "hit", "miss")] + \
                  [(0, "padding_idx=neg-hit"), (1, "padding_idx=hit+empty-bag"), (0, "padding_idx=hit+psw"), (1, "padding_idx=hit+include_last")]
    if form == "private":
        common += [(m, "padding_idx=-1") for m in (0, 1, 2)] + [(0, "padding_idx=hit"), (1, "padding_idx=hit"), (2, "padding_idx=miss"),
                                                                 (1, "padding_idx=-1+include_last")]
    for dt in dts:
        if dt != "f32":
            yield S(f"mode=0/plain/{dt}", mk(dt, 0, "plain"), mode=aux_shape, scale=4.0)
            yield S(f"mode=1/empty-bag/{dt}", mk(dt, 1, "empty-bag"), mode=aux_shape, scale=4.0)
    for dt in lead(dts, ("f32",)):
        for m, v in common:
            yield S(f"mode={m}/{v}/{dt}", mk(dt, m, v), mode=aux_shape, scale=4.0)
        yield S(f"aux-outputs/mode=1/plain/{dt}", mk(dt, 1, "plain"), scale=4.0)


def embedding_renorm(qn):
    """embedding_renorm(self[V, D], indices, max_norm, norm_type): rows named by indices are rescaled to norm <= max_norm."""
    dts = _fdts(qn)

    def mk(dt, v):
        def b(g):
            r = g.r
            V, D = r.randint(4, 6), r.randint(2, 4)
            w = g.t([V, D], dt, "nz")
            n = r.randint(2, 5)
            idx = [r.randrange(V) for _ in range(n)]
            if v == "duplicates":
                idx = [idx[0]] * 2 + idx
            shape = [len(idx)]
            it = g.torch.tensor(idx, dtype=g.torch.int64)
            if v == "2d-indices":
                it = g.torch.tensor([r.randrange(V) for _ in range(4)], dtype=g.torch.int64).reshape(2, 2)
            if v == "no-indices":
                it = it[:0]
            if v == "all-rows":
                it = g.torch.arange(V - 1, -1, -1, dtype=g.torch.int64)
            max_norm = {"max_norm-large": 100.0, "max_norm-int": 1}.get(v, r.choice((0.5, 1.0, 2.0)))
            norm_type = {"p=1": 1.0, "p=3": 3.0, "p=0.5": 0.5, "p=inf": float("inf"), "p=2-int": 2}.get(v, 2.0)
            return [w, it, max_norm, norm_type], {}
        return b

    for dt in dts:
        yield S(f"p=2/{dt}", mk(dt, "p=2"), scale=4.0)
    for dt in lead(dts, ("f32",)):
        for v in ("p=1", "p=3", "p=0.5", "p=inf", "p=2-int", "duplicates", "2d-indices", "no-indices", "all-rows", "max_norm-large", "max_norm-int"):
            yield S(f"{v}/{dt}", mk(dt, v), scale=4.0)


_EB = "embedding_bag"
_reg(_EB, "aten::embedding_bag", embedding_bag, form="public")
_reg(_EB, "aten::embedding_bag.padding_idx", embedding_bag, form="padding_idx")
_reg(_EB, ["aten::_embedding_bag", "aten::_embedding_bag_forward_only"], embedding_bag, form="private")
_reg(_EB, "aten::embedding_renorm", embedding_renorm)

# ---------------------------------------------------------------------------------------------
# losses, bilinear, hardtanh_backward


def nll(qn, form):
    """nll_loss(self[N, C] | [C], target[N] | [], weight=None, reduction=1, ignore_index=-100)
    nll_loss_forward(self, target, weight, reduction, ignore_index) -> (output, total_weight)
    cross_entropy_loss(self[N, C, d...] | [C], target, weight=None, reduction=1, ignore_index=-100, label_smoothing=0.)."""
    dts = _fdts(qn)
    ce = form == "ce"

    def mk(dt, red, v):
        def b(g):
            r = g.r
            N, C = r.randint(2, 4), r.randint(3, 5)
            if "N=1" in v:
                N = 1
            if "size0-N" in v:
                N = 0
            extra = [r.randint(2, 3)] if "3-d" in v else ([2, 2] if "4-d" in v else [])
            x = g.t([N, C] + extra, dt, "small")
            if not ce:
                x = x.float().log_softmax(1).to(x.dtype) if N else x
            tshape = [N] + extra
            tv = [r.randrange(C) for _ in range(_numel(tshape))]
            ign = -100
            if "ignore-hit" in v and tv:
                ign = tv[0]
                if len(tv) > 1 and all(t == ign for t in tv):
                    tv[-1] = (ign + 1) % C
            if "ignore-all" in v:
                ign = 1
                tv = [1] * len(tv)
            if "ignore-miss" in v:
                ign = C - 1
                tv = [t % (C - 1) for t in tv]
            if "ignore-neg-hit" in v and tv:
                ign = -1
                tv[0] = -1
            t = g.torch.tensor(tv, dtype=g.torch.int64).reshape(tshape)
            if "1-d" in v:
                x, t = x[0] if N else x.reshape(-1)[:C], g.torch.tensor(tv[0] if tv else 0, dtype=g.torch.int64)
            w = g.t([C], dt, "pos") if "weight" in v else None
            if form == "fwd":
                return [x, t, w, red, ign], {}
            if "omitted" in v:
                return [x, t], {}
            if "weight-only" in v:
                return [x, t, w], {}
            args = [x, t, w, red]
            if "ignore" in v or "explicit" in v or "smoothing" in v:
                args.append(ign)
            if "smoothing" in v:
                args.append(0.0 if "zero-smoothing" in v else 0.25)
            return args, {}
        return b

    mode = {"skip": [1]} if form == "fwd" else "value"
    reds = {0: "none", 1: "mean", 2: "sum"}
    cases = [(red, v) for red in (0, 1, 2) for v in ("plain", "weight", "ignore-hit", "weight+ignore-hit")] + \
            [(1, "ignore-miss"), (0, "ignore-all"), (1, "ignore-all"), (2, "ignore-all"), (1, "weight+ignore-all"), (0, "1-d"), (1, "1-d"), (1, "1-d+weight"),
             (2, "1-d+ignore-all"), (0, "N=1"), (1, "N=1+weight"), (0, "size0-N"), (1, "size0-N"), (2, "size0-N"), (1, "explicit-default-ignore"),
             (0, "ignore-neg-hit"), (1, "ignore-neg-hit")]
    if form != "fwd":
        cases += [(1, "omitted"), (1, "weight-only")]
    if ce:
        cases += [(0, "3-d"), (1, "3-d+weight"), (2, "4-d+ignore-hit"), (1, "3-d+weight+ignore-hit"), (0, "smoothing"), (1, "smoothing"), (2, "smoothing+weight"),
                  (1, "explicit-zero-smoothing"), (1, "smoothing+ignore-hit")]
    for dt in dts:
        if dt != "f32":
            yield S(f"mean/plain/{dt}", mk(dt, 1, "plain"), mode=mode, scale=4.0)
            yield S(f"none/weight+ignore-hit/{dt}", mk(dt, 0, "weight+ignore-hit"), mode=mode, scale=4.0)
    for dt in lead(dts, ("f32",)):
        for red, v in cases:
            yield S(f"{reds[red]}/{v}/{dt}", mk(dt, red, v), mode=mode, scale=4.0)
        if form == "fwd":
            for red, v in ((1, "plain"), (0, "weight")):
                yield S(f"aux-total_weight/{reds[red]}/{v}/{dt}", mk(dt, red, v), scale=4.0)


def bilinear(qn):
    """bilinear(input1[..., in1], input2[..., in2], weight[out, in1, in2], bias=None)."""
    dts = adm(qn)

    def mk(dt, v):
        def b(g):
            r = g.r
            in1, in2, out = r.randint(2, 3), r.randint(2, 4), r.randint(2, 3)
            if in1 == in2:
                in2 += 1
            if v == "out=1":
                out = 1
            if v == "in=1":
                in1 = in2 = 1
            batch = {"1-d": [], "3-d": [r.randint(1, 2), r.randint(2, 3)], "4-d": [2, 1, 2], "size0-N": [0], "N=1": [1]}.get(v, [r.randint(2, 3)])
            a = g.t(batch + [in1], dt, "small")
            bb = g.t(batch + [in2], dt, "small")
            w = g.t([out, in1, in2], dt, "small")
            if v == "bias-omitted":
                return [a, bb, w], {}
            if v == "bias=None":
                return [a, bb, w, None], {}
            return [a, bb, w, g.t([out], dt, "small")], {}
        return b

    for dt in dts:
        yield S(f"bias/{dt}", mk(dt, "bias"), scale=8.0)
    for dt in lead(dts, ("f32", "i64")):
        for v in ("bias-omitted", "bias=None", "1-d", "3-d", "4-d", "out=1", "in=1", "N=1", "size0-N"):
            yield S(f"{v}/{dt}", mk(dt, v), scale=8.0)


def hardtanh_backward(qn):
    """hardtanh_backward(grad_output, self, min_val, max_val): grad where min_val < self < max_val, else 0."""
    E = core.env()
    dts = [d for d in adm(qn) if is_float(d)]

    def mk(dt, v):
        def b(g):
            lo, hi = (-1.0, 1.0) if "default" in v else (-0.5, 2.0)
            if "int-bounds" in v:
                lo, hi = -1, 2
            if "boundary" in v:
                sh = [6]
                x = E.torch.tensor([lo, hi, lo - 1, hi + 1, (lo + hi) / 2, lo], dtype=E.tdt[dt])
            else:
                sh = g.shape({"0-d": "0-d", "size0": "size0"}.get(v.split("/")[0], "nd"))
                # strictly inside or outside: quarter-steps shifted off the bounds
                x = g.t(sh, dt, "any") * 0 + E.torch.tensor([g.r.choice((-3.25, -1.25, -0.75, -0.25, 0.25, 0.75, 1.25, 2.25, 3.25)) for _ in range(_numel(sh))],
                                                            dtype=E.tdt[dt]).reshape(sh)
            grad = g.t(list(x.shape), dt, "nz")
            return [grad, x, lo, hi], {}
        return b

    for dt in dts:
        yield S(f"nd/default-bounds/{dt}", mk(dt, "nd/default"))
        yield S(f"boundary/{dt}", mk(dt, "boundary"))
    for dt in lead(dts, ("f32",)):
        for v in ("nd/bounds", "nd/int-bounds", "0-d/bounds", "size0/bounds", "boundary/default"):
            yield S(f"{v}/{dt}", mk(dt, v))


_L = "loss_misc"
_reg(_L, "aten::nll_loss", nll, form="nll")
_reg(_L, "aten::nll_loss_forward", nll, form="fwd")
_reg(_L, "aten::cross_entropy_loss", nll, form="ce")
_reg(_L, "aten::bilinear", bilinear)
_reg(_L, "aten::hardtanh_backward", hardtanh_backward)

# ---------------------------------------------------------------------------------------------
# gru.input / lstm.input


def rnn(qn, cell):
    """gru.input(input, hx, params, has_biases, num_layers, dropout, train, bidirectional, batch_first) -> (output, h_n)
    lstm.input(input, hx=[h0, c0], params, ...) -> (output, h_n, c_n).
    params: per layer and direction [w_ih (G*H, in), w_hh (G*H, H), b_ih (G*H), b_hh (G*H)], G = 3 (gru) / 4 (lstm)."""
    dts = [d for d in _fdts(qn) if d != "f64"]      # ORT: "GRU/LSTM operator does not support double yet" (a run-time refusal, no verdict)
    G_ = 3 if cell == "gru" else 4

    def mk(dt, layers, bidir, biases, batch_first, v):
        def b(g):
            r = g.r
            T, B, I, H = r.randint(2, 4), r.randint(1, 3), r.randint(2, 4), r.randint(2, 3)
            if I == H:
                I += 1
            if "T=1" in v:
                T = 1
            if "B=1" in v:
                B = 1
            if "H=1" in v:
                H = 1
            D = 2 if bidir else 1
            x = g.t([B, T, I] if batch_first else [T, B, I], dt, "small")
            h0 = g.t([layers * D, B, H], dt, "unit")
            if "h0=0" in v:
                h0 = h0 * 0
            params = []
            for layer in range(layers):
                for _ in range(D):
                    in_ = I if layer == 0 else H * D
                    params += [g.t([G_ * H, in_], dt, "unit"), g.t([G_ * H, H], dt, "unit")]
                    if biases:
                        params += [g.t([G_ * H], dt, "unit"), g.t([G_ * H], dt, "unit")]
            drop, train = {"dropout-eval": (0.5, False), "train-p=0": (0.0, True)}.get(v.split("+")[0], (0.0, False))
            if "dropout-train" in v:
                drop, train = 0.5, True
            hx = h0 if cell == "gru" else [h0, g.t([layers * D, B, H], dt, "unit")]
            return [x, hx, params, biases, layers, drop, train, bidir, batch_first], {}
        return b

    cases = [(L, bd, bi, bf, "plain") for L in (1, 2) for bd in (False, True) for bi in (True, False) for bf in (False, True)]
    cases += [(1, False, True, False, "T=1"), (2, True, True, True, "T=1"), (1, False, True, False, "B=1"), (1, True, True, False, "H=1"),
              (2, False, True, False, "dropout-eval"), (2, True, True, False, "train-p=0"), (1, False, True, False, "dropout-eval"), (1, False, True, True, "h0=0"),
              (3, True, True, True, "plain")]
    for dt in dts:
        if dt != "f32":
            yield S(f"L=1/uni/bias/plain/{dt}", mk(dt, 1, False, True, False, "plain"), scale=16.0)
            yield S(f"L=2/bi/bias/batch_first/plain/{dt}", mk(dt, 2, True, True, True, "plain"), scale=16.0)
    for dt in lead(dts, ("f32",)):
        for L, bd, bi, bf, v in cases:
            yield S(f"L={L}/{'bi' if bd else 'uni'}/{'bias' if bi else 'no-bias'}/{'batch_first/' if bf else ''}{v}/{dt}", mk(dt, L, bd, bi, bf, v), scale=16.0)
        yield S(f"L=2/uni/bias/dropout-train/{dt}", mk(dt, 2, False, True, False, "dropout-train"), mode="shape_only")


_RNN = "rnn"
_reg(_RNN, "aten::gru.input", rnn, cell="gru")
_reg(_RNN, "aten::lstm.input", rnn, cell="lstm")

# ---------------------------------------------------------------------------------------------
# torchvision (resolvable only once torchvision is imported: each recipe imports it before the overload is looked up)


def _tv():
    try:
        import torchvision  # noqa: F401
    except Exception:
        return False
    return True


def _boxes(g, n, lo=0.0, hi=10.0, min_side=1.0, dt="f32"):
    rows = []
    for _ in range(n):
        x1, y1 = g.r.uniform(lo, hi - min_side - 0.5), g.r.uniform(lo, hi - min_side - 0.5)
        x2, y2 = g.r.uniform(x1 + min_side, hi), g.r.uniform(y1 + min_side, hi)
        rows.append([round(x1, 3), round(y1, 3), round(x2, 3), round(y2, 3)])
    return rows


def tv_nms(qn):
    """nms(dets[n, 4], scores[n], iou_threshold) -> kept indices by decreasing score.  Scores are distinct; no IoU sits on the threshold."""
    if not _tv():
        return

    def mk(v):
        def b(g):
            torch = g.torch
            n = {"n=0": 0, "n=1": 1}.get(v, g.r.randint(4, 8))
            rows = _boxes(g, n)
            if v == "nested-and-shifted" and n >= 4:
                x1, y1, x2, y2 = rows[0]
                rows[1] = [x1 + 0.1, y1 + 0.1, x2 - 0.1, y2 - 0.1]
                rows[2] = [x1 + 0.3, y1, x2 + 0.3, y2]
            if v == "identical" and n >= 3:
                rows[1] = list(rows[0])
                rows[2] = list(rows[0])
            if v == "disjoint":
                rows = [[3.0 * k, 0.0, 3.0 * k + 2.0, 2.0] for k in range(n)]
            boxes = torch.tensor(rows, dtype=torch.float32).reshape(n, 4)
            sc = g.r.sample(range(1, 200), n)
            scores = torch.tensor([s / 200.0 for s in sc], dtype=torch.float32)
            thr = {"iou=0": 0.0, "iou=1": 1.0, "iou=0.9": 0.9, "iou=0.1": 0.1}.get(v, 0.5)
            return [boxes, scores, thr], {}
        return b

    for v in ("plain", "nested-and-shifted", "identical", "disjoint", "iou=0", "iou=1", "iou=0.9", "iou=0.1", "n=1", "n=0"):
        yield S(f"{v}/f32", mk(v))


def tv_roi(qn, kind):
    """roi_align(input[N,C,H,W], rois[K,5] = (batch, x1, y1, x2, y2), spatial_scale, pooled_height, pooled_width, sampling_ratio, aligned)
    roi_pool(input, rois, spatial_scale, pooled_height, pooled_width) -> (output, argmax)."""
    if not _tv():
        return
    dts = [d for d in adm(qn) if is_float(d)]

    def mk(dt, v):
        def b(g):
            torch = g.torch
            r = g.r
            N, C, H, W = r.randint(1, 2), r.randint(1, 2), r.randint(6, 8), r.randint(6, 8)
            if "N=3" in v:
                N = 3
            x = g.t([N, C, H, W], dt, "distinct" if kind == "pool" else "any")
            K = 0 if "K=0" in v else r.randint(2, 4)
            scale = 0.5 if "scale=0.5" in v else (2.0 if "scale=2" in v else 1.0)
            rows = _boxes(g, K, 0.0, (min(H, W) - 1) / scale, 1.0 / scale)
            if "tiny-roi" in v and K:
                rows[0] = [1.2, 1.3, 1.45, 1.5]
            if kind == "pool":      # integral corners: roi_pool rounds them (ties are a discontinuity)
                rows = [[float(int(a)) for a in row[:2]] + [float(int(a) + 1) for a in row[2:]] for row in rows]
            bi = [float(r.randrange(N)) for _ in range(K)]
            if "N=3" in v and K >= 2:
                bi[0], bi[1] = 2.0, 0.0
            rois = torch.tensor([[bi[k]] + rows[k] for k in range(K)], dtype=g.E.tdt[dt]).reshape(K, 5)
            ph, pw = (1, 1) if "1x1" in v else ((2, 3) if "2x3" in v else (r.randint(2, 3), r.randint(2, 3)))
            if kind == "pool":
                return [x, rois, scale, ph, pw], {}
            sr = {"sr=0": 0, "sr=-1": -1, "sr=1": 1, "sr=3": 3}.get(v.split("+")[0], 2)
            return [x, rois, scale, ph, pw, sr, "aligned" in v], {}
        return b

    vs = ["plain", "plain+aligned", "sr=0", "sr=0+aligned", "sr=-1", "sr=1", "sr=3+aligned", "plain+scale=0.5", "plain+scale=0.5+aligned", "plain+scale=2",
          "plain+1x1", "plain+2x3+aligned", "plain+N=3", "plain+tiny-roi", "plain+tiny-roi+aligned", "plain+K=0"] if kind == "align" else \
         ["plain", "plain+scale=0.5", "plain+1x1", "plain+2x3", "plain+N=3", "plain+K=0"]
    for dt in dts:
        yield S(f"plain/{dt}", mk(dt, "plain"), scale=4.0 if dt != "f16" else 16.0)   # (f16: sums of bilinear samples that cancel)
    for dt in lead(dts, ("f32",)):
        for v in vs[1:]:
            yield S(f"{v}/{dt}", mk(dt, v), scale=4.0)


def tv_deform_conv2d(qn):
    """deform_conv2d(input, weight, offset, mask, bias, stride_h, stride_w, pad_h, pad_w, dilation_h, dilation_w, groups, offset_groups, use_mask)."""
    if not _tv():
        return
    # the function records opset-19 DeformConv; the direct driver builds opset-18 models, which ORT refuses to load, so only
    # onnx.reference speaks here (status disputed when it agrees with eager).  Its float64 kernel is not float64-accurate: no f64 stratum.
    dts = [d for d in _fdts(qn) if d != "f64"]

    def mk(dt, v):
        def b(g):
            r = g.r
            groups = 2 if "groups" in v else 1
            og = 2 if "offset_groups" in v else 1
            N, cin, cout = r.randint(1, 2), 2 * r.randint(1, 2), 2 * r.randint(1, 2)
            H, W = r.randint(4, 6), r.randint(4, 6)
            kh, kw = (2, 3) if "kernel-asym" in v else (r.randint(1, 3),) * 2
            sh, sw = (2, 1) if "stride" in v else (1, 1)
            ph, pw = (1, 0) if "padding" in v else (0, 0)
            dh, dw = (1, 2) if "dilation" in v else (1, 1)
            ho = (H + 2 * ph - dh * (kh - 1) - 1) // sh + 1
            wo = (W + 2 * pw - dw * (kw - 1) - 1) // sw + 1
            x = g.t([N, cin, H, W], dt, "small")
            w = g.t([cout, cin // groups, kh, kw], dt, "small")
            off = g.t([N, 2 * og * kh * kw, ho, wo], dt, "unit") * (0.0 if "zero-offset" in v else 1.0) + (0.0 if "zero-offset" in v else 0.0137)
            use_mask = "mask" in v
            mask = g.t([N, og * kh * kw, ho, wo], dt, "prob") if use_mask else g.t([N, 0, ho, wo], dt)
            bias = g.t([cout], dt, "small") if "no-bias" not in v else g.torch.zeros([cout], dtype=g.E.tdt[dt])
            return [x, w, off, mask, bias, sh, sw, ph, pw, dh, dw, groups, og, use_mask], {}
        return b

    for dt in dts:
        yield S(f"plain/{dt}", mk(dt, "plain"), scale=16.0)
    for dt in lead(dts, ("f32",)):
        for v in ("zero-offset", "mask", "no-bias", "kernel-asym", "stride", "padding", "dilation", "groups", "offset_groups", "mask+offset_groups+stride+padding"):
            yield S(f"{v}/{dt}", mk(dt, v), scale=16.0)


_TV = "torchvision"
_reg(_TV, "torchvision::nms", tv_nms)
_reg(_TV, "torchvision::roi_align", tv_roi, kind="align")
_reg(_TV, "torchvision::roi_pool", tv_roi, kind="pool")
_reg(_TV, "torchvision::deform_conv2d", tv_deform_conv2d)
