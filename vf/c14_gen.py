"""C14 generators: ONNX Script sources with many names live out of if/loop, small ONNX models
for optimize / rewrite / fold_constants / convert_version, and the history alphabet.

Everything is a pure function of JSON-able parameters, so the parent only ships parameters and
the child process rebuilds sources/models itself.  No hash-dependent iteration anywhere
(lists and sorted() only): the generator must give the same text under every PYTHONHASHSEED.
"""
from __future__ import annotations

import numpy as np

# --------------------------------------------------------------------------------------------
# scripts
# --------------------------------------------------------------------------------------------

HEADER = (
    "from onnxscript import script, FLOAT, INT64, BOOL\n"
    "from onnxscript import opset18 as op\n"
    "from onnxscript import opset18\n"
    "KG = 2.5\n"
    "KI = 3\n"
)

WORDS = [
    "a", "b", "acc", "total", "v0", "tmp", "res", "q", "zeta", "alpha", "m1", "w", "state", "out1", "k9", "lhs",
    "rhs", "u", "beta", "s2", "carry", "p", "gamma", "t7", "mean", "delta", "h", "z9", "rr", "omega", "n1", "e",
    "left", "right", "sum_", "prod", "g", "c3", "dd", "val", "first", "second", "third", "aa", "bb", "cc", "x1", "y1",
]

SCRIPT_KINDS = ["if", "if_onesided", "if_fresh", "loop", "while", "if_in_loop", "loop_in_if", "if_seq", "if_tuple",
                "loop_tuple"]


def _expr(rng, names, params, depth=0):
    """A float tensor expression over already-defined names."""
    pool = list(names) + list(params)
    r = rng.random()
    if depth >= 2 or r < 0.25:
        return rng.choice(pool)
    if r < 0.40:
        return f"{rng.choice(pool)} {rng.choice('+-*')} {rng.choice(['0.5', '1.0', '2.0', '3.0', 'KG'])}"
    if r < 0.55:
        return f"op.{rng.choice(['Neg', 'Abs', 'Relu', 'Tanh'])}({_expr(rng, names, params, depth + 1)})"
    return f"({_expr(rng, names, params, depth + 1)} {rng.choice('+-*')} {_expr(rng, names, params, depth + 1)})"


def _combine(rng, names):
    ns = list(names)
    e = ns[0]
    for n in ns[1:]:
        e = f"{e} {rng.choice('+-*')} {n}"
    return e


def gen_script(rng, fname: str, kind: str, nlive: int):
    """-> (source text of one decorated function, feature signature)."""
    names = rng.sample(WORDS, nlive)
    params = ["x", "y"]
    n = rng.choice([2, 3, 4])
    L = [f"@script()", f"def {fname}(x: FLOAT[{n}], y: FLOAT[{n}]):"]
    ind = "    "

    def defs(which):
        for k, v in enumerate(which):
            e = _expr(rng, [], params)
            # at least one explicit op call, so that @script() needs no default_opset
            L.append(f"{ind}{v} = op.Identity({e})" if k == 0 else f"{ind}{v} = {e}")

    def cond(varname, over):
        L.append(f"{ind}{varname} = op.ReduceSum({over}) {rng.choice(['>', '<'])} {rng.choice(['0.0', '1.0', '10.0'])}")

    def assigns(which, avail, pad):
        for v in which:
            L.append(f"{pad}{v} = {_expr(rng, avail, params)}")

    tuple_ret = kind.endswith("_tuple")
    base = kind.replace("_tuple", "")
    if base == "if":
        defs(names)
        cond("cnd", "x")
        L.append(f"{ind}if cnd:")
        assigns(rng.sample(names, len(names)), names, ind * 2)
        L.append(f"{ind}else:")
        assigns(rng.sample(names, len(names)), names, ind * 2)
    elif base == "if_onesided":
        defs(names)
        cond("cnd", "y")
        k = max(1, len(names) // 2)
        L.append(f"{ind}if cnd:")
        assigns(names[:k] + names[k:][:1], names, ind * 2)
        L.append(f"{ind}else:")
        assigns(names[k:], names, ind * 2)
    elif base == "if_fresh":
        # names first defined inside both branches
        cond("cnd", "x")
        L.append(f"{ind}if cnd:")
        done = []
        for v in names:
            L.append(f"{ind * 2}{v} = {_expr(rng, done, params)}")
            done.append(v)
        L.append(f"{ind}else:")
        done = []
        for v in rng.sample(names, len(names)):
            L.append(f"{ind * 2}{v} = {_expr(rng, done, params)}")
            done.append(v)
    elif base == "loop":
        defs(names)
        L.append(f"{ind}for i in range({rng.choice([2, 3, 'KI'])}):")
        assigns(rng.sample(names, len(names)), names, ind * 2)
    elif base == "while":
        defs(names)
        cond("go", names[0])
        L.append(f"{ind}while go:")
        assigns(rng.sample(names, len(names)), names, ind * 2)
        L.append(f"{ind * 2}go = op.ReduceSum({names[0]}) < -1000.0")
    elif base == "if_in_loop":
        defs(names)
        L.append(f"{ind}for i in range(2):")
        L.append(f"{ind * 2}cnd = op.ReduceSum({names[0]}) > 0.0")
        L.append(f"{ind * 2}if cnd:")
        assigns(rng.sample(names, len(names)), names, ind * 3)
        L.append(f"{ind * 2}else:")
        assigns(rng.sample(names, len(names)), names, ind * 3)
    elif base == "loop_in_if":
        defs(names)
        cond("cnd", "x")
        L.append(f"{ind}if cnd:")
        L.append(f"{ind * 2}for i in range(2):")
        assigns(rng.sample(names, len(names)), names, ind * 3)
        L.append(f"{ind}else:")
        assigns(rng.sample(names, len(names)), names, ind * 2)
    elif base == "if_seq":
        defs(names)
        cond("cnd", "x")
        L.append(f"{ind}if cnd:")
        assigns(rng.sample(names, len(names)), names, ind * 2)
        L.append(f"{ind}else:")
        assigns(rng.sample(names, len(names)), names, ind * 2)
        cond("cnd2", names[-1])
        L.append(f"{ind}if cnd2:")
        assigns(rng.sample(names, len(names)), names, ind * 2)
        L.append(f"{ind}else:")
        assigns(rng.sample(names, len(names)), names, ind * 2)
    else:
        raise ValueError(kind)
    if tuple_ret:
        L.append(f"{ind}return {', '.join(names)}")
    else:
        L.append(f"{ind}return {_combine(rng, names)}")
    return "\n".join(L) + "\n", f"{kind}/{nlive}"


REFUSED = [
    # (label, body) - each is refused at decoration time (checked against the pinned tree)
    ("undefined_name", "    return op.Add(x, nowhere_defined_)\n"),
    ("return_in_if", "    c = op.ReduceSum(x) > 0.0\n    if c:\n        return x\n    return y\n"),
    ("augassign", "    a = op.Abs(x)\n    a += y\n    return a\n"),
    ("while_nonname", "    a = x\n    while op.ReduceSum(a) > 0.0:\n        a = a - 1.0\n    return a\n"),
    ("branch_unassigned", "    c = op.ReduceSum(x) > 0.0\n    if c:\n        fresh_ = x + y\n    else:\n        other_ = x\n    return fresh_\n"),
    ("for_not_range", "    a = x\n    for i in [1, 2]:\n        a = a + 1.0\n    return a\n"),
    ("value_as_attr", "    return op.Transpose(x, perm=y)\n"),
    ("break_in_loop_body", "    a = op.Abs(x)\n    for i in range(3):\n        a = a + 1.0\n        break\n    return a\n"),
    ("lambda", "    a = op.Abs(x)\n    t = lambda: a\n    return a\n"),
]


def refused_script(fname: str, which: int) -> str:
    label, body = REFUSED[which % len(REFUSED)]
    return f"@script()\ndef {fname}(x: FLOAT[3], y: FLOAT[3]):\n{body}"


def script_target_params(rng, idx: int):
    kind = SCRIPT_KINDS[idx % len(SCRIPT_KINDS)]
    return {"kind": kind, "nlive": 3 + (idx // len(SCRIPT_KINDS) + rng.randrange(3)) % 5, "gseed": rng.randrange(1 << 30)}


def script_source(p: dict, fname: str = "target_fn"):
    import random

    rng = random.Random(p["gseed"])
    src, sig = gen_script(rng, fname, p["kind"], p["nlive"])
    return HEADER + src, sig


# --------------------------------------------------------------------------------------------
# models
# --------------------------------------------------------------------------------------------

F, I64 = 1, 7


def _h():
    from onnx import helper

    return helper


def _vi(name, et, shape):
    return _h().make_tensor_value_info(name, et, shape)


def _init(name, arr):
    from onnx import numpy_helper

    return numpy_helper.from_array(np.asarray(arr), name)


def _model(nodes, inputs, outputs, inits=(), vinfo=(), opset=18, ir_version=9, extra_opsets=()):
    h = _h()
    g = h.make_graph(list(nodes), "g", list(inputs), list(outputs), initializer=list(inits), value_info=list(vinfo))
    m = h.make_model(g, opset_imports=[h.make_opsetid("", opset)] + [h.make_opsetid(d, v) for d, v in extra_opsets],
                     ir_version=ir_version, producer_name="vf.c14")
    if not all(o.type.tensor_type.HasField("shape") for o in m.graph.output):
        # onnx.checker(full_check) wants a shape field on graph outputs: take it from onnx shape inference
        import onnx

        try:
            inf = onnx.shape_inference.infer_shapes(m, data_prop=True)
            got = {o.name: o for o in inf.graph.output}
            for o in m.graph.output:
                if not o.type.tensor_type.HasField("shape") and o.name in got and got[o.name].type.tensor_type.HasField("shape"):
                    o.type.CopyFrom(got[o.name].type)
        except Exception:
            pass
    return m


def _n(op, ins, outs, **attrs):
    name = attrs.pop("_name", None) or f"n_{outs[0]}"
    return _h().make_node(op, list(ins), list(outs), name=name, **attrs)


def t_reshape_reshape(p):
    """Reshape(Reshape(x, s1), s2) -> ReshapeReshape rule (sets _new_shape/_allowzero/_new_shape_name in check)."""
    ins = p["in_shape"]
    nodes = [_n("Reshape", ["x", "s1"], ["r1"]),
             _n("Reshape", ["r1", "s2"], ["r2"], **({"allowzero": 1} if p.get("allowzero") else {})),
             _n("Relu", ["r2"], ["out"])]
    inits = [_init("s1", np.array(p["s1"], np.int64)), _init("s2", np.array(p["s2"], np.int64))]
    vinfo = []
    if p.get("vi_r2") is not None:
        vinfo.append(_vi("r2", F, p["vi_r2"]))
    return _model(nodes, [_vi("x", F, ins)], [_vi("out", F, p.get("out_shape"))], inits, vinfo)


def t_flatten(p):
    """Flatten(x) -> Flatten2Reshape rule (sets _new_shape in check)."""
    nodes = [_n("Flatten", ["x"], ["f"], axis=p["axis"]), _n("Abs", ["f"], ["out"])]
    return _model(nodes, [_vi("x", F, p["in_shape"])], [_vi("out", F, None)])


def t_pad_conv(p):
    """Conv(Pad(x)) -> FuseConvPad rule (sets _pads_list in check)."""
    c, k = p["c"], p["k"]
    w = (np.arange(2 * c * k * k, dtype=np.float32).reshape(2, c, k, k) % 5 - 2) / 4
    inits = [_init("pads", np.array(p["pads"], np.int64)), _init("w", w)]
    pad_in = ["x", "pads"]
    if p.get("cval") is not None:
        inits.append(_init("cv", np.array(p["cval"], np.float32)))
        pad_in.append("cv")
    attrs = {}
    if p.get("conv_pads"):
        attrs["pads"] = p["conv_pads"]
    if p.get("auto_pad"):
        attrs["auto_pad"] = p["auto_pad"]
    nodes = [_n("Pad", pad_in, ["pd"], **({"mode": p["mode"]} if p.get("mode") else {})),
             _n("Conv", ["pd", "w"], ["out"], **attrs)]
    return _model(nodes, [_vi("x", F, [1, c, p["hw"], p["hw"]])], [_vi("out", F, None)], inits)


def t_materialize(p):
    """Reshape with a dynamically computed shape input and known output shape -> MaterializeReshapeShape."""
    d = p["dims"]  # data shape, e.g. [2, 3, 4]
    nodes = [_n("Shape", ["x"], ["sh"], start=0, end=1), _n("Concat", ["sh", "m1"], ["ns"], axis=0),
             _n("Reshape", ["x", "ns"], ["r"]), _n("Neg", ["r"], ["out"])]
    inits = [_init("m1", np.array([-1], np.int64))]
    first = p.get("sym") or d[0]
    out_shape = [first, int(np.prod(d[1:]))]
    return _model(nodes, [_vi("x", F, [first] + d[1:])], [_vi("out", F, out_shape)], inits, [_vi("r", F, out_shape)])


def t_layernorm(p):
    """The LayerNormalization pattern of rules/fusion/_layer_norm.py (sets _stash_type/_epsilon in check)."""
    et = p.get("et", F)
    npd = {1: np.float32, 11: np.float64, 10: np.float16}[et]
    sh = p["shape"]
    nodes = [_n("ReduceMean", ["x", "ax"], ["mean"], keepdims=1), _n("Sub", ["x", "mean"], ["d"])]
    if p.get("pow"):
        nodes.append(_n("Pow", ["d", "two"], ["dd"]))
    else:
        nodes.append(_n("Mul", ["d", "d"], ["dd"]))
    nodes += [_n("ReduceMean", ["dd", "ax"], ["var"], keepdims=1)]
    inits = [_init("ax", np.array([-1], np.int64)), _init("two", np.array(2.0, npd)),
             _init("scale", (np.arange(sh[-1]) % 3 + 1).astype(npd))]
    inputs = [_vi("x", et, sh)]
    if p.get("eps_input"):
        inputs.append(_vi("eps", et, []))
    else:
        inits.append(_init("eps", np.array(p.get("eps", 1e-5), npd)))
    nodes += [_n("Add", ["var", "eps"], ["ve"]), _n("Sqrt", ["ve"], ["sd"])]
    if p.get("div"):
        nodes.append(_n("Div", ["d", "sd"], ["nrm"]))
    else:
        nodes += [_n("Reciprocal", ["sd"], ["isd"]), _n("Mul", ["d", "isd"], ["nrm"])]
    nodes.append(_n("Mul", ["nrm", "scale"], ["out"]))
    vinfo = [_vi(v, et, None) for v in ["mean", "d", "dd", "var", "ve", "sd", "nrm"]]
    return _model(nodes, inputs, [_vi("out", et, sh)], inits, vinfo)


def t_rmsnorm(p):
    """The RMSNormalization pattern of rules/fusion/_rms_normalization.py (sets _stash_dtype in check)."""
    et = p.get("et", F)
    npd = {1: np.float32, 11: np.float64, 10: np.float16}[et]
    ct = p.get("cast_to")  # compute dtype via Cast, or None
    cnp = {None: npd, 1: np.float32, 11: np.float64, 10: np.float16}[ct]
    sh = p["shape"]
    nodes, xin = [], "x"
    if ct:
        nodes.append(_n("Cast", ["x"], ["xc"], to=ct))
        xin = "xc"
    nodes += [_n("Pow", [xin, "two"], ["sq"]), _n("ReduceMean", ["sq", "ax"], ["ms"], keepdims=1, noop_with_empty_axes=0),
              _n("Add", ["ms", "eps"], ["mse"]), _n("Sqrt", ["mse"], ["rms"]), _n("Reciprocal", ["rms"], ["rr"]),
              _n("Mul", [xin, "rr"], ["nrm"])]
    nin = "nrm"
    if ct:
        nodes.append(_n("Cast", ["nrm"], ["nc"], to=et))
        nin = "nc"
    nodes.append(_n("Mul", [nin, "scale"] if p.get("mul_order", True) else ["scale", nin], ["out"]))
    inits = [_init("two", np.array(2.0, cnp)), _init("ax", np.array([-1], np.int64)),
             _init("eps", np.array(p.get("eps", 1e-6), cnp)), _init("scale", (np.arange(sh[-1]) % 4 + 1).astype(npd))]
    vinfo = [_vi(v, ct or et, None) for v in (["xc"] if ct else []) + ["sq", "ms", "mse", "rms", "rr", "nrm"]]
    if ct:
        vinfo.append(_vi("nc", et, None))
    return _model(nodes, [_vi("x", et, sh)], [_vi("out", et, sh)], inits, vinfo, opset=23, ir_version=11)


def t_basic(p):
    """Cast-Cast, Transpose-Transpose, Unsqueeze-Unsqueeze, Min/Max->Clip, no-ops: stateless default rules."""
    v = p["variant"]
    sh = p["shape"]
    if v == "castcast":
        nodes = [_n("Cast", ["x"], ["c1"], to=11), _n("Cast", ["c1"], ["c2"], to=1), _n("Abs", ["c2"], ["out"])]
        return _model(nodes, [_vi("x", F, sh)], [_vi("out", F, sh)], vinfo=[_vi("c1", 11, sh), _vi("c2", F, sh)])
    if v == "transpose2":
        perm = p["perm"]
        nodes = [_n("Transpose", ["x"], ["t1"], perm=perm), _n("Transpose", ["t1"], ["t2"], perm=perm[::-1]),
                 _n("Neg", ["t2"], ["out"])]
        return _model(nodes, [_vi("x", F, sh)], [_vi("out", F, None)])
    if v == "unsqueeze2":
        nodes = [_n("Unsqueeze", ["x", "a1"], ["u1"]), _n("Unsqueeze", ["u1", "a2"], ["u2"]), _n("Relu", ["u2"], ["out"])]
        inits = [_init("a1", np.array([p["a1"]], np.int64)), _init("a2", np.array([p["a2"]], np.int64))]
        return _model(nodes, [_vi("x", F, sh)], [_vi("out", F, None)], inits)
    if v == "minmax":
        nodes = [_n("Min", ["x", "hi"], ["m1"]), _n("Max", ["m1", "lo"], ["m2"]), _n("Identity", ["m2"], ["out"])]
        inits = [_init("hi", np.array(p["hi"], np.float32)), _init("lo", np.array(p["lo"], np.float32))]
        return _model(nodes, [_vi("x", F, sh)], [_vi("out", F, sh)], inits)
    if v == "noop":
        nodes = [_n("Add", ["x", "zero"], ["a"]), _n("Mul", ["a", "one"], ["b"]), _n("Identity", ["b"], ["c"]),
                 _n("Dropout", ["c"], ["out"])]
        inits = [_init("zero", np.array(0.0, np.float32)), _init("one", np.array(1.0, np.float32))]
        return _model(nodes, [_vi("x", F, sh)], [_vi("out", F, sh)], inits)
    if v == "reluclip":
        nodes = [_n("Relu", ["x"], ["r"]), _n("Clip", ["r", "lo", "hi"], ["c"]), _n("Relu", ["c"], ["out"])]
        inits = [_init("lo", np.array(p["lo"], np.float32)), _init("hi", np.array(p["hi"], np.float32))]
        return _model(nodes, [_vi("x", F, sh)], [_vi("out", F, sh)], inits, [_vi("r", F, sh), _vi("c", F, sh)])
    raise ValueError(v)


def t_fold(p):
    """Foldable sub-expressions: constant arithmetic, Shape of a static shape, If on a constant, duplicates."""
    v = p["variant"]
    sh = p["shape"]
    k = np.asarray(p.get("k", [1.5, -2.0, 0.25]), np.float32)
    if v == "arith":
        nodes = [_n("Constant", [], ["c1"], value=_init("c1v", k)), _n("Constant", [], ["c2"], value=_init("c2v", k * 2)),
                 _n("Add", ["c1", "c2"], ["c3"]), _n("Mul", ["c3", "c1"], ["c4"]), _n("Add", ["x", "c4"], ["out"])]
        return _model(nodes, [_vi("x", F, [len(k)])], [_vi("out", F, [len(k)])])
    if v == "shape":
        nodes = [_n("Shape", ["x"], ["s"]), _n("Gather", ["s", "idx"], ["g"], axis=0), _n("Cast", ["g"], ["gf"], to=1),
                 _n("Mul", ["x", "gf"], ["out"])]
        return _model(nodes, [_vi("x", F, sh)], [_vi("out", F, sh)], [_init("idx", np.array(p.get("idx", 0), np.int64))])
    if v == "if_const":
        h = _h()
        tg = h.make_graph([_n("Add", ["x", "one"], ["t"])], "then", [], [_vi("t", F, sh)])
        eg = h.make_graph([_n("Sub", ["x", "one"], ["e"])], "else", [], [_vi("e", F, sh)])
        nodes = [_n("Constant", [], ["cnd"], value=_init("cv", np.array(bool(p.get("cond", True))))),
                 _n("If", ["cnd"], ["out"], then_branch=tg, else_branch=eg)]
        return _model(nodes, [_vi("x", F, sh)], [_vi("out", F, sh)], [_init("one", np.array(1.0, np.float32))])
    if v == "cse":
        nodes = [_n("Exp", ["x"], ["e1"]), _n("Exp", ["x"], ["e2"]), _n("Add", ["e1", "ka"], ["a1"]),
                 _n("Add", ["e2", "kb"], ["a2"]), _n("Mul", ["a1", "a2"], ["out"])]
        return _model(nodes, [_vi("x", F, [len(k)])], [_vi("out", F, [len(k)])], [_init("ka", k), _init("kb", k)])
    if v == "concat_consts":
        nodes = [_n("Concat", ["k1", "k2"], ["cc"], axis=0), _n("Reshape", ["x", "cc"], ["r"]), _n("Abs", ["r"], ["out"])]
        return _model(nodes, [_vi("x", F, [2, 6])], [_vi("out", F, None)],
                      [_init("k1", np.array([p.get("d0", 3)], np.int64)), _init("k2", np.array([-1], np.int64))])
    raise ValueError(v)


def t_fold_versioned(p):
    """A constant sub-expression whose operator changed its signature between opset versions (Reduce* took `axes` as an
    attribute up to opset 17 and as an input from 18): folding must evaluate it with the implementation of the MODEL's
    opset, whatever models were folded earlier in the process."""
    opset, opn = p["opset"], p["op"]
    k = np.asarray(p.get("k", [[1.5, -2.0, 0.25], [0.5, 4.0, -1.0]]), np.float32)
    if opset >= 18:
        nodes = [_n(opn, ["c", "axes"], ["r"], keepdims=0), _n("Add", ["x", "r"], ["out"])]
        inits = [_init("c", k), _init("axes", np.array([0], np.int64))]
    else:
        nodes = [_n(opn, ["c"], ["r"], axes=[0], keepdims=0), _n("Add", ["x", "r"], ["out"])]
        inits = [_init("c", k)]
    return _model(nodes, [_vi("x", F, [k.shape[1]])], [_vi("out", F, [k.shape[1]])], inits, opset=opset, ir_version=8)


def t_convert(p):
    """Models for convert_version: the three ops that have adapters + plain ops."""
    v = p["variant"]
    src = p["src"]
    irv = {18: 8, 19: 9, 20: 9, 21: 10, 22: 10, 23: 11}.get(src, 10)
    if v == "gridsample":
        nodes = [_n("GridSample", ["x", "grid"], ["gs"], mode=p.get("mode", "bilinear")), _n("Relu", ["gs"], ["out"])]
        return _model(nodes, [_vi("x", F, [1, 1, 4, 4]), _vi("grid", F, [1, 2, 2, 2])], [_vi("out", F, None)], opset=src,
                      ir_version=irv)
    if v == "dft":
        nodes = [_n("DFT", ["x"] + (["dl"] if p.get("dl") else []), ["d"], axis=p.get("axis", 1)), _n("Neg", ["d"], ["out"])]
        inits = [_init("dl", np.array(p["dl"], np.int64))] if p.get("dl") else []
        return _model(nodes, [_vi("x", F, [1, 8, 1])], [_vi("out", F, None)], inits, opset=src, ir_version=irv)
    if v == "groupnorm":
        c = 4
        nodes = [_n("GroupNormalization", ["x", "sc", "bi"], ["g"], num_groups=p.get("groups", 2)), _n("Abs", ["g"], ["out"])]
        ng = p.get("groups", 2) if src < 21 else c
        inits = [_init("sc", np.ones(ng, np.float32)), _init("bi", np.zeros(ng, np.float32))]
        return _model(nodes, [_vi("x", F, [1, c, 2, 2])], [_vi("out", F, [1, c, 2, 2])], inits, opset=src, ir_version=irv)
    if v == "plain":
        nodes = [_n("Add", ["x", "k"], ["a"]), _n("Softmax", ["a"], ["s"], axis=-1), _n("Reshape", ["s", "shp"], ["out"])]
        inits = [_init("k", np.array(p.get("k", [1.0, 2.0, 3.0]), np.float32)), _init("shp", np.array([-1], np.int64))]
        return _model(nodes, [_vi("x", F, [2, 3])], [_vi("out", F, [6])], inits, opset=src, ir_version=irv)
    raise ValueError(v)


def t_subrelu(p):
    """k instances of Relu(Sub(a, b)) feeding a sum: what the persistent custom rule objects of the child process (an
    as_function rule, a rule with a replacement-side counter ...) match."""
    nodes, acc = [], None
    for k in range(p["k"]):
        a, b = ("x", "y") if k % 2 == 0 else ("y", "x")
        nodes += [_n("Sub", [a, b], [f"s{k}"]), _n("Relu", [f"s{k}"], [f"r{k}"])]
        if acc is None:
            acc = f"r{k}"
        else:
            nodes.append(_n("Add", [acc, f"r{k}"], [f"a{k}"]))
            acc = f"a{k}"
    nodes.append(_n("Mul", [acc, "w"], ["out"]))
    return _model(nodes, [_vi("x", F, [p["n"]]), _vi("y", F, [p["n"]])], [_vi("out", F, [p["n"]])],
                  [_init("w", np.full((p["n"],), p["w"], np.float32))], opset=p.get("opset", 18))


def g_subrelu(rng):
    return {"k": rng.choice([1, 1, 2, 3]), "n": rng.choice([2, 3, 4]), "w": rng.choice([0.5, 2.0, -1.0]), "opset": rng.choice([18, 20])}


TEMPLATES = {
    "subrelu": t_subrelu,
    "reshape_reshape": t_reshape_reshape, "flatten": t_flatten, "pad_conv": t_pad_conv, "materialize": t_materialize,
    "layernorm": t_layernorm, "rmsnorm": t_rmsnorm, "basic": t_basic, "fold": t_fold, "convert": t_convert,
    "fold_versioned": t_fold_versioned,
}


def build_model(template: str, params: dict):
    m = TEMPLATES[template](params)
    if params.get("unnamed"):
        # what onnx.helper-built models look like: nodes without names (a renaming pass has something to do)
        for n in m.graph.node:
            n.name = ""
    return m


# ---- parameter generators (each returns params for a model on which the rule can fire) -------

def g_reshape_reshape(rng, ok=True):
    dims = rng.choice([[2, 3, 4], [4, 6], [2, 2, 2, 3], [1, 12], [3, 8]])
    tot = int(np.prod(dims))
    facs = [d for d in (1, 2, 3, 4, 6, 8, 12) if tot % d == 0]
    a = rng.choice(facs)
    s1 = [a, tot // a]
    b = rng.choice(facs)
    form = rng.choice(["plain", "minus1", "zero", "allowzero"])
    if form == "plain":
        s2 = [b, tot // b]
    elif form == "minus1":
        s2 = [b, -1]
    elif form == "zero":
        s2 = [0, tot // a]  # 0 copies dim a of r1
    else:
        s2 = [b, tot // b]
    p = {"in_shape": dims, "s1": s1, "s2": s2, "allowzero": form == "allowzero", "out_shape": None}
    if rng.random() < 0.5 and form != "zero":
        p["vi_r2"] = [b, tot // b]
    return p


def g_reshape_setfail(rng):
    """check() stores _new_shape/_allowzero/_new_shape_name, then fails (0 together with -1)."""
    p = g_reshape_reshape(rng)
    p["s2"] = [0, -1]
    p["allowzero"] = False
    p.pop("vi_r2", None)
    return p


def g_reshape_raise(rng):
    """check() stores _new_shape, then raises IndexError (output rank annotation longer than the shape constant)."""
    p = g_reshape_reshape(rng)
    p["s2"] = [-1]
    p["allowzero"] = False
    p["vi_r2"] = [1, 1, int(np.prod(p["in_shape"]))]
    return p


def g_flatten(rng):
    sh = rng.choice([[2, 3, 4], [2, 3], [1, 4, 2, 2], ["N", 3, 4], [2, "M", 4], [5]])
    return {"in_shape": sh, "axis": rng.choice(list(range(0, len(sh) + 1)) + [-1])}


def g_pad_conv(rng, mode="ok"):
    c, k, hw = rng.choice([1, 2, 3]), rng.choice([1, 2, 3]), rng.choice([5, 6, 7])
    a, b, c2, d = [rng.choice([0, 1, 2]) for _ in range(4)]
    pads = [0, 0, a, b, 0, 0, c2, d]
    p = {"c": c, "k": k, "hw": hw, "pads": pads}
    if rng.random() < 0.5:
        p["conv_pads"] = [rng.choice([0, 1]) for _ in range(4)]
    if rng.random() < 0.5:
        p["cval"] = 0.0
    if mode == "nonspatial":     # check(): _pads_list set, then reset to None and fail
        p["pads"] = [0, 1, a, b, 0, 0, c2, d]
    elif mode == "negative":
        p["pads"] = [0, 0, -1, b, 0, 0, c2, d]
    elif mode == "autopad":      # base check passes (keeps _pads_list), subclass check then fails
        p["auto_pad"] = "VALID"
        p.pop("conv_pads", None)
    return p


def g_materialize(rng):
    d = rng.choice([[2, 3, 4], [3, 2, 2], [4, 5], [2, 2, 2, 2]])
    p = {"dims": d}
    if rng.random() < 0.4:
        p["sym"] = "B"
    return p


def g_layernorm(rng, mode="ok"):
    p = {"shape": rng.choice([[2, 4], [2, 3, 8], [1, 6]]), "pow": rng.random() < 0.5, "div": rng.random() < 0.5,
         "eps": rng.choice([1e-5, 1e-6, 1e-3, 0.5]), "et": rng.choice([1, 11])}
    if mode == "setfail":        # check(): _stash_type set, then epsilon is not a constant -> fail
        p["eps_input"] = True
    elif mode == "f16":          # fails before anything is stored
        p["et"] = 10
    return p


def g_rmsnorm(rng, mode="ok"):
    p = {"shape": rng.choice([[2, 4], [2, 3, 8], [1, 6]]), "eps": rng.choice([1e-6, 1e-5, 0.25]),
         "mul_order": rng.random() < 0.5, "et": rng.choice([1, 11, 10]), "cast_to": None}
    if p["et"] == 10 or rng.random() < 0.4:
        p["cast_to"] = rng.choice([1, 11])
    if mode == "setfail":        # check(): _stash_dtype = FLOAT16, then "not a float or double type" -> fail
        p["et"] = 1
        p["cast_to"] = 10
    return p


def g_basic(rng):
    v = rng.choice(["castcast", "transpose2", "unsqueeze2", "minmax", "noop", "reluclip"])
    p = {"variant": v, "shape": rng.choice([[2, 3], [4], [2, 2, 3]])}
    if v == "transpose2":
        perm = list(range(len(p["shape"])))
        rng.shuffle(perm)
        # second transpose uses the reverse list; whether it is the inverse is irrelevant here
        p["perm"] = perm
    if v == "unsqueeze2":
        p["a1"], p["a2"] = rng.choice([(0, 1), (1, 0), (0, 0), (1, 2)])
    if v in ("minmax", "reluclip"):
        lo = rng.choice([0.0, 1.0, 2.0])
        p["lo"], p["hi"] = lo, lo + rng.choice([1.0, 3.0, 5.0])
    return p


def g_fold(rng):
    v = rng.choice(["arith", "shape", "if_const", "cse", "concat_consts"])
    p = {"variant": v, "shape": rng.choice([[2, 3], [4], [2, 2, 3]]),
         "k": [round(rng.uniform(-3, 3), 2) for _ in range(rng.choice([2, 3, 4]))]}
    if v == "shape":
        p["idx"] = rng.randrange(len(p["shape"]))
    if v == "if_const":
        p["cond"] = rng.random() < 0.5
    if v == "concat_consts":
        p["d0"] = rng.choice([1, 2, 3, 4, 6, 12])
    return p


def g_fold_versioned(rng):
    n = rng.choice([2, 3, 4])
    return {"opset": rng.choice([13, 17, 18, 20]), "op": rng.choice(["ReduceMax", "ReduceMin", "ReduceProd", "ReduceMean"]),
            "k": [[round(rng.uniform(-3, 3), 2) for _ in range(n)] for _ in range(2)]}


def g_convert(rng, variant=None):
    # GroupNormalization-18 is rejected by onnx.checker as deprecated: not used as a target
    v = rng.choice(["gridsample", "dft", "plain"])
    if variant is not None:
        v = variant
    src = {"gridsample": rng.choice([18, 19]), "dft": rng.choice([18, 19]), "groupnorm": rng.choice([18, 19, 20]),
           "plain": rng.choice([18, 19, 20, 21])}[v]
    p = {"variant": v, "src": src, "target": rng.choice([t for t in (20, 21, 22, 23) if t > src])}
    if v == "gridsample":
        p["mode"] = rng.choice(["bilinear", "nearest", "bicubic"])
    if v == "dft":
        p["axis"] = 1
        if rng.random() < 0.5:
            p["dl"] = 8
    if v == "groupnorm":
        p["groups"] = rng.choice([1, 2, 4])
    if v == "plain":
        p["k"] = [round(rng.uniform(-2, 2), 2) for _ in range(3)]
    return p


# which (template, generator) pairs feed which API
REWRITE_SOURCES = [("reshape_reshape", g_reshape_reshape), ("flatten", g_flatten), ("pad_conv", g_pad_conv),
                   ("materialize", g_materialize), ("basic", g_basic)]
OPTIMIZE_SOURCES = REWRITE_SOURCES + [("fold", g_fold), ("layernorm", g_layernorm), ("fold_versioned", g_fold_versioned)]
FOLD_SOURCES = [("fold", g_fold), ("materialize", g_materialize), ("reshape_reshape", g_reshape_reshape), ("fold_versioned", g_fold_versioned)]


def model_target(rng, api: str, idx: int):
    """Target spec for one of the model APIs.  `idx` walks the strata (template order)."""
    if api == "rewrite":
        t, g = REWRITE_SOURCES[idx % len(REWRITE_SOURCES)]
        return {"api": "rewrite", "rules": "default", "template": t, "params": g(rng)}
    if api == "rewrite_ln":
        return {"api": "rewrite", "rules": "layernorm", "template": "layernorm", "params": g_layernorm(rng)}
    if api == "rewrite_rms":
        # strata: the precision the rule stashes (no Cast: the input's own type) — f32, f64, then free
        p = g_rmsnorm(rng)
        if idx % 3 == 0:
            p["et"], p["cast_to"] = 1, None
        elif idx % 3 == 1:
            p["et"], p["cast_to"] = 11, None
        return {"api": "rewrite", "rules": "rmsnorm", "template": "rmsnorm", "params": p}
    if api == "optimize":
        t, g = OPTIMIZE_SOURCES[idx % len(OPTIMIZE_SOURCES)]
        return {"api": "optimize", "template": t, "params": g(rng)}
    if api == "fold":
        t, g = FOLD_SOURCES[idx % len(FOLD_SOURCES)]
        return {"api": "fold", "template": t, "params": g(rng)}
    if api == "convert":
        # strata: the model hits no adapter / GridSample / DFT, in turn
        p = g_convert(rng, variant=["plain", "gridsample", "dft"][idx % 3])
        if idx % 3 == 0 or idx % 2 == 0:
            p["unnamed"] = True
        return {"api": "convert", "template": "convert", "params": p, "target_version": p["target"]}
    if api == "rewrite_custom":
        # the child's persistent custom rule objects (kind: as_function / counter / plain), in turn
        return {"api": "rewrite_custom", "rule": ["asfn", "plain", "asfn"][idx % 3], "template": "subrelu", "params": g_subrelu(rng)}
    raise ValueError(api)


# --------------------------------------------------------------------------------------------
# history alphabet
# --------------------------------------------------------------------------------------------

HISTORY_OPS = ["tr_ok", "tr_refused", "opt_ok", "rw_ok", "rw_check_raise", "pat_raise", "rw_setfail", "eval_raise",
               "fold_ok", "cv_ok", "cv_raise"]
# operations that are only placed deliberately (sibling histories), never drawn at random - so that extending this list does
# not shift the random histories of the other targets
PLACED_OPS = ["tr_roles", "rwc_ok"]


def roles_script(fname: str, which: int) -> str:
    """A script in which the names that script targets use for TENSORS (their parameters x, y and every local name of the
    generator's vocabulary) play another role: Python constants (which == 0: float, 1: int, 2: bool-free mix) that are used
    as operands, or (which == 3) attribute-like module constants shadowed by locals.  Whatever a translation remembers about
    a NAME must not leak into the next translation."""
    vals = {0: ["2.0", "0.5", "1.5"], 1: ["2", "3", "1"], 2: ["2.0", "3", "0.25"], 3: ["KG", "KI", "2.0"]}[which % 4]
    L = ["@script()", f"def {fname}(p0: FLOAT[3], p1: INT64[3]):", "    r = op.Identity(p0)", "    ri = op.Identity(p1)"]
    for k, w in enumerate(["x", "y"] + WORDS):
        v = vals[k % len(vals)]
        L.append(f"    {w} = {v}")
        is_int = v in ("2", "3", "1", "KI")
        if is_int:
            L.append(f"    ri = ri {'+-*'[k % 3]} {w}")
        else:
            L.append(f"    r = r {'+-*'[k % 3]} {w}")
    L.append("    return r, ri")
    return "\n".join(L) + "\n"


def history_op(rng, name: str):
    """One concrete history operation (JSON-able)."""
    if name == "tr_ok":
        return {"h": name, "script": script_target_params(rng, rng.randrange(100))}
    if name == "tr_refused":
        return {"h": name, "which": rng.randrange(len(REFUSED))}
    if name == "tr_roles":
        return {"h": name, "which": rng.randrange(4)}
    if name == "rwc_ok":
        return {"h": name, "model": model_target(rng, "rewrite_custom", rng.randrange(100))}
    if name == "opt_ok":
        return {"h": name, "model": model_target(rng, "optimize", rng.randrange(100))}
    if name == "rw_ok":
        which = rng.choice(["rewrite", "rewrite", "rewrite_ln", "rewrite_rms"])
        return {"h": name, "model": model_target(rng, which, rng.randrange(100))}
    if name == "rw_check_raise":
        return {"h": name, "model": {"api": "rewrite", "rules": "default", "template": "reshape_reshape",
                                     "params": g_reshape_raise(rng)}}
    if name == "pat_raise":
        return {"h": name, "after": rng.choice([0, 1, 2])}
    if name == "rw_setfail":
        c = rng.choice(["reshape", "pad_nonspatial", "pad_negative", "pad_autopad", "ln", "rms"])
        if c == "reshape":
            m = {"api": "rewrite", "rules": "default", "template": "reshape_reshape", "params": g_reshape_setfail(rng)}
        elif c.startswith("pad_"):
            m = {"api": "rewrite", "rules": "default", "template": "pad_conv", "params": g_pad_conv(rng, c[4:])}
        elif c == "ln":
            m = {"api": "rewrite", "rules": "layernorm", "template": "layernorm", "params": g_layernorm(rng, "setfail")}
        else:
            m = {"api": "rewrite", "rules": "rmsnorm", "template": "rmsnorm", "params": g_rmsnorm(rng, "setfail")}
        return {"h": name, "case": c, "model": m}
    if name == "eval_raise":
        return {"h": name, "inner_set": rng.random() < 0.7}
    if name == "fold_ok":
        return {"h": name, "model": model_target(rng, "fold", rng.randrange(100))}
    if name == "cv_ok":
        return {"h": name, "model": model_target(rng, "convert", rng.randrange(100))}
    if name == "cv_raise":
        m = model_target(rng, "convert", rng.randrange(100))
        m["target_version"] = rng.choice([17, 99])   # below the node version / outside the supported range
        return {"h": name, "model": m}
    raise ValueError(name)


GENS = {"subrelu": g_subrelu, "reshape_reshape": g_reshape_reshape, "flatten": g_flatten, "pad_conv": g_pad_conv, "materialize": g_materialize,
        "layernorm": g_layernorm, "rmsnorm": g_rmsnorm, "basic": g_basic, "fold": g_fold, "convert": g_convert,
        "fold_versioned": g_fold_versioned}
SETFAIL_FOR = {"reshape_reshape": ["reshape"], "pad_conv": ["pad_nonspatial", "pad_negative", "pad_autopad"], "layernorm": ["ln"],
               "rmsnorm": ["rms"]}


def setfail_op(rng, c):
    if c == "reshape":
        m = {"api": "rewrite", "rules": "default", "template": "reshape_reshape", "params": g_reshape_setfail(rng)}
    elif c.startswith("pad_"):
        m = {"api": "rewrite", "rules": "default", "template": "pad_conv", "params": g_pad_conv(rng, c[4:])}
    elif c == "ln":
        m = {"api": "rewrite", "rules": "layernorm", "template": "layernorm", "params": g_layernorm(rng, "setfail")}
    else:
        m = {"api": "rewrite", "rules": "rmsnorm", "template": "rmsnorm", "params": g_rmsnorm(rng, "setfail")}
    return {"h": "rw_setfail", "case": c, "model": m}


def sibling_history(rng, target):
    """Operations on *other instances of what the target exercises*: same api + template (hence the same rule / pass
    objects) with other parameters, plus every check()-stores-then-fails variant of that rule."""
    if target["api"] == "script":
        k = target["script"]["kind"]
        return [{"h": "tr_ok", "script": {"kind": k, "nlive": 3 + rng.randrange(4), "gseed": rng.randrange(1 << 30)}},
                {"h": "tr_roles", "which": (target["script"]["nlive"] + len(k)) % 4},
                {"h": "tr_refused", "which": rng.randrange(len(REFUSED))},
                {"h": "tr_ok", "script": {"kind": k, "nlive": target["script"]["nlive"], "gseed": rng.randrange(1 << 30)}}]
    t = target["template"]
    if target["api"] == "rewrite_custom":
        # the SAME persistent rule object applied to other models first (1, 2, 3 instances), then the other rule object
        out = []
        for k in (1, 3, 2):
            out.append({"h": "rwc_ok", "model": {"api": "rewrite_custom", "rule": target["rule"], "template": "subrelu", "params": dict(g_subrelu(rng), k=k)}})
        out.append({"h": "rwc_ok", "model": {"api": "rewrite_custom", "rule": "plain" if target["rule"] == "asfn" else "asfn", "template": "subrelu",
                                              "params": g_subrelu(rng)}})
        return out
    if target["api"] == "convert":
        # conversions to the SAME target version first: one per operator with an adapter (each adapter actually replaces a
        # node), a refused one, then a model without adapters
        tv = target["target_version"]
        out = []
        for variant in ("gridsample", "dft", "plain"):
            p = g_convert(rng, variant=variant)
            if p["src"] >= tv:
                p["src"] = 18 if variant != "plain" or tv > 18 else 18
            p["target"] = tv
            if variant == "gridsample":
                p["mode"] = rng.choice(["bilinear", "bicubic"])
            out.append({"h": "cv_ok", "model": {"api": "convert", "template": "convert", "params": p, "target_version": tv}})
        m = model_target(rng, "convert", rng.randrange(100))
        m["target_version"] = rng.choice([17, 99])
        out.insert(2, {"h": "cv_raise", "model": m})
        return out
    hname = {"optimize": "opt_ok", "rewrite": "rw_ok", "fold": "fold_ok", "convert": "cv_ok"}[target["api"]]
    out = []
    for _ in range(2):
        m = dict(target)
        m["params"] = GENS[t](rng)
        if target["api"] == "convert":
            m["target_version"] = m["params"]["target"]
        out.append({"h": hname, "model": m})
    if t == "rmsnorm":
        # siblings of every OTHER precision (what a shared rule object may have stashed from an earlier match or from an
        # earlier rejected candidate): f64 without Cast, f32 without Cast, f16 input with a Cast (rejected: f16 is not a
        # stash type) and f32 with a Cast to f64
        for et, ct in ((11, None), (1, None), (10, None), (1, 11)):
            if (et, ct) == (target["params"].get("et"), target["params"].get("cast_to")):
                continue
            m = dict(target)
            m["params"] = dict(g_rmsnorm(rng), et=et, cast_to=ct)
            out.append({"h": hname, "model": m})
    if t == "fold_versioned":
        # the same operator folded first in models of every OTHER opset family (attribute form vs input form)
        out = []
        for ov in (13, 18, 17, 20):
            if (ov >= 18) != (target["params"]["opset"] >= 18) or len(out) < 3:
                m = dict(target)
                m["params"] = dict(g_fold_versioned(rng), opset=ov, op=target["params"]["op"])
                out.append({"h": hname, "model": m})
    for c in SETFAIL_FOR.get(t, []):
        out.insert(1, setfail_op(rng, c))
    if t == "reshape_reshape":
        out.append(history_op(rng, "rw_check_raise"))
    return out[:8]
