"""Output comparison: count/order, dtype, runtime shape, values."""
from __future__ import annotations

import numpy as np

TOL = {
    "float16": (1e-2, 1e-3),
    "bfloat16": (2e-2, 2e-2),
    "float32": (1e-4, 1e-5),
    "float64": (1e-9, 1e-12),
}


class Scale(float):
    """A tolerance multiplier that also carries the lowest float precision the model computes in (`floor`): a float64
    output that was computed through float32 values (Cast f32->f64 at the end) is only as precise as float32."""

    def __new__(cls, v, floor=None):
        o = float.__new__(cls, v)
        o.floor = floor
        return o

    def __mul__(self, k):
        return Scale(float(self) * float(k), self.floor)

    __rmul__ = __mul__


_ORDER = ["float64", "float32", "bfloat16", "float16"]


def tol_for(dtype, scale=1.0):
    name = str(dtype)
    floor = getattr(scale, "floor", None)
    if floor in _ORDER and name in _ORDER and _ORDER.index(floor) > _ORDER.index(name):
        name = floor
    r, a = TOL.get(name, (0.0, 0.0))
    return r * float(scale), a * float(scale)


def compare_value(a, b, scale=1.0, check_dtype=True, rtol=None, atol=None):
    """None if equal, else a short description of the first difference."""
    if isinstance(a, (list, tuple)) or isinstance(b, (list, tuple)):
        if not (isinstance(a, (list, tuple)) and isinstance(b, (list, tuple))):
            return f"kind: {type(a).__name__} vs {type(b).__name__}"
        if len(a) != len(b):
            return f"sequence length {len(a)} vs {len(b)}"
        for i, (x, y) in enumerate(zip(a, b)):
            d = compare_value(x, y, scale, check_dtype, rtol, atol)
            if d:
                return f"seq[{i}]: {d}"
        return None
    if a is None or b is None:
        return None if (a is None and b is None) else f"None vs value"
    a = np.asarray(a)
    b = np.asarray(b)
    if check_dtype and a.dtype != b.dtype:
        return f"dtype {a.dtype} vs {b.dtype}"
    if a.shape != b.shape:
        return f"shape {a.shape} vs {b.shape}"
    if a.size == 0:
        return None
    if a.dtype.kind in "fc" or b.dtype.kind in "fc":
        r, t = tol_for(a.dtype if a.dtype.kind in "fc" else b.dtype, scale)
        if rtol is not None:
            r = rtol
        if atol is not None:
            t = atol
        af = a.astype(np.complex128 if a.dtype.kind == "c" else np.float64)
        bf = b.astype(np.complex128 if b.dtype.kind == "c" else np.float64)
        na, nb = np.isnan(af), np.isnan(bf)
        if (na != nb).any():
            i = int(np.argmax((na != nb).ravel()))
            return f"NaN mask differs at flat[{i}]: {af.ravel()[i]} vs {bf.ravel()[i]}"
        ia, ib = np.isinf(af), np.isinf(bf)
        if (ia != ib).any() or (af[ia] != bf[ib]).any():
            return "inf mask/sign differs"
        fin = ~(na | ia)
        if fin.any():
            x, y = af[fin], bf[fin]
            bad = np.abs(x - y) > (t + r * np.abs(y))
            if bad.any():
                i = int(np.argmax(bad))
                return f"value {x[i]!r} vs {y[i]!r} (|d|={abs(x[i] - y[i]):.3g}, rtol={r:g}, atol={t:g}, {int(bad.sum())}/{x.size} differ)"
        return None
    if a.dtype.kind in "OUS" or b.dtype.kind in "OUS":
        aa = [x.decode() if isinstance(x, bytes) else str(x) for x in a.ravel().tolist()]
        bb = [x.decode() if isinstance(x, bytes) else str(x) for x in b.ravel().tolist()]
        if aa != bb:
            return "string values differ"
        return None
    if not np.array_equal(a, b):
        d = a.ravel() != b.ravel()
        i = int(np.argmax(d))
        return f"value {a.ravel()[i]!r} vs {b.ravel()[i]!r} at flat[{i}] ({int(d.sum())}/{a.size} differ)"
    return None


def compare_outputs(xs, ys, scale=1.0, check_dtype=True, rtol=None, atol=None):
    if len(xs) != len(ys):
        return f"output count {len(xs)} vs {len(ys)}"
    for i, (a, b) in enumerate(zip(xs, ys)):
        d = compare_value(a, b, scale, check_dtype, rtol, atol)
        if d:
            return f"out[{i}]: {d}"
    return None
