"""Generators for C06: pattern universe, host-graph universe, random pairs, rendering to the public API.

Everything here is data (JSON-able ASTs, see c06_spec).  `render` turns a pattern AST into Python source
that uses only onnxscript.rewriter.pattern's public names; `host_proto` turns a host into a ModelProto.
"""
from __future__ import annotations

import copy
import itertools
import json

VARS = ["x", "y", "z", "w", "u", "v", "p", "q", "r", "s", "t"]

# op -> (n_inputs, n_outputs)
ARITY = {"Neg": (1, 1), "Add": (2, 1), "Sub": (2, 1), "Split": (1, 2), "Elu": (1, 1), "CNeg": (1, 1)}


def N(op, ins, nout=1, attrs=None, aoi=None, aoa=None):
    d = {"op": "Neg" if op == "CNeg" else op, "in": list(ins), "attrs": attrs or {}, "nout": nout, "aoi": aoi, "aoa": aoa}
    if op == "CNeg":
        d["domain"] = "custom"
    return d


def V(name, cmn=False):
    return ["v", name, cmn]


# ----------------------------------------------------------------------------- rendering
def _num(c):
    return repr(c)


def render(P, fname="pat"):
    """-> (source of `def <fname>(op, ...)`, parameter names).  Uses `pattern.` names only."""
    params = []

    def param(name):
        if name not in params:
            params.append(name)

    def ref(v):
        if v is None:
            return "None"
        k = v[0]
        if k == "v":
            if v[2]:
                return f'pattern.Var("{v[1]}", can_match_none=True)'
            param(v[1])
            return v[1]
        if k == "c":
            return _num(v[1])
        if k == "o":
            return f"n{v[1]}" if P["nodes"][v[1]]["nout"] == 1 else f"n{v[1]}[{v[2]}]"
        if k == "or":
            alts = ", ".join(ref(a) for a in v[1])
            tag = f', tag_var="{v[2]}"' if v[2] else ""
            return f"pattern.OrValue([{alts}]{tag})"
        raise ValueError(v)

    lines = []
    for j, n in enumerate(P["nodes"]):
        args = [ref(v) for v in n["in"]]
        for name, ap in n.get("attrs", {}).items():
            if ap[0] == "ac":
                args.append(f"{name}={ap[1]!r}")
            elif ap[2]:
                args.append(f'{name}=pattern.AttrVar("{ap[1]}", can_match_none=True)')
            else:
                param(ap[1])
                args.append(f"{name}={ap[1]}")
        if n.get("domain"):
            args.append(f'_domain="{n["domain"]}"')
        if n["nout"] != 1:
            args.append(f"_outputs={n['nout']}")
        if n.get("aoi") is not None:
            args.append(f"_allow_other_inputs={n['aoi']}")
        if n.get("aoa") is not None:
            args.append(f"_allow_other_attributes={n['aoa']}")
        lines.append(f"    n{j} = op.{n['op']}({', '.join(args)})")
    rets = ", ".join(ref(o) for o in P["outs"])
    src = f"def {fname}({', '.join(['op'] + params)}):\n" + "\n".join(lines) + f"\n    return {rets}\n"
    return src, params


def show_host(G):
    parts = []
    for n in G["nodes"]:
        a = "".join(f" {k}={v}" for k, v in n.get("attrs", {}).items())
        d = (n.get("domain") + "::") if n.get("domain") else ""
        parts.append(f"{','.join(n['out'])}={d}{n['op']}({','.join(x or '_' for x in n['in'])}{a})")
    return "; ".join(parts) + f" -> {','.join(G['outputs'])}" + (f" inits={G['inits']}" if G["inits"] else "")


def host_proto(G):
    import onnx
    from onnx import TensorProto, helper
    import numpy as np

    nodes = []
    for n in G["nodes"]:
        nodes.append(helper.make_node(n["op"], list(n["in"]), list(n["out"]), domain=n.get("domain", ""), **n.get("attrs", {})))
    inits = []
    for name, val in G["inits"].items():
        if name.startswith("s"):
            inits.append(onnx.numpy_helper.from_array(np.asarray(val, dtype=np.int64), name))
        else:
            inits.append(onnx.numpy_helper.from_array(np.asarray(val, dtype=np.dtype(G.get("dtype", "float32"))), name))
    et = helper.np_dtype_to_tensor_dtype(np.dtype(G.get("dtype", "float32")))
    vi = lambda nm: helper.make_tensor_value_info(nm, et, ["N"])  # noqa: E731
    g = helper.make_graph(nodes, "host", [vi(i) for i in G["inputs"]], [vi(o) for o in G["outputs"]], initializer=inits)
    return helper.make_model(g, opset_imports=[helper.make_opsetid("", 13), helper.make_opsetid("custom", 1)], ir_version=8)


# ----------------------------------------------------------------------------- pattern universe
def _rename(P):
    """Canonical variable names by first occurrence (plain value vars only)."""
    m = {}

    def nm(name):
        if name not in m:
            m[name] = VARS[len(m)]
        return m[name]

    def fix(v):
        if v is None:
            return None
        if v[0] == "v" and not v[2]:
            return ["v", nm(v[1]), False]
        if v[0] == "or":
            return ["or", [fix(a) for a in v[1]], v[2]]
        return v

    Q = copy.deepcopy(P)
    for n in Q["nodes"]:
        n["in"] = [fix(v) for v in n["in"]]
    return Q


def _key(P):
    return json.dumps(P, sort_keys=True)


def _slice(P, j, acc=None):
    """Backward slice of node j over every OR alternative."""
    acc = acc if acc is not None else set()
    if j in acc:
        return acc
    acc.add(j)
    for v in P["nodes"][j]["in"]:
        for a in (v[1] if v is not None and v[0] == "or" else [v]):
            if a is not None and a[0] == "o":
                _slice(P, a[1], acc)
    return acc


def skeletons(k, ops):
    """All patterns with exactly k node patterns over `ops`, plain variables only, every node reachable,
    up to renaming of variables.  Output forms: the last node's first output; for a 2-output last node also
    (out0, out1) and (out1,); and two-output-node forms (n_i.0, n_last.0) in both orders when neither
    producer lies in the other's backward slice."""
    seen = set()

    def rec(nodes, nvars):
        j = len(nodes)
        if j == k:
            P0 = {"nodes": nodes, "outs": []}
            last = j - 1
            forms = [[["o", last, 0]]]
            if nodes[last]["nout"] == 2:
                forms += [[["o", last, 0], ["o", last, 1]], [["o", last, 1]]]
            sl_last = _slice(P0, last)
            for i in range(last):
                if i not in sl_last and nodes[i]["nout"] == 1 and nodes[last]["nout"] == 1:
                    forms += [[["o", i, 0], ["o", last, 0]], [["o", last, 0], ["o", i, 0]]]
            for outs in forms:
                P = {"nodes": nodes, "outs": outs}
                reach = set()
                for o in outs:
                    _slice(P, o[1], reach)
                if len(reach) != k:
                    continue
                P = _rename(P)
                ky = _key(P)
                if ky not in seen:
                    seen.add(ky)
                    yield P
            return
        refs = [["o", i, kk] for i, n in enumerate(nodes) for kk in range(n["nout"])]
        for op in ops:
            nin, nout_op = ARITY[op]
            nouts = [1, 2] if nout_op == 2 else [1]
            # inputs: existing vars, one fresh var per position (named in order), refs
            def choices(pos_vars):
                return [V(VARS[i]) for i in range(pos_vars)] + [V(VARS[pos_vars])] + refs

            def ins(pos, nv, acc):
                if pos == nin:
                    yield list(acc), nv
                    return
                for c in choices(nv):
                    nv2 = nv + 1 if (c[0] == "v" and c[1] == VARS[nv]) else nv
                    yield from ins(pos + 1, nv2, acc + [c])

            for inputs, nv in ins(0, nvars, []):
                for no in nouts:
                    yield from rec(nodes + [N(op, inputs, no)], nv)

    yield from rec([], 0)


def _vars_of(P):
    out = []

    def walk(v):
        if v is None:
            return
        if v[0] == "v" and v[1] not in out:
            out.append(v[1])
        if v[0] == "or":
            for a in v[1]:
                walk(a)

    for n in P["nodes"]:
        for v in n["in"]:
            walk(v)
    return out


def decorations(P, attr_ops=False):
    """One-step feature decorations of a pattern (each yields a new pattern)."""
    vs = _vars_of(P)
    fresh = next(v for v in VARS if v not in vs)
    k = 0
    for j, n in enumerate(P["nodes"]):
        for i, e in enumerate(n["in"]):
            if e is None or e[0] == "or":
                continue
            if e[0] == "v" and not e[2]:
                for c in (1.0, 2.0):
                    Q = copy.deepcopy(P)
                    Q["nodes"][j]["in"][i] = ["c", c]
                    yield Q
            if e[0] in ("v", "o"):
                others = [V(fresh)] + [V(x) for x in vs if not (e[0] == "v" and e[1] == x)]
                for o in others:
                    for alts in ([e, o], [o, e]):
                        Q = copy.deepcopy(P)
                        k += 1
                        Q["nodes"][j]["in"][i] = ["or", copy.deepcopy(alts), "tag" if k % 2 else None]
                        yield Q
        # extra trailing input: None / can_match_none var / plain fresh var
        for extra in (None, V("n", True), V(fresh)):
            Q = copy.deepcopy(P)
            Q["nodes"][j]["in"].append(extra)
            yield Q
        # allow_other_inputs
        Q = copy.deepcopy(P)
        Q["nodes"][j]["aoi"] = True
        yield Q
        # allow_other_inputs together with a REQUIRED extra trailing input (one decoration step): hosts of the same operator
        # have fewer inputs than the pattern lists, and "other inputs allowed" must not excuse a missing required one
        Q = copy.deepcopy(P)
        Q["nodes"][j]["in"].append(V(fresh))
        Q["nodes"][j]["aoi"] = True
        yield Q
        if len(n["in"]) == 2:
            Q = copy.deepcopy(P)
            Q["nodes"][j]["in"].pop()
            Q["nodes"][j]["aoi"] = True
            yield Q
            Q = copy.deepcopy(P)
            Q["nodes"][j]["in"].pop()
            yield Q
        if attr_ops and n["op"] == "Elu":
            for ap in (["ac", 2.0], ["ac", 1.0], ["av", "al", False], ["av", "al", True]):
                for aoa in (None, False):
                    Q = copy.deepcopy(P)
                    Q["nodes"][j]["attrs"] = {"alpha": ap}
                    Q["nodes"][j]["aoa"] = aoa
                    yield Q
            Q = copy.deepcopy(P)
            Q["nodes"][j]["aoa"] = False
            yield Q
        if attr_ops and n.get("domain") == "custom":
            for attrs in ({"p": ["ac", 1]}, {"p": ["ac", 2]}, {"p": ["av", "ap", False]}, {"q": ["av", "aq", True]},
                          {"p": ["ac", 1], "q": ["av", "aq", False]}):
                for aoa in (None, False):
                    Q = copy.deepcopy(P)
                    Q["nodes"][j]["attrs"] = attrs
                    Q["nodes"][j]["aoa"] = aoa
                    yield Q
            Q = copy.deepcopy(P)
            Q["nodes"][j]["aoa"] = False
            yield Q


def _valid(P):
    """Generator-side exclusions (regions the property sentence is silent about)."""
    on = []
    for o in P["outs"]:
        if o[1] not in on:
            on.append(o[1])
    for a in on:  # no output node inside another output node's backward slice
        for b in on:
            if a != b and a in _slice(P, b):
                return False
    names = {}
    for n in P["nodes"]:  # a name is either a value var or an attr var or a tag, never two of them
        for v in n["in"]:
            for a in (v[1] if v is not None and v[0] == "or" else [v]):
                if a is not None and a[0] == "v":
                    if names.setdefault(a[1], ("v", a[2])) != ("v", a[2]):
                        return False
            if v is not None and v[0] == "or" and v[2]:
                if v[2] in names:
                    return False  # a tag variable belongs to one OR
                names[v[2]] = ("tag",)
        for ap in n.get("attrs", {}).values():
            if ap[0] == "av":
                if ap[1] in names:
                    return False  # attribute variables are never reused
                names[ap[1]] = ("a",)
    return True


def or_family(ops_inner):
    """3-node patterns Root(Or[Inner1, Inner2] ...) — both OpIdDispatchOr (distinct ops) and BacktrackingOr."""
    inner = []
    for op in ops_inner:
        nin, nout = ARITY[op]
        if nin == 1:
            inner.append((op, [V("x")], nout))
            inner.append((op, [V("y")], nout))
        else:
            inner += [(op, [V("x"), V("y")], 1), (op, [V("y"), V("x")], 1), (op, [V("x"), V("x")], 1)]
    k = 0
    for a, b in itertools.permutations(range(len(inner)), 2):
        na = N(inner[a][0], inner[a][1], 1)
        nb = N(inner[b][0], inner[b][1], 1)
        for root in ("Neg", "SubL", "SubR", "Add"):
            k += 1
            orv = ["or", [["o", 0, 0], ["o", 1, 0]], "tag" if k % 2 else None]
            if root == "Neg":
                r = N("Neg", [orv])
            elif root == "SubL":
                r = N("Sub", [orv, V("x")])
            elif root == "SubR":
                r = N("Sub", [V("z"), orv])
            else:
                r = N("Add", [orv, V("y")])
            yield {"nodes": [na, nb, r], "outs": [["o", 2, 0]]}


def pattern_universe(stratum, kmax, budget, with_or_family=False, keep=None):
    """Patterns of one stratum: skeletons with <= kmax nodes, each with <= budget decorations.
    keep="opt": only patterns with a Split node or a node pattern whose input count differs from the op's arity / aoi."""
    ops = {"core": ["Neg", "Add", "Sub", "Split"], "attr": ["Neg", "Elu", "CNeg", "Sub"]}[stratum]
    seen, out = set(), []

    def add(P):
        P = _rename(P)
        ky = _key(P)
        if ky in seen or not _valid(P):
            return False
        seen.add(ky)
        out.append(P)
        return True

    base = []
    for k in range(1, kmax + 1):
        for P in skeletons(k, ops):
            if stratum == "attr" and not any(n["op"] == "Elu" or n.get("domain") for n in P["nodes"]):
                continue
            if add(P):
                base.append(P)
    layer = base
    for _ in range(budget):
        nxt = []
        for P in layer:
            for Q in decorations(P, attr_ops=(stratum == "attr")):
                if stratum == "attr" and not any(n.get("attrs") or n.get("aoa") is not None for n in Q["nodes"]):
                    continue  # the attr stratum only adds attribute features; the rest lives in core
                if add(Q):
                    nxt.append(Q)
        layer = nxt
    if with_or_family and stratum == "core":
        for P in or_family(["Neg", "Add", "Sub"]):
            add(P)
    if keep == "opt":
        out = [P for P in out if any(n["op"] == "Split" or n.get("aoi") or len(n["in"]) != ARITY[n["op"]][0] for n in P["nodes"])]
    return out


# ----------------------------------------------------------------------------- host universe
# (op, n_inputs, n_outputs, attrs, domain, extra_input)
HOST_KINDS = {
    "core": [("Neg", 1, 1, {}, "", None), ("Add", 2, 1, {}, "", None), ("Sub", 2, 1, {}, "", None), ("Split", 1, 2, {}, "", None)],
    "attr": [("Neg", 1, 1, {}, "", None), ("Elu", 1, 1, {}, "", None), ("Elu", 1, 1, {"alpha": 2.0}, "", None),
             ("Neg", 1, 1, {}, "custom", None), ("Neg", 1, 1, {"p": 1}, "custom", None), ("Neg", 1, 1, {"p": 1, "q": 5}, "custom", None),
             ("Sub", 2, 1, {}, "", None)],
    "opt": [("Neg", 1, 1, {}, "", None), ("Split", 1, 2, {}, "", None), ("Split", 1, 2, {}, "", "s"), ("Sub", 2, 1, {}, "", None)],
}


def cones(stratum, nmax, leaves, pair=False):
    """Rooted host graphs: every node is an ancestor of the root (`pair`: of one of two roots), at most nmax nodes,
    each exactly once up to isomorphism (DFS-canonical numbering from the root; graph input `b` only after `a`).
    Yields (nodes, root) with nodes in topological order; node = {"op","in","out","attrs"[,"domain"]}."""
    kinds = HOST_KINDS[stratum]
    out = []

    def consumers_closure(nodes, j):
        res, changed = {j}, True
        while changed:
            changed = False
            for i, nd in enumerate(nodes):
                if i not in res and any(isinstance(x, tuple) and x[0] in res for x in nd[1]):
                    res.add(i)
                    changed = True
        return res

    def emit(nodes):
        real = [(i, nd) for i, nd in enumerate(nodes) if nd[0] is not None]
        order = []

        def visit(i):  # DFS post-order: producers first
            if i in order or nodes[i][0] is None:
                return
            for x in nodes[i][1]:
                if isinstance(x, tuple):
                    visit(x[0])
            order.append(i)

        if pair:
            for x in nodes[0][1]:
                visit(x[0])
        else:
            visit(0)
        pos = {i: k for k, i in enumerate(order)}
        res = []
        for i in order:
            kind = nodes[i][0]
            ins = [(f"t{pos[x[0]]}_{x[1]}" if isinstance(x, tuple) else x) for x in nodes[i][1]]
            nd = {"op": kind[0], "in": ins + ([kind[5]] if kind[5] else []), "out": [f"t{pos[i]}_{k}" for k in range(kind[2])],
                  "attrs": dict(kind[3])}
            if kind[4]:
                nd["domain"] = kind[4]
            res.append(nd)
        root = pos[nodes[0][1][0][0]] if pair else pos[0]
        out.append((res, root))

    def expand(nodes, holes):
        if not holes:
            emit(nodes)
            return
        (j, p), rest = holes[0], holes[1:]
        is_pair_hole = pair and j == 0
        if not is_pair_hole:
            for lf in leaves:
                if lf == "b" and not any(x == "a" for nd in nodes for x in nd[1]):
                    continue
                nodes[j][1][p] = lf
                expand(nodes, rest)
                nodes[j][1][p] = None
        banned = consumers_closure(nodes, j)
        for i, nd in enumerate(nodes):
            if i in banned or nd[0] is None:
                continue
            for k in range(nd[0][2]):
                nodes[j][1][p] = (i, k)
                expand(nodes, rest)
                nodes[j][1][p] = None
        if sum(1 for nd in nodes if nd[0] is not None) < nmax:
            for kind in kinds:
                i = len(nodes)
                nodes.append((kind, [None] * kind[1]))
                for k in range(kind[2]):
                    nodes[j][1][p] = (i, k)
                    expand(nodes, [(i, q) for q in range(kind[1])] + rest)
                nodes[j][1][p] = None
                nodes.pop()

    if pair:
        nodes = [(None, [None, None])]
        expand(nodes, [(0, 0), (0, 1)])
    else:
        for kind in kinds:
            nodes = [(kind, [None] * kind[1])]
            expand(nodes, [(0, q) for q in range(kind[1])])
    return out


def make_host(nodes, root, flags=None):
    """Host graph from a cone.  flags: {value: "out" | "use"}; default: the root's outputs are the graph outputs.
    "use" adds an observer node Neg(value) (outside the cone) whose result is a graph output."""
    nodes = copy.deepcopy(nodes)
    if flags is None:
        flags = {o: "out" for o in nodes[root]["out"]}
    outputs = []
    for v, f in flags.items():
        if f == "out":
            outputs.append(v)
        elif f == "use":
            k = len(nodes)
            nodes.append({"op": "Neg", "in": [v], "out": [f"obs{k}"], "attrs": {}})
            outputs.append(f"obs{k}")
    used = {x for nd in nodes for x in nd["in"]}
    inits = {}
    if "c" in used:
        inits["c"] = 1.0
    if "s" in used:
        inits["s"] = [1, 1]
    return {"inputs": ["a", "b"], "inits": inits, "nodes": nodes, "outputs": outputs}


def flag_variants(nodes, root, rng, cap=48):
    """Graph-output / outside-consumer variants of a cone: every value gets one of {-, out, use}; the root's first
    output never '-' (a graph needs an output).  More than `cap` variants: a deterministic sample."""
    vals = [o for nd in nodes for o in nd["out"]]
    r0 = nodes[root]["out"][0]
    spaces = [(("out", "use") if v == r0 else ("-", "out", "use")) for v in vals]
    allv = list(itertools.product(*spaces))
    if len(allv) > cap:
        allv = rng.sample(allv, cap)
    for combo in allv:
        yield {v: f for v, f in zip(vals, combo) if f != "-"}


# ----------------------------------------------------------------------------- random pairs
def random_pair(rng, max_p=8, max_g=20):
    """A random pattern (<= max_p node patterns) and a host (<= max_g nodes) containing a planted, possibly
    perturbed, instance of it.  Returns (P, G)."""
    ops = ["Neg", "Add", "Sub", "Split", "Elu"]
    k = rng.randint(1, max_p)
    nodes, nv = [], 0
    unused = []  # refs not yet consumed: to keep every node reachable
    for j in range(k):
        last = j == k - 1
        op = rng.choice(ops)
        nin, nout_op = ARITY[op]
        nout = nout_op if (nout_op == 1 or rng.random() < 0.7) else 1
        ins = []
        for pos in range(nin):
            r = rng.random()
            if unused and (last or r < 0.45):
                ref = unused.pop(rng.randrange(len(unused)))
                ins.append(ref)
            elif nodes and r < 0.55:
                i = rng.randrange(len(nodes))
                ins.append(["o", i, rng.randrange(nodes[i]["nout"])])
            elif r < 0.62:
                ins.append(["c", rng.choice([1.0, 2.0, 1.000001])])
            elif nv and r < 0.8:
                ins.append(V(VARS[rng.randrange(nv)]))
            else:
                ins.append(V(VARS[min(nv, len(VARS) - 1)]))
                nv = min(nv + 1, len(VARS) - 1)
        nd = N(op, ins, nout)
        if op == "Elu" and rng.random() < 0.6:
            nd["attrs"] = {"alpha": rng.choice([["ac", 2.0], ["ac", 1.0], ["av", f"al{j}", False], ["av", f"al{j}", True]])}
            if rng.random() < 0.3:
                nd["aoa"] = False
        r = rng.random()
        if r < 0.08:
            nd["in"].append(None)
        elif r < 0.16:
            nd["in"].append(V(f"opt{j}", True))
        elif r < 0.22:
            nd["aoi"] = True
        nodes.append(nd)
        unused.append(["o", j, 0])
    # leftover unused refs other than the last node's: make the pattern multi-output or fold them into ORs
    P = {"nodes": nodes, "outs": [["o", k - 1, 0]]}
    if nodes[-1]["nout"] == 2 and rng.random() < 0.5:
        P["outs"].append(["o", k - 1, 1])
    reach = _slice(P, k - 1)
    for j in range(k - 1):
        if j not in reach and nodes[j]["nout"] == 1:
            # hang the orphan into an OR at some input of a reachable later node, else make it a second output node
            cands = [(jj, i) for jj in sorted(reach) if jj > j for i, v in enumerate(nodes[jj]["in"]) if v is not None and v[0] in ("v", "o")]
            if cands and rng.random() < 0.7:
                jj, i = rng.choice(cands)
                e = nodes[jj]["in"][i]
                alts = [e, ["o", j, 0]] if rng.random() < 0.5 else [["o", j, 0], e]
                nodes[jj]["in"][i] = ["or", alts, f"tag{jj}_{i}" if rng.random() < 0.5 else None]
            else:
                P["outs"].append(["o", j, 0])
            reach = set()
            for o in P["outs"]:
                _slice(P, o[1], reach)
    P["nodes"] = [n for n in nodes]
    reach = set()
    for o in P["outs"]:
        _slice(P, o[1], reach)
    if len(reach) != k or not _valid(P):
        return None
    # extra ORs with a variable alternative
    for jj, n in enumerate(nodes):
        for i, e in enumerate(n["in"]):
            if e is not None and e[0] in ("v", "o") and rng.random() < 0.12:
                o = V(VARS[rng.randrange(max(nv, 1))])
                if e[0] == "v" and e[1] == o[1]:
                    continue
                n["in"][i] = ["or", [e, o] if rng.random() < 0.5 else [o, e], f"tg{jj}_{i}" if rng.random() < 0.5 else None]
    if not _valid(P):
        return None
    n_or = sum(1 for n in nodes for v in n["in"] if v is not None and v[0] == "or")
    if n_or > 4 or len({o[1] for o in P["outs"]}) > 3:
        return None  # keeps the enumeration (2^ORs x hosts^(output nodes-1)) small on both sides
    # ---- host: plant an instance (first OR alternative preferred at random), then add noise
    leaves = ["a", "b", "c", "c2", "d"]
    inits = {"c": 1.0, "c2": 2.0, "d": [1.0]}
    gnodes = []
    values = list(leaves)
    env = {}      # pattern var -> host value
    made = {}     # pattern node -> host node index

    def fresh_noise(depth=0):
        op = rng.choice(["Neg", "Add", "Sub", "Split", "Elu"])
        nin, nout = ARITY[op]
        nd = {"op": op, "in": [rng.choice(values) for _ in range(nin)], "out": [f"t{len(gnodes)}_{kk}" for kk in range(nout)], "attrs": {}}
        if op == "Elu" and rng.random() < 0.5:
            nd["attrs"] = {"alpha": rng.choice([1.0, 2.0])}
        gnodes.append(nd)
        values.extend(nd["out"])
        return nd

    for _ in range(rng.randint(0, 4)):
        fresh_noise()

    def plant_value(v):
        if v is None:
            return None
        if v[0] == "v":
            if v[2] and rng.random() < 0.6:
                return None
            if v[1] not in env or rng.random() < 0.06:   # 6%: break a repeated variable
                if v[1] in env:
                    return rng.choice(values)
                env[v[1]] = rng.choice(values)
            return env[v[1]]
        if v[0] == "c":
            r = rng.random()
            return "c" if (v[1] != 2.0 and r < 0.8) else ("c2" if r < 0.9 else rng.choice(["d", "a"]))
        if v[0] == "o":
            gi = plant_node(v[1], share=rng.random() < 0.9)
            outs = gnodes[gi]["out"]
            kk = v[2] if rng.random() < 0.95 else rng.randrange(len(outs))
            return outs[min(kk, len(outs) - 1)]
        if v[0] == "or":
            return plant_value(rng.choice(v[1]))
        raise ValueError(v)

    def plant_node(j, share=True):
        if share and j in made:
            return made[j]
        n = nodes[j]
        ins = [plant_value(v) for v in n["in"]]
        while ins and ins[-1] is None:
            ins.pop()
        if any(x is None for x in ins):
            ins = [x if x is not None else rng.choice(values) for x in ins]
        op = n["op"] if rng.random() < 0.96 else rng.choice(["Neg", "Add", "Sub"])
        nin, nout = ARITY[op]
        if n.get("aoi") and rng.random() < 0.5:
            ins.append(rng.choice(values))
        if len(ins) < nin:
            ins += [rng.choice(values) for _ in range(nin - len(ins))]
        if len(ins) > nin and not (op == "Split" and len(ins) == 2):
            ins = ins[:nin]
        if op == "Split" and len(ins) == 2:
            ins[1] = "s"
            inits["s"] = [1, 1]
        attrs = {}
        if op == "Elu":
            ap = n.get("attrs", {}).get("alpha")
            r = rng.random()
            if ap and ap[0] == "ac":
                attrs = {"alpha": ap[1]} if r < 0.8 else ({} if r < 0.9 else {"alpha": 4.0})
            elif r < 0.5:
                attrs = {"alpha": rng.choice([1.0, 2.0])}
        nd = {"op": op, "in": ins, "out": [f"t{len(gnodes)}_{kk}" for kk in range(nout)], "attrs": attrs}
        gnodes.append(nd)
        values.extend(nd["out"])
        made[j] = len(gnodes) - 1
        return made[j]

    for o in P["outs"]:
        plant_node(o[1])
    if len(gnodes) > max_g:
        return None
    for _ in range(rng.randint(0, max(0, min(5, max_g - len(gnodes))))):
        fresh_noise()
    consumed = {x for nd in gnodes for x in nd["in"]}
    allv = [o for nd in gnodes for o in nd["out"]]
    U = [v for v in allv if v not in consumed]
    outs = set(U) if rng.random() < 0.7 else set(rng.sample(U, max(1, len(U) - 1)))
    if rng.random() < 0.25:
        outs.add(rng.choice(allv))
    used = consumed
    G = {"inputs": ["a", "b"], "inits": {k2: v2 for k2, v2 in inits.items() if k2 in used}, "nodes": gnodes, "outputs": sorted(outs)}
    return P, G
