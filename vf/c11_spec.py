"""Spec transcription of the handful of ONNX operators the subscript translation emits.

Third witness for C11 only.  ORT decides; onnx.reference may dispute; but a dispute means "the graph is right and
the runtime is wrong", and onnx.reference's Slice is NumPy slicing (it does not clamp a negative-step start into
[0, d-1] as the operator specification says), so it would "dispute" exactly the cases where the emitted Slice node
does not mean what NumPy means.  This module is written from the operator specification text (Slice-13, Gather-13,
Squeeze-13, ...) and shares no code with either runtime; a dispute is upheld only if this reading agrees with the
reference, and is void if it agrees with ORT.
"""
from __future__ import annotations

import numpy as np
import onnx
from onnx import numpy_helper


class Unsupported(Exception):
    pass


def slice13(data, starts, ends, axes=None, steps=None):
    r = data.ndim
    starts = [int(v) for v in np.asarray(starts).ravel()]
    ends = [int(v) for v in np.asarray(ends).ravel()]
    axes = list(range(len(starts))) if axes is None else [int(v) for v in np.asarray(axes).ravel()]
    steps = [1] * len(starts) if steps is None else [int(v) for v in np.asarray(steps).ravel()]
    if not (len(starts) == len(ends) == len(axes) == len(steps)):
        raise ValueError("Slice: starts/ends/axes/steps lengths differ")
    idx = [list(range(d)) for d in data.shape]
    seen = set()
    for s, e, a, st in zip(starts, ends, axes, steps):
        if a < -r or a >= r:
            raise ValueError("Slice: axis out of range")
        a = a + r if a < 0 else a
        if a in seen:
            raise ValueError("Slice: repeated axis")
        seen.add(a)
        if st == 0:
            raise ValueError("Slice: step 0")
        d = data.shape[a]
        if s < 0:
            s += d
        if e < 0:
            e += d
        if st > 0:
            s = min(max(s, 0), d)
            e = min(max(e, 0), d)
            sel = []
            i = s
            while i < e:
                sel.append(i)
                i += st
        else:
            s = min(max(s, 0), d - 1)
            e = min(max(e, -1), d - 1)
            sel = []
            i = s
            while i > e:
                sel.append(i)
                i += st
        idx[a] = sel
    out = data
    for a, sel in enumerate(idx):
        out = np.take(out, np.array(sel, dtype=np.int64), axis=a)
    return out


def gather13(data, indices, axis=0):
    r = data.ndim
    if r < 1:
        raise ValueError("Gather: rank 0 data")
    if axis < -r or axis >= r:
        raise ValueError("Gather: axis out of range")
    axis = axis + r if axis < 0 else axis
    ind = np.asarray(indices).astype(np.int64)
    d = data.shape[axis]
    if ((ind < -d) | (ind >= d)).any():
        raise ValueError("Gather: index out of range")
    ind = np.where(ind < 0, ind + d, ind)
    return np.take(data, ind, axis=axis)


def squeeze13(data, axes=None):
    if axes is None:
        return data.reshape([d for d in data.shape if d != 1])
    r = data.ndim
    ax = []
    for a in np.asarray(axes).ravel():
        a = int(a)
        if a < -r or a >= r:
            raise ValueError("Squeeze: axis out of range")
        a = a + r if a < 0 else a
        if data.shape[a] != 1:
            raise ValueError("Squeeze: dim is not 1")
        ax.append(a)
    return data.reshape([d for i, d in enumerate(data.shape) if i not in ax])


def _attrs(node):
    return {a.name: onnx.helper.get_attribute_value(a) for a in node.attribute}


def _constant(at):
    if "value" in at:
        return numpy_helper.to_array(at["value"])
    if "value_int" in at:
        return np.array(at["value_int"], dtype=np.int64)
    if "value_ints" in at:
        return np.array(list(at["value_ints"]), dtype=np.int64)
    if "value_float" in at:
        return np.array(at["value_float"], dtype=np.float32)
    if "value_floats" in at:
        return np.array(list(at["value_floats"]), dtype=np.float32)
    raise Unsupported("Constant form")


def apply_op(op_type, inputs, at):
    """inputs: list of np.ndarray | None -> list of outputs"""
    x = inputs
    if op_type == "Slice":
        return [slice13(x[0], x[1], x[2], x[3] if len(x) > 3 else None, x[4] if len(x) > 4 else None)]
    if op_type == "Gather":
        return [gather13(x[0], x[1], int(at.get("axis", 0)))]
    if op_type == "Squeeze":
        return [squeeze13(x[0], x[1] if len(x) > 1 else None)]
    if op_type == "Identity":
        return [x[0]]
    if op_type == "Constant":
        return [_constant(at)]
    if op_type == "Concat":
        return [np.concatenate(x, axis=int(at["axis"]))]
    if op_type == "Reshape":
        shape = [int(v) for v in np.asarray(x[1]).ravel()]
        shape = [x[0].shape[i] if (v == 0 and not at.get("allowzero", 0)) else v for i, v in enumerate(shape)]
        return [x[0].reshape(shape)]
    if op_type == "Add":
        return [np.add(x[0], x[1])]
    if op_type == "Sub":
        return [np.subtract(x[0], x[1])]
    if op_type == "CastLike":
        return [np.asarray(x[0]).astype(np.asarray(x[1]).dtype)]
    if op_type == "Cast":
        return [np.asarray(x[0]).astype(onnx.helper.tensor_dtype_to_np_dtype(int(at["to"])))]
    raise Unsupported(op_type)


def run_model(model, feeds):
    env = {k: np.asarray(v) for k, v in feeds.items()}
    for init in model.graph.initializer:
        env[init.name] = numpy_helper.to_array(init)
    if len(model.functions):
        raise Unsupported("model-local functions")
    for n in model.graph.node:
        if n.domain not in ("", "ai.onnx"):
            raise Unsupported(n.domain)
        outs = apply_op(n.op_type, [env[i] if i else None for i in n.input], _attrs(n))
        for o, v in zip(n.output, outs):
            env[o] = np.asarray(v)
    return [env[o.name] for o in model.graph.output]


def make_evaluator():
    """A BaseEvaluator whose kernels are the functions above (for the eager twin)."""
    from onnxscript import tensor as ostensor
    from onnxscript._internal import evaluator

    class SpecEvaluator(evaluator.BaseEvaluator):
        def _eval(self, schema, inputs, attributes, closure):
            xs = []
            for v in inputs:
                if v is None:
                    xs.append(None)
                elif isinstance(v, ostensor.Tensor):
                    xs.append(np.asarray(v.value))
                else:
                    xs.append(np.asarray(v))
            outs = apply_op(schema.name, xs, dict(attributes))
            return [ostensor.Tensor(np.asarray(o)) for o in outs]

    return SpecEvaluator()
