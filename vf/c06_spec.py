"""match_spec — the executable reading of "the subgraph ending at node n is an instance of pattern p".

Shares no code with onnxscript.rewriter.  Works on plain JSON-able data.

Pattern AST
  P = {"nodes": [N0, N1, ...] (topological: a node refers only to earlier ones), "outs": [["o", j, k], ...]}
  N = {"op": str, "domain": str (default ""), "in": [vref | None, ...], "attrs": {name: ["ac", value] | ["av", var, can_match_none]},
       "nout": int, "aoi": bool|None, "aoa": bool|None}
  vref = ["v", name, can_match_none] | ["c", number | [numbers]] | ["o", j, k] | ["or", [vref, ...], tag_var|None]
  (an OR occurs only directly as a node input and is not nested)

Host graph
  G = {"inputs": [names], "inits": {name: number | [numbers]}, "nodes": [{"op","domain","in":[name|""],"out":[names],"attrs":{}}],
       "outputs": [names]}

An instance is (bindings, nodes, outputs):
  bindings  frozenset of (var, value) — value = host value name | ("attr", v) | ("tag", i); variables bound to "absent" are left out
  nodes     frozenset of host node indices
  outputs   tuple of host value names
Rules S1..S10 are those of DESIGN.md "### C06"; each is marked where it is implemented.
"""
from __future__ import annotations

import itertools
import math

COMMUTATIVE = ("Add", "Mul")  # tutorial commute.md: "commutativity of addition and multiplication"
REL_TOL, ABS_TOL = 1e-5, 1e-8


class _No(Exception):
    pass


def or_sites(P):
    return [(j, i) for j, n in enumerate(P["nodes"]) for i, v in enumerate(n["in"]) if v is not None and v[0] == "or"]


def _resolved(P, choice, j, i):
    v = P["nodes"][j]["in"][i]
    if v is not None and v[0] == "or":
        return v[1][choice[(j, i)]]
    return v


def output_nodes(P):
    out = []
    for o in P["outs"]:
        if o[1] not in out:
            out.append(o[1])
    return out


def _close(a, b):
    return math.isclose(a, b, rel_tol=REL_TOL, abs_tol=ABS_TOL)


def _index(G):
    prod, cons = {}, {}
    for gi, n in enumerate(G["nodes"]):
        for k, o in enumerate(n["out"]):
            prod[o] = (gi, k)
        for v in n["in"]:
            if v:
                cons.setdefault(v, set()).add(gi)
    return prod, cons


def _check(P, G, prod, cons, choice, assign, removable):
    """Full check of one (OR choice, node assignment); returns the instance or raises _No."""
    b = {}

    def bind(name, val):
        if val is None:
            val = ("absent",)
        if name in b and b[name] != val:
            raise _No  # S4: one name, one value
        b[name] = val

    def value(v, actual, site):
        kind = v[0]
        if kind == "v":
            if actual is None and not v[2]:
                raise _No  # S4: absent input only with can_match_none
            bind(v[1], actual)
        elif kind == "c":  # S5
            if actual is None or actual not in G["inits"]:
                raise _No
            have, want = G["inits"][actual], v[1]
            if isinstance(want, list):
                if not isinstance(have, list) or len(have) != len(want) or not all(_close(h, w) for h, w in zip(have, want)):
                    raise _No
            elif isinstance(have, list) or not _close(have, want):
                raise _No
        elif kind == "o":  # S6: same output index of the node bound to that pattern node
            if actual is None or prod.get(actual) != (assign.get(v[1]), v[2]):
                raise _No
        elif kind == "or":  # S7
            alt = choice[site]
            value(v[1][alt], actual, site)
            if v[2] is not None:
                bind(v[2], ("tag", alt))

    for j, gi in assign.items():
        pn, gn = P["nodes"][j], G["nodes"][gi]
        # S2 operator, domain, attributes
        if pn["op"] != gn["op"] or pn.get("domain", "") != gn.get("domain", ""):
            raise _No
        gattrs = gn.get("attrs", {})
        for name, ap in pn.get("attrs", {}).items():
            if name not in gattrs:
                if not (ap[0] == "av" and ap[2]):
                    raise _No
                continue
            if ap[0] == "ac":
                if gattrs[name] != ap[1]:
                    raise _No
            else:
                bind(ap[1], ("attr", gattrs[name]))
        if pn.get("aoa") is False and any(a not in pn.get("attrs", {}) for a in gattrs):
            raise _No
        # S3 inputs position-wise
        gin = [x or None for x in gn["in"]]
        if len(gin) > len(pn["in"]):
            if not pn.get("aoi"):
                raise _No
        for i, v in enumerate(pn["in"]):
            actual = gin[i] if i < len(gin) else None
            if v is None:
                if actual is not None:
                    raise _No
                continue
            value(v, actual, (j, i))
        if pn["nout"] > len(gn["out"]):
            raise _No
    # S8 outputs
    outs = tuple(G["nodes"][assign[o[1]]]["out"][o[2]] for o in P["outs"])
    nodes = frozenset(assign.values())
    if removable:  # S9
        gouts = set(G["outputs"])
        for gi in nodes:
            for v in G["nodes"][gi]["out"]:
                if v in outs:
                    continue
                if v in gouts or not cons.get(v, set()) <= nodes:
                    raise _No
    bindings = frozenset((k, v) for k, v in b.items() if v != ("absent",))
    return bindings, nodes, outs


def _assignments(P, G, prod, choice, root):
    """All node assignments worth checking: output nodes range over the graph (first fixed to root, S1),
    the others follow from data flow (a necessary condition of S6, so nothing valid is pruned)."""
    onodes = output_nodes(P)
    ng = len(G["nodes"])
    for free in itertools.product(*([[root]] + [range(ng)] * (len(onodes) - 1))):
        assign, todo, ok = {}, [], True
        for j, gi in zip(onodes, free):
            if assign.setdefault(j, gi) != gi:
                ok = False
            todo.append(j)
        while todo and ok:
            j = todo.pop()
            gin = G["nodes"][assign[j]]["in"]
            for i in range(len(P["nodes"][j]["in"])):
                v = _resolved(P, choice, j, i)
                if v is None or v[0] != "o":
                    continue
                actual = gin[i] if i < len(gin) else ""
                if not actual or actual not in prod:
                    ok = False
                    break
                g2 = prod[actual][0]
                if v[1] in assign:
                    if assign[v[1]] != g2:
                        ok = False
                        break
                else:
                    assign[v[1]] = g2
                    todo.append(v[1])
        if ok:
            yield assign


def is_dispatch_site(P, j, i):
    """All alternatives are node outputs of pairwise different operators (the matcher may then dispatch on the producer)."""
    alts = P["nodes"][j]["in"][i][1]
    ids = {(P["nodes"][a[1]]["op"], P["nodes"][a[1]].get("domain", "")) for a in alts if a[0] == "o"}
    return all(a[0] == "o" for a in alts) and len(ids) == len(alts)


def match_one(P, G, root, removable, index=None, witness=None):
    """-> (strict, lax) sets of instances of P (no commutation) ending at host node `root`.
    witness (dict): strict instance -> one OR choice {(node, input index in the unswapped pattern): alternative}."""
    prod, cons = index or _index(G)
    strict, lax = set(), set()
    sites = or_sites(P)
    for alts in itertools.product(*[range(len(P["nodes"][j]["in"][i][1])) for j, i in sites]):
        choice = dict(zip(sites, alts))
        for assign in _assignments(P, G, prod, choice, root):
            try:
                inst = _check(P, G, prod, cons, choice, assign, removable)
            except _No:
                continue
            lax.add(inst)
            if len(set(assign.values())) == len(assign):
                strict.add(inst)
                if witness is not None and inst not in witness:
                    sw = P.get("_swap", ())
                    witness[inst] = {(j, (1 - i) if j in sw else i): a for (j, i), a in choice.items()}
    return strict, lax


def commute_variants(P):
    """S10: the pattern under every operand swap of its commutative binary node patterns."""
    idx = [j for j, n in enumerate(P["nodes"]) if n["op"] in COMMUTATIVE and n.get("domain", "") == ""]
    out = []
    for swaps in itertools.product([False, True], repeat=len(idx)):
        Q = {"nodes": [dict(n) for n in P["nodes"]], "outs": P["outs"], "_swap": {j for j, s in zip(idx, swaps) if s}}
        for j, s in zip(idx, swaps):
            if s:
                a = Q["nodes"][j]["in"]
                if len(a) != 2:
                    return None  # not a binary node pattern: S10 does not apply
                Q["nodes"][j]["in"] = [a[1], a[0]]
        out.append(Q)
    return out


def match_spec(P, G, root, removable, commute=False, index=None, witness=None):
    index = index or _index(G)
    if not commute:
        return match_one(P, G, root, removable, index, witness)
    strict, lax = set(), set()
    for Q in commute_variants(P):
        s, l = match_one(Q, G, root, removable, index, witness)
        strict |= s
        lax |= l
    return strict, lax
