"""C18 monitor: the *trace* of a GraphBuilder session, taken at the API boundary.

Class-level pass-through wrappers (vf.probes.wrap_method) on
  BuilderBase.call_op, GraphBuilder.call, GraphBuilder.call_inline, GraphBuilder.initializer,
  Parameter._realize
record what the user asked for: operator, domain, version, operands by *identity* (id of the ir.Value)
or as the literal Python object, attributes, and the identities of the values handed back.  Only calls
made at depth 0 are logged (helper nodes the builder creates for itself - CastLike for an untyped
operand - are not part of the user's trace).  For a literal operand the dtype the builder chose is read
off the value it wired (C12 owns the promotion rule; C18 replays with the builder's choice).

Frames: the bodies of subgraphs / build_function are traced by user callbacks; the generator brackets
them with begin_frame()/end_frame() (that is user knowledge: which values it was given and which it
returned), so the log is a tree: frame -> entries (op | call | inline | init | frame).
"""
from __future__ import annotations

import numpy as np

from . import probes


class Frame:
    def __init__(self, kind, inputs, parent=None, meta=None):
        self.kind = kind              # "main" | "subgraph" | "function"
        self.inputs = list(inputs)    # ids of the formal input values (None for absent optionals)
        self.outputs = None           # ids of the returned values
        self.entries = []
        self.parent = parent
        self.meta = meta or {}
        self.graph_id = None          # id(ir.Graph) once known (subgraph / function body)


class Monitor:
    def __init__(self):
        self.installed = False
        self.undo = []
        self.counts = probes.Counter()
        self.reset()

    # ---------------------------------------------------------------- session
    def reset(self):
        self.root = Frame("main", [])
        self.cur = self.root
        self.depth = 0
        self.keep = []          # keeps every logged object alive so ids stay unique
        self.frames_by_graph = {}
        self.realized = []      # (param id, name before, name after, builder id, root builder id)
        self.enabled = True

    def begin_frame(self, kind, inputs, meta=None):
        f = Frame(kind, [None if v is None else id(v) for v in inputs], self.cur, meta)
        self.keep.extend(v for v in inputs if v is not None)
        self.cur.entries.append({"k": "frame", "frame": f})
        self.cur = f
        return f

    def end_frame(self, outputs):
        f = self.cur
        f.outputs = [None if v is None else id(v) for v in outputs]
        self.keep.extend(v for v in outputs if v is not None)
        self.cur = f.parent
        return f

    def bind_graph(self, frame, graph):
        frame.graph_id = id(graph)
        self.keep.append(graph)
        self.frames_by_graph[id(graph)] = frame

    # ---------------------------------------------------------------- encoding
    def _operand(self, x):
        import onnx_ir as ir

        if x is None:
            return {"none": 1}
        if isinstance(x, ir.Value):
            self.keep.append(x)
            return {"v": id(x)}
        if isinstance(x, (bool, int, float, str)):
            return {"lit": x}
        if isinstance(x, (list, tuple)):
            return {"lit": list(x)}
        if hasattr(x, "numpy") and hasattr(x, "dtype"):   # ir.TensorProtocol
            return {"tensor": np.array(x.numpy()), "name": getattr(x, "name", None)}
        if isinstance(x, np.ndarray):
            return {"tensor": np.array(x)}
        return {"other": repr(x)[:80]}

    def _attr(self, x):
        import onnx_ir as ir

        if isinstance(x, ir.Graph):
            self.keep.append(x)
            return {"graph": id(x)}
        if isinstance(x, ir.Attr):
            if x.is_ref():
                return {"ref": x.ref_attr_name, "type": x.type.name}
            v = x.value
            if isinstance(v, ir.Graph):
                self.keep.append(v)
                return {"graph": id(v)}
            if hasattr(v, "numpy") and hasattr(v, "dtype"):
                return {"tensor": np.array(v.numpy())}
            return {"val": list(v) if isinstance(v, tuple) else v, "type": x.type.name}
        if hasattr(x, "numpy") and hasattr(x, "dtype") and not isinstance(x, np.ndarray):
            return {"tensor": np.array(x.numpy())}
        if isinstance(x, tuple):
            return {"val": list(x)}
        return {"val": x}

    @staticmethod
    def _outs(r):
        import onnx_ir as ir

        if isinstance(r, ir.Value):
            return [r]
        if r is None:
            return []
        return list(r)

    def _wired_dtypes(self, outs):
        """dtype the builder gave each input of the node it created: list aligned with node.inputs.
        entry: None | ("const", dtype name) | ("like", id of the CastLike target)."""
        if not outs:
            return None
        node = outs[0].producer()
        if node is None:
            return None
        res = []
        for v in node.inputs:
            if v is None:
                res.append(None)
                continue
            p = v.producer()
            if p is not None and p.op_type == "CastLike" and p.domain in ("", "ai.onnx") and len(p.inputs) == 2 \
                    and p.inputs[0] is not None and p.inputs[0].const_value is not None:
                res.append(("like", id(p.inputs[1])))
            elif v.const_value is not None:
                cv = None
                try:
                    if v.const_value.size <= 16:
                        cv = np.array(v.const_value.numpy())
                except Exception:
                    cv = None
                res.append(("const", v.const_value.dtype.name, cv))
            else:
                res.append(None)
        return res

    # ---------------------------------------------------------------- installation
    def install(self):
        if self.installed:
            return
        from onnxscript._internal import builder as B
        from onnxscript._internal import tape_builder as TB
        from onnxscript.nn import _parameter as P

        mon = self

        # --- call_op
        def op_before(self_, op_type, args, kwargs, /, **kw):
            mon.depth += 1
            if mon.depth != 1 or not mon.enabled:
                return None
            # snapshot now: the callee may mutate kwargs
            return {"k": "op", "b": id(self_), "op": op_type, "domain": kw.get("domain", ""),
                    "version": kw.get("version"), "outspec": kw.get("outputs", 1), "name": kw.get("name"),
                    "args": [mon._operand(a) for a in args],
                    "kwargs": {k: (mon._operand(v) if not _is_attr_like(v) else mon._attr(v)) for k, v in dict(kwargs).items()},
                    "kw_raw_kinds": {k: _kind(v) for k, v in dict(kwargs).items()}}

        def op_after(tok, r, *a, **k):
            mon.depth -= 1
            if tok is None:
                return
            outs = mon._outs(r)
            mon.keep.extend(outs)
            tok["outs"] = [id(v) for v in outs]
            tok["wired"] = mon._wired_dtypes(outs)
            mon.cur.entries.append(tok)
            mon.counts.hit("call_op")

        def op_exc(tok, e, *a, **k):
            mon.depth -= 1
            if tok is not None:
                tok["exc"] = f"{type(e).__name__}: {e}"[:300]
                mon.counts.hit("call_op_raised")

        self.undo.append(probes.wrap_method(TB.BuilderBase, "call_op", op_before, op_after, op_exc))

        # --- call / call_inline
        def mk_call(kind):
            def before(self_, function, *args, **kwargs):
                mon.depth += 1
                if mon.depth != 1 or not mon.enabled:
                    return None
                mon.keep.append(function)
                kw = dict(kwargs)
                outspec = kw.pop("_outputs", None)
                prefix = kw.pop("_prefix", "")
                return {"k": kind, "b": id(self_), "fn": id(function), "fn_name": getattr(function, "name", None),
                        "args": [mon._operand(a) for a in args], "outspec": outspec, "prefix": prefix,
                        "kwargs": {k: mon._attr(v) for k, v in kw.items()},
                        "attr_form": sorted({_kind(v) for v in kw.values()})}

            def after(tok, r, *a, **k):
                mon.depth -= 1
                if tok is None:
                    return
                outs = mon._outs(r)
                mon.keep.extend(o for o in outs if o is not None)
                tok["outs"] = [None if v is None else id(v) for v in outs]
                mon.cur.entries.append(tok)
                mon.counts.hit(kind)

            def exc(tok, e, *a, **k):
                mon.depth -= 1
                if tok is not None:
                    mon.counts.hit(kind + "_raised")

            return before, after, exc

        for kind, name in (("call", "call"), ("inline", "call_inline")):
            b, a, x = mk_call(kind)
            self.undo.append(probes.wrap_method(B.GraphBuilder, name, b, a, x))

        # --- initializer (explicit ones only: depth 0)
        def init_before(self_, tensor, name=None, **kw):
            mon.depth += 1
            if mon.depth != 1 or not mon.enabled:
                return None
            return {"k": "init", "b": id(self_), "name": name if name is not None else getattr(tensor, "name", None),
                    "qualify": kw.get("qualify", True), "tensor": np.array(tensor.numpy())}

        def init_after(tok, r, *a, **k):
            mon.depth -= 1
            if tok is None:
                return
            mon.keep.append(r)
            tok["out"] = id(r)
            tok["out_name"] = r.name
            mon.cur.entries.append(tok)
            mon.counts.hit("initializer")

        def init_exc(tok, e, *a, **k):
            mon.depth -= 1

        self.undo.append(probes.wrap_method(B.GraphBuilder, "initializer", init_before, init_after, init_exc))

        # --- Parameter._realize
        def rz_before(self_, builder):
            return (self_.name, bool(getattr(self_, "_realized", False)))

        def rz_after(tok, r, self_, builder):
            if not mon.enabled:
                return
            mon.keep.append(self_)
            mon.realized.append({"param": id(self_), "before": tok[0], "was_realized": tok[1], "after": self_.name,
                                 "builder": id(builder), "root": id(builder.root),
                                 "in_subgraph": builder.root is not builder})
            mon.counts.hit("realize")

        self.undo.append(probes.wrap_method(P.Parameter, "_realize", rz_before, rz_after))
        self.installed = True

    def uninstall(self):
        for u in reversed(self.undo):
            u()
        self.undo = []
        self.installed = False


def _is_attr_like(v):
    """kwargs of call_op may hold inputs (by formal name) or attributes; graphs/ir.Attr are always attributes.
    Everything else is encoded as an operand; the replay partitions by schema."""
    import onnx_ir as ir

    return isinstance(v, (ir.Graph, ir.Attr))


def _kind(v):
    import onnx_ir as ir

    if isinstance(v, ir.Attr):
        return "ir.Attr"
    if isinstance(v, ir.Graph):
        return "graph"
    if isinstance(v, ir.Value):
        return "value"
    return "py"


MON = Monitor()
