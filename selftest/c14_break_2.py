# skip FoldConstantsPass._reset()
import sys; d=sys.argv[1]; p=d+"/onnxscript/optimizer/_constant_folding.py"; s=open(p).read()
old='''    def call(self, model: ir.Model) -> FoldConstantsResult:
        self._reset()
'''
new='''    def call(self, model: ir.Model) -> FoldConstantsResult:
'''
assert old in s; open(p,"w").write(s.replace(old,new))
