# rule keeps state from a failed check() and reads it in a later rewrite (FuseConvPad caches _pads_list)
import sys; d=sys.argv[1]; p=d+"/onnxscript/rewriter/rules/common/_fuse_pad_into_conv.py"; s=open(p).read()
old='''        self._pads_list = fill_pads_with_axes(pads.const_value.numpy(), axes_list, x_rank)
'''
new='''        if getattr(self, "_pads_list", None) is None:
            self._pads_list = fill_pads_with_axes(pads.const_value.numpy(), axes_list, x_rank)
'''
assert old in s; open(p,"w").write(s.replace(old,new))
