# to_model_proto works on function_ir's own graph (no clone) and applies io_types to the IR values before serializing
import sys; d=sys.argv[1]; p=d+"/onnxscript/_internal/values.py"; s=open(p).read()
old='''        main_graph = self.function_ir.graph.clone()'''
new='''        main_graph = self.function_ir.graph
        if io_types is not None:
            for value in (*main_graph.inputs, *main_graph.outputs):
                if value.type is None:
                    tp = io_types.to_type_proto()
                    value.type = ir.serde.deserialize_type_proto_for_type(tp)
                    value.shape = ir.serde.deserialize_type_proto_for_shape(tp)'''
assert old in s; open(p,"w").write(s.replace(old,new))
