# deliberate break for C15 (scratch copy only): see first assert for the edited code
import sys; d=sys.argv[1]; p=d+"/onnxscript/rewriter/__init__.py"; s=open(p).read()
old='''    elif not pattern_rewrite_rules:
        return model
'''
new='''    elif not pattern_rewrite_rules:
        import copy
        return copy.deepcopy(model) if isinstance(model, onnx.ModelProto) else model.clone()
'''
assert old in s; open(p,"w").write(s.replace(old,new))
