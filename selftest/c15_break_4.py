# deliberate break for C15 (scratch copy only): see first assert for the edited code
import sys; d=sys.argv[1]; p=d+"/onnxscript/optimizer/__init__.py"; s=open(p).read()
old='''        new_proto = ir.serde.serialize_model(model_ir)
        return new_proto'''
new='''        new_proto = ir.serde.serialize_model(model_ir)
        del model.graph.value_info[:]
        return new_proto'''
assert old in s; open(p,"w").write(s.replace(old,new))
