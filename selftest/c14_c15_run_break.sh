#!/bin/bash
# usage: mut.sh <PID> <label> <python edit script file>
PID=$1; LABEL=$2; EDIT=$3
D=/tmp/mut-$PID
rm -rf $D; rsync -a --exclude .git /repo/ $D/
/venv/bin/python $EDIT $D || { echo "EDIT FAILED"; exit 9; }
cd /verif
echo "=== break $LABEL: onnxscript from $(PYTHONPATH=$D /venv/bin/python -c 'import onnxscript; print(onnxscript.__file__)' 2>/dev/null)"
VERIF_REPO=$D ${EXTRA_ENV:-} ./check $PID 2>&1 | grep -v "^  \[vf" | grep -v "^KNOWN-FINDING" | cut -c1-330
echo "exit=${PIPESTATUS[0]}"
rm -rf $D
