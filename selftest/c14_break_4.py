# globals evaluated lazily: to_model_proto re-translates the function against the current module namespace
import sys; d=sys.argv[1]; p=d+"/onnxscript/_internal/values.py"; s=open(p).read()
old='''        merged_kw_args = {**self.kwargs, **kwargs}
        return self._to_model_proto(**merged_kw_args)'''
new='''        merged_kw_args = {**self.kwargs, **kwargs}
        import inspect
        from onnxscript._internal import ast_utils, main as _main
        src, f_ast = ast_utils.get_src_and_ast(self.function)
        env = inspect.getmodule(self.function).__dict__.copy()
        env.update(inspect.getclosurevars(self.function).nonlocals)
        self.function_ir = _main.script_check(f_ast, self.opset, env, src)
        self.function_ir.meta["opset_version"] = self.opset.version
        return self._to_model_proto(**merged_kw_args)'''
assert old in s; open(p,"w").write(s.replace(old,new))
