# deliberate break for C15 (scratch copy only): see first assert for the edited code
import sys; d=sys.argv[1]; p=d+"/onnxscript/optimizer/__init__.py"; s=open(p).read()
old='''        new_proto = ir.serde.serialize_model(model)
        model_proto.Clear()
        model_proto.CopyFrom(new_proto)
        return result'''
new='''        new_proto = ir.serde.serialize_model(model)
        model_proto.Clear()
        model_proto.ir_version = new_proto.ir_version
        model_proto.opset_import.extend(new_proto.opset_import)
        model_proto.functions.extend(new_proto.functions)
        model_proto.graph.CopyFrom(new_proto.graph)
        return result'''
assert old in s; open(p,"w").write(s.replace(old,new))
