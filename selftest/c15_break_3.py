# deliberate break for C15 (scratch copy only): see first assert for the edited code
import sys; d=sys.argv[1]; p=d+"/onnxscript/optimizer/__init__.py"; s=open(p).read()
old='''        model_ir = common_passes.RemoveUnusedNodesPass()(model_ir).model
        new_proto = ir.serde.serialize_model(model_ir)
        model.Clear()
        model.CopyFrom(new_proto)'''
new='''        model_ir = common_passes.RemoveUnusedNodesPass()(model_ir).model
        new_proto = ir.serde.serialize_model(model_ir)
        model = new_proto'''
assert old in s; open(p,"w").write(s.replace(old,new))
